(* C15: the keys the model derives are those of the RFC key schedules, for every crypto instance C. *)
From Coq Require Import ZArith List Bool Lia.
Require Import PyLib PyLibP SuiteTypes Crypto KeySchedule QuicKeys Iana RfcKeys.
Import ListNotations.
Open Scope Z_scope.
Ltac Zify.zify_post_hook ::= Z.to_euclidean_division_equations.

Section C15.
Variable C : Crypto.

(* ---------- slices of prefixes ---------- *)
Lemma slice_to_slice_to {A} (s : list A) a b : 0 <= a <= b -> slice_to (slice_to s b) a = slice_to s a.
Proof. intros H. rewrite !slice_to_eq. rewrite firstn_firstn. f_equal. apply Nat.min_l. lia. Qed.
Lemma slice_of_slice_to {A} (s : list A) L a b : 0 <= a -> b <= L -> slice (slice_to s L) a b = slice s a b.
Proof.
  intros Ha H. rewrite !slice_eq, slice_to_eq.
  destruct (Z.le_gt_cases b a) as [Hle|Hgt]; [replace (Z.to_nat (b - a)) with O by lia; reflexivity|].
  rewrite skipn_firstn_comm. rewrite firstn_firstn. f_equal. apply Nat.min_l. lia.
Qed.
Lemma len_slice_to {A} (s : list A) n : 0 <= n <= len s -> len (slice_to s n) = n.
Proof. intros. rewrite slice_to_eq. unfold len in *. rewrite firstn_length. lia. Qed.
Lemma xor_zip_firstn a : forall b n, firstn n (xor_zip a b) = xor_zip (firstn n a) (firstn n b).
Proof. induction a as [|x a IH]; intros [|y b] [|n]; cbn [xor_zip firstn]; try reflexivity. f_equal. apply IH. Qed.
Lemma xor_zip_slice_to a b n : slice_to (xor_zip a b) n = xor_zip (slice_to a n) (slice_to b n).
Proof. rewrite !slice_to_eq. apply xor_zip_firstn. Qed.

(* ---------- P_hash: the loop produces a run of the RFC's stream ---------- *)
Lemma p_hash_loop_inv h secret seed n : forall fuel j r,
  p_hash_loop C fuel h secret seed (A_ C h secret seed j) (p_stream C h secret seed j) n = Ok r ->
  exists k, r = p_stream C h secret seed k /\ n <= len r.
Proof.
  induction fuel as [|f IH]; intros j r H; cbn [p_hash_loop] in H;
    destruct (len (p_stream C h secret seed j) <? n) eqn:E; try discriminate.
  - injection H as <-. exists j. split; [reflexivity|apply Z.ltb_ge; exact E].
  - apply (IH (S j)). exact H.
  - injection H as <-. exists j. split; [reflexivity|apply Z.ltb_ge; exact E].
Qed.

Lemma p_hash_spec h secret seed n r : p_hash C h secret seed n = Ok r ->
  exists k, r = p_stream C h secret seed k /\ n <= len r.
Proof. unfold p_hash. apply (p_hash_loop_inv h secret seed n _ O). Qed.

Lemma is_p_hash_prefix h secret seed k L L' : 0 <= L <= L' -> L' <= len (p_stream C h secret seed k) ->
  is_p_hash C h secret seed L (slice_to (slice_to (p_stream C h secret seed k) L') L).
Proof. intros HL Hl. exists k. split; [lia|]. apply slice_to_slice_to. exact HL. Qed.

(* the stream is monotone, so "the first n bytes of P_hash" is a single value *)
Lemma p_stream_prefix h secret seed k j : exists t, p_stream C h secret seed (k + j) = p_stream C h secret seed k ++ t.
Proof.
  induction j as [|j [t IH]]; [exists []; rewrite Nat.add_0_r, app_nil_r; reflexivity|].
  rewrite Nat.add_succ_r. cbn [p_stream]. rewrite IH. eexists. rewrite <- app_assoc. reflexivity.
Qed.
Lemma is_p_hash_unique h secret seed n a b : 0 <= n -> is_p_hash C h secret seed n a -> is_p_hash C h secret seed n b -> a = b.
Proof.
  intros Hn (k1 & H1 & ->) (k2 & H2 & ->). rewrite !slice_to_eq.
  assert (G: forall k j, n <= len (p_stream C h secret seed k) ->
             firstn (Z.to_nat n) (p_stream C h secret seed (k + j)) = firstn (Z.to_nat n) (p_stream C h secret seed k)).
  { intros k j Hk. destruct (p_stream_prefix h secret seed k j) as [t ->]. rewrite firstn_app.
    replace (Z.to_nat n - length (p_stream C h secret seed k))%nat with O by (unfold len in Hk; lia). cbn [firstn]. apply app_nil_r. }
  destruct (Nat.le_ge_cases k1 k2) as [Hle|Hle].
  - replace k2 with (k1 + (k2 - k1))%nat by lia. symmetry. apply G. exact H1.
  - replace k1 with (k2 + (k1 - k2))%nat by lia. apply G. exact H2.
Qed.

(* ---------- TLS 1.2 ---------- *)
Lemma prf_tls_12_block secret cr sr lbl L' mac r : 0 <= L' -> prf_tls_12 C secret cr sr lbl L' mac = Ok r ->
  forall L, 0 <= L <= L' ->
  is_p_hash C (if hash_eqb mac SHA384 then SHA384 else SHA256) secret (lbl ++ sr ++ cr) L (slice_to r L).
Proof.
  intros HL' H L HL. unfold prf_tls_12 in H.
  destruct (p_hash C _ secret (lbl ++ sr ++ cr) L') as [blk|] eqn:E; [|discriminate]. cbn [bind] in H. injection H as <-.
  destruct (p_hash_spec _ _ _ _ _ E) as (k & -> & Hlen). apply is_p_hash_prefix; assumption.
Qed.

(* ---------- TLS 1.0 / 1.1 ---------- *)
Lemma prf_tls_10_11_block secret cr sr lbl L' r : 0 <= L' -> Z.even (len secret) = true ->
  prf_tls_10_11 C secret cr sr lbl L' false = Ok r ->
  forall L, 0 <= L <= L' -> is_prf10 C secret lbl (sr ++ cr) L (slice_to r L).
Proof.
  intros HL' Hev H L HL. unfold prf_tls_10_11 in H.
  destruct (p_hash C MD5 _ _ L') as [pm|] eqn:E1; [|discriminate]. cbn [bind] in H.
  destruct (p_hash C SHA1 _ _ L') as [ps|] eqn:E2; [|discriminate]. cbn [bind] in H. injection H as <-.
  destruct (p_hash_spec _ _ _ _ _ E1) as (k1 & -> & Hl1). destruct (p_hash_spec _ _ _ _ _ E2) as (k2 & -> & Hl2).
  unfold is_prf10. cbv zeta.
  assert (Hhalf: len secret - (len secret + 1) / 2 = (len secret + 1) / 2).
  { apply Z.even_spec in Hev as [q Hq]. lia. }
  rewrite Hhalf.
  eexists _, _. split; [|split].
  - exists k1. split; [lia|reflexivity].
  - exists k2. split; [lia|reflexivity].
  - rewrite slice_to_slice_to by lia. apply xor_zip_slice_to.
Qed.

(* ---------- SSL 3.0 ---------- *)
Lemma ssl3_label_spec i : (1 <= i <= 10)%nat -> ssl3_label (Z.of_nat i) = Ok (repeat (64 + Z.of_nat i) i).
Proof.
  intros H. unfold ssl3_label. rewrite Nat2Z.id.
  destruct ((1 <=? Z.of_nat i) && (Z.of_nat i <=? 10)) eqn:E; [reflexivity|].
  apply andb_false_iff in E as [E|E]; [apply Z.leb_gt in E|apply Z.leb_gt in E]; lia.
Qed.
Lemma prf_ssl_30_loop_inv secret rnd n : forall fuel j r, (j <= 10)%nat ->
  prf_ssl_30_loop C fuel secret rnd (Z.of_nat (S j)) (ssl3_stream C secret rnd j) n = Ok r ->
  exists k, (k <= 10)%nat /\ r = ssl3_stream C secret rnd k /\ n <= len r.
Proof.
  induction fuel as [|f IH]; intros j r Hf H; cbn [prf_ssl_30_loop] in H;
    destruct (len (ssl3_stream C secret rnd j) <? n) eqn:E; try discriminate.
  - injection H as <-. exists j. apply Z.ltb_ge in E. auto.
  - destruct (ssl3_label (Z.of_nat (S j))) as [l|] eqn:El; [|discriminate]. cbn [bind] in H.
    assert (Hj: (S j <= 10)%nat).
    { unfold ssl3_label in El. destruct ((1 <=? Z.of_nat (S j)) && (Z.of_nat (S j) <=? 10)) eqn:E2; [|discriminate].
      apply andb_prop in E2 as [_ E2]. apply Z.leb_le in E2. lia. }
    rewrite ssl3_label_spec in El by lia. injection El as <-.
    replace (Z.of_nat (S j) + 1) with (Z.of_nat (S (S j))) in H by lia.
    apply (IH (S j) r); [lia|]. exact H.
  - injection H as <-. exists j. apply Z.ltb_ge in E. auto.
Qed.
Lemma prf_ssl_30_block secret cr sr L' r : 0 <= L' -> prf_ssl_30 C secret cr sr L' false = Ok r ->
  forall L, 0 <= L <= L' -> is_ssl3_block C secret (sr ++ cr) L (slice_to r L).
Proof.
  intros HL' H L HL. unfold prf_ssl_30 in H.
  destruct (prf_ssl_30_loop C 12 secret (sr ++ cr) 1 [] L') as [kb|] eqn:E; [|discriminate]. cbn [bind] in H. injection H as <-.
  destruct (prf_ssl_30_loop_inv secret (sr ++ cr) L' 12 O kb ltac:(lia) E) as (k & Hk & -> & Hlen).
  exists k. split; [exact Hk|]. split; [lia|]. apply slice_to_slice_to. exact HL.
Qed.

(* ---------- partition ---------- *)
Definition keys_are_parts (ks : keys12) (kb : bytes) (m k i : Z) : Prop :=
  client_mac ks = part kb m k i 0 /\ server_mac ks = part kb m k i 1 /\
  client_key ks = part kb m k i 2 /\ server_key ks = part kb m k i 3 /\
  (0 < i -> client_iv ks = part kb m k i 4 /\ server_iv ks = part kb m k i 5).

Lemma slice_keys_parts r L m k i i' : 0 <= m -> 0 <= k -> 0 <= i -> L = 2 * m + 2 * k + 2 * i -> (0 < i -> i' = i) ->
  keys_are_parts (slice_keys r m k i') (slice_to r L) m k i.
Proof.
  intros Hm Hk Hi HL Hi'. unfold keys_are_parts, slice_keys, part. cbn [client_mac server_mac client_key server_key client_iv server_iv].
  rewrite !slice_of_slice_to by lia. repeat split; try reflexivity.
  - rewrite (Hi' H). reflexivity.
  - rewrite (Hi' H). reflexivity.
Qed.

(* ---------- what "agrees" gives ---------- *)
Lemma agrees_fields cs d : agrees cs d = true ->
  exists a m, s_algo cs = Some (a, if d_aead d then 1 else 0) /\ a = d_alg d /\ s_keylen cs = Some (d_keylen d) /\ s_mac cs = d_hash d /\
    mode_flag cs = (if d_aead d then 1 else 0) /\ m = tt.
Proof.
  unfold agrees. intros H. repeat (apply andb_prop in H as [H ?]).
  destruct (s_algo cs) as [[a f]|] eqn:Ea; [|discriminate]. apply andb_prop in H as [Ha Hf].
  destruct (s_keylen cs) as [kl|]; [|discriminate].
  exists a, tt. apply Z.eqb_eq in Hf. subst f.
  assert (a = d_alg d) by (destruct a, (d_alg d); try discriminate; reflexivity).
  assert (s_mac cs = d_hash d) by (destruct (s_mac cs), (d_hash d); try discriminate; reflexivity).
  assert (kl = d_keylen d) by (apply Z.eqb_eq; assumption). subst kl.
  repeat split; auto. unfold mode_flag. destruct (s_mode cs) as [[md f]|].
  - apply Z.eqb_eq. assumption.
  - destruct (d_aead d); [discriminate|reflexivity].
Qed.

Definition valid_denotation (d : denotation) : Prop :=
  0 <= d_keylen d /\ (d_aead d = true -> In (d_alg d) [AESGCM; AESCCM; ChaCha20Poly1305]) /\
  (d_aead d = false -> In (d_alg d) [AES; Camellia; TripleDES; IDEA; ARC4]).

Lemma digest_nonneg h : 0 <= digest_size h. Proof. destruct h; cbn; lia. Qed.

Lemma iv12_ok cs d : valid_denotation d -> algo_of cs = Some (d_alg d) -> mode_flag cs = (if d_aead d then 1 else 0) ->
  0 < rfc_iv_len R_TLS12 d -> iv_length_12 (algo_of cs) (mode_flag cs) = rfc_iv_len R_TLS12 d.
Proof.
  intros (_ & Va & Vn) Ha Hm Hpos. rewrite Ha, Hm. unfold rfc_iv_len in *. destruct (d_aead d) eqn:Ead.
  - specialize (Va eq_refl). cbn [In] in Va. destruct Va as [E | [E | [E | []]]]; rewrite <- E in *; reflexivity.
  - lia.
Qed.
Lemma iv_legacy_ok cs d v : valid_denotation d -> algo_of cs = Some (d_alg d) -> d_aead d = false ->
  v = R_SSL30 \/ v = R_TLS10 \/ v = R_TLS11 -> 0 < rfc_iv_len v d -> iv_length_legacy (algo_of cs) = rfc_iv_len v d.
Proof.
  intros (_ & _ & Vn) Ha Hae Hv Hpos. rewrite Ha. unfold rfc_iv_len in *. rewrite Hae in *. specialize (Vn eq_refl). cbn [In] in Vn.
  destruct Hv as [-> | [-> | ->]]; destruct Vn as [E | [E | [E | [E | [E | []]]]]]; rewrite <- E in *; cbn [block_size iv_length_legacy] in *; try reflexivity; lia.
Qed.

(* ---------- the session wiring, CLIENT_RANDOM lines ---------- *)
Theorem tls12_keys_are_rfc cs d sec rest cr sr ms ks :
  agrees cs d = true -> valid_denotation d ->
  s_label sec = LClientRandom -> s_value sec = Some ms ->
  derive_session_keys C TLS12 cs (sec :: rest) cr sr = Ok (K12 ks) ->
  let m := rfc_mac_len d in let k := d_keylen d in let i := rfc_iv_len R_TLS12 d in
  exists kb, is_key_block C R_TLS12 (rfc_prf_hash d) ms cr sr (2 * m + 2 * k + 2 * i) kb /\ keys_are_parts ks kb m k i.
Proof.
  intros Hag Hv Hl Hval H m k i.
  destruct (agrees_fields _ _ Hag) as (a & _ & Halg & -> & Hkl & Hmac & Hmf & _).
  unfold derive_session_keys in H. rewrite Hkl, Hl in H. unfold fromhex in H. rewrite Hval in H. cbn [bind] in H.
  unfold dev_tls_12_keys in H. rewrite Hmac in H.
  destruct (prf_tls_12 C ms cr sr key_expansion _ (d_hash d)) as [r|] eqn:E; [|discriminate]. cbn [bind rmap] in H.
  injection H as <-.
  assert (Halgo: algo_of cs = Some (d_alg d)) by (unfold algo_of; rewrite Halg; reflexivity).
  destruct Hv as (Hk0 & Hva & Hvn). pose proof (digest_nonneg (d_hash d)) as Hdg.
  assert (Hm0: 0 <= m) by (subst m; unfold rfc_mac_len; destruct (d_aead d); lia).
  assert (Hi0: 0 <= i) by (subst i; unfold rfc_iv_len; destruct (d_aead d); [destruct (d_alg d); lia|lia]).
  assert (Hmm: (if mode_flag cs =? 0 then digest_size (d_hash d) else 0) = m).
  { subst m. unfold rfc_mac_len. rewrite Hmf. destruct (d_aead d); reflexivity. }
  assert (Hiv0: 0 <= iv_length_12 (algo_of cs) (mode_flag cs)).
  { unfold iv_length_12. destruct (algo_of cs) as [[]|]; try lia. destruct (mode_flag cs =? 0); lia. }
  set (L' := 2 * d_keylen d + 2 * digest_size (d_hash d) + 2 * iv_length_12 (algo_of cs) (mode_flag cs)) in *.
  set (L := 2 * m + 2 * k + 2 * i).
  assert (HLL: 0 <= L <= L').
  { subst L L' k. split; [lia|].
    assert (m <= digest_size (d_hash d)) by (subst m; unfold rfc_mac_len; destruct (d_aead d); lia).
    destruct (Z.le_gt_cases i 0); [lia|].
    rewrite (iv12_ok cs d (conj Hk0 (conj Hva Hvn)) Halgo Hmf) by (subst i; lia). subst i. lia. }
  exists (slice_to r L). split.
  - unfold is_key_block. unfold key_expansion in E.
    pose proof (prf_tls_12_block ms cr sr _ L' (d_hash d) r ltac:(lia) E L HLL) as G.
    replace (if hash_eqb (d_hash d) SHA384 then SHA384 else SHA256) with (rfc_prf_hash d) in G
      by (unfold rfc_prf_hash; destruct (d_hash d); reflexivity).
    exact G.
  - rewrite Hmm. apply slice_keys_parts; try assumption; try reflexivity.
    intros Hpos. apply (iv12_ok cs d (conj Hk0 (conj Hva Hvn)) Halgo Hmf). subst i. exact Hpos.
Qed.

Theorem tls10_11_keys_are_rfc v rv cs d sec rest cr sr ms ks :
  (v = TLS10 /\ rv = R_TLS10) \/ (v = TLS11 /\ rv = R_TLS11) ->
  agrees cs d = true -> valid_denotation d -> d_aead d = false -> Z.even (len ms) = true ->
  s_label sec = LClientRandom -> s_value sec = Some ms ->
  derive_session_keys C v cs (sec :: rest) cr sr = Ok (K12 ks) ->
  let m := rfc_mac_len d in let k := d_keylen d in let i := rfc_iv_len rv d in
  exists kb, is_key_block C rv (rfc_prf_hash d) ms cr sr (2 * m + 2 * k + 2 * i) kb /\ keys_are_parts ks kb m k i.
Proof.
  intros Hver Hag Hv Hae Hev Hl Hval H m k i.
  destruct (agrees_fields _ _ Hag) as (a & _ & Halg & -> & Hkl & Hmac & Hmf & _).
  assert (H': (do ms0 <- fromhex sec; rmap K12 (dev_tls_10_11_keys C ms0 sr cr (d_keylen d) (digest_size (s_mac cs))
                 (2 * d_keylen d + 2 * digest_size (s_mac cs)) (algo_of cs) (mode_flag cs))) = Ok (K12 ks)).
  { unfold derive_session_keys in H. rewrite Hkl, Hl in H. destruct Hver as [[-> _] | [-> _]]; exact H. }
  clear H. unfold fromhex in H'. rewrite Hval in H'. cbn [bind] in H'. unfold dev_tls_10_11_keys in H'. rewrite Hmac in H'.
  destruct (prf_tls_10_11 C ms cr sr key_expansion _ false) as [r|] eqn:E; [|discriminate]. cbn [bind rmap] in H'. injection H' as <-.
  assert (Halgo: algo_of cs = Some (d_alg d)) by (unfold algo_of; rewrite Halg; reflexivity).
  pose proof (digest_nonneg (d_hash d)) as Hdg. pose proof Hv as (Hk0 & _ & _).
  rewrite Hae in Hmf.
  assert (Hm: m = digest_size (d_hash d)) by (subst m; unfold rfc_mac_len; rewrite Hae; reflexivity).
  assert (Hi0: 0 <= i) by (subst i; unfold rfc_iv_len; rewrite Hae; destruct rv; try lia; destruct (d_alg d); cbn; lia).
  assert (Hiv0: 0 <= iv_length_legacy (algo_of cs)) by (unfold iv_length_legacy; destruct (algo_of cs) as [[]|]; lia).
  assert (Hrv: rv = R_SSL30 \/ rv = R_TLS10 \/ rv = R_TLS11) by (destruct Hver as [[_ ->] | [_ ->]]; auto).
  set (L' := 2 * d_keylen d + 2 * digest_size (d_hash d) + 2 * iv_length_legacy (algo_of cs)) in *.
  set (L := 2 * m + 2 * k + 2 * i).
  assert (HLL: 0 <= L <= L').
  { subst L L' k. split; [lia|]. destruct (Z.le_gt_cases i 0); [lia|].
    rewrite (iv_legacy_ok cs d rv Hv Halgo Hae Hrv) by (subst i; lia). subst i. lia. }
  exists (slice_to r L). split.
  - assert (G: is_prf10 C ms b_key_expansion (sr ++ cr) L (slice_to r L)).
    { apply (prf_tls_10_11_block ms cr sr key_expansion L' r); try assumption; lia. }
    unfold is_key_block. destruct Hver as [[_ ->] | [_ ->]]; exact G.
  - rewrite Hmf. cbn [Z.eqb]. rewrite <- Hm. apply slice_keys_parts; try assumption; try reflexivity; try lia.
    intros Hpos. apply (iv_legacy_ok cs d rv Hv Halgo Hae Hrv). subst i. exact Hpos.
Qed.

Theorem ssl30_keys_are_rfc cs d sec rest cr sr ms ks :
  agrees cs d = true -> valid_denotation d -> d_aead d = false ->
  s_label sec = LClientRandom -> s_value sec = Some ms ->
  derive_session_keys C SSL30 cs (sec :: rest) cr sr = Ok (K12 ks) ->
  let m := rfc_mac_len d in let k := d_keylen d in let i := rfc_iv_len R_SSL30 d in
  exists kb, is_key_block C R_SSL30 (rfc_prf_hash d) ms cr sr (2 * m + 2 * k + 2 * i) kb /\ keys_are_parts ks kb m k i.
Proof.
  intros Hag Hv Hae Hl Hval H m k i.
  destruct (agrees_fields _ _ Hag) as (a & _ & Halg & -> & Hkl & Hmac & Hmf & _).
  unfold derive_session_keys in H. rewrite Hkl, Hl in H. unfold fromhex in H. rewrite Hval in H. cbn [bind] in H.
  unfold dev_ssl_30_keys in H. rewrite Hmac in H.
  destruct (prf_ssl_30 C ms cr sr _ false) as [r|] eqn:E; [|discriminate]. cbn [bind rmap] in H. injection H as <-.
  assert (Halgo: algo_of cs = Some (d_alg d)) by (unfold algo_of; rewrite Halg; reflexivity).
  assert (Haf: algo_flag cs = 0) by (unfold algo_flag; rewrite Halg, Hae; reflexivity).
  pose proof (digest_nonneg (d_hash d)) as Hdg. pose proof Hv as (Hk0 & _ & _).
  assert (Hm: m = digest_size (d_hash d)) by (subst m; unfold rfc_mac_len; rewrite Hae; reflexivity).
  assert (Hi0: 0 <= i) by (subst i; unfold rfc_iv_len; rewrite Hae; destruct (d_alg d); cbn; lia).
  assert (Hiv0: 0 <= iv_length_legacy (algo_of cs)) by (unfold iv_length_legacy; destruct (algo_of cs) as [[]|]; lia).
  set (L' := 2 * d_keylen d + 2 * digest_size (d_hash d) + 2 * iv_length_legacy (algo_of cs)) in *.
  set (L := 2 * m + 2 * k + 2 * i).
  assert (HLL: 0 <= L <= L').
  { subst L L' k. split; [lia|]. destruct (Z.le_gt_cases i 0); [lia|].
    rewrite (iv_legacy_ok cs d R_SSL30 Hv Halgo Hae ltac:(auto)) by (subst i; lia). subst i. lia. }
  exists (slice_to r L). split.
  - unfold is_key_block. apply (prf_ssl_30_block ms cr sr L' r); try assumption; lia.
  - rewrite Haf. cbn [Z.eqb]. rewrite <- Hm. apply slice_keys_parts; try assumption; try reflexivity; try lia.
    intros Hpos. apply (iv_legacy_ok cs d R_SSL30 Hv Halgo Hae ltac:(auto)). subst i. exact Hpos.
Qed.

(* ---------- HKDF labels: TLS 1.3 and QUIC ---------- *)
Lemma make_info_is_hkdf_label lbl n : 0 <= n < 65536 -> len lbl + 6 < 256 ->
  make_info lbl n = Ok (hkdf_label (b_tls13 ++ lbl) n).
Proof.
  intros Hn Hl. unfold make_info, hkdf_label. pose proof (len_nonneg lbl).
  rewrite (to_be_ok n 2) by (change (256 ^ 2) with 65536; lia). cbn [bind].
  rewrite (to_be_ok (len lbl + 6) 1) by (change (256 ^ 1) with 256; lia). cbn [bind].
  unfold to_be_total. change (Z.to_nat 2) with 2%nat. change (Z.to_nat 1) with 1%nat. cbn [to_be_fuel].
  rewrite len_app. change (len b_tls13) with 6. unfold b_tls13, b_tls13_.
  assert (E1: (n / 256) mod 256 = n / 256) by (apply Z.mod_small; split; [apply Z.div_pos; lia|apply Z.div_lt_upper_bound; lia]).
  assert (E2: (len lbl + 6) mod 256 = 6 + len lbl) by (rewrite Z.mod_small; lia).
  rewrite E1, E2. reflexivity.
Qed.

Theorem quic_ku_is_rfc g h kl g' : 0 <= kl < 65536 -> key_update C g h kl = Ok g' ->
  expand_label C h (g_ssec g) q_ku (digest_size h) = Ok (g_ssec g') /\ expand_label C h (g_csec g) q_ku (digest_size h) = Ok (g_csec g') /\
  expand_label C h (g_ssec g') q_key kl = Ok (g_skey g') /\ expand_label C h (g_ssec g') q_iv 12 = Ok (g_siv g') /\
  expand_label C h (g_csec g') q_key kl = Ok (g_ckey g') /\ expand_label C h (g_csec g') q_iv 12 = Ok (g_civ g').
Proof.
  intros Hkl H. unfold key_update in H.
  assert (Hd: 0 <= digest_size h < 65536) by (destruct h; cbn; lia).
  rewrite !make_info_is_hkdf_label in H by (cbn; lia). cbn [bind] in H. unfold expand_label.
  change (b_tls13 ++ b_quic_ku) with (b_tls13 ++ q_ku) in H. change (b_tls13 ++ b_quic_key) with (b_tls13 ++ q_key) in H.
  change (b_tls13 ++ b_quic_iv) with (b_tls13 ++ q_iv) in H.
  repeat match type of H with bind ?m _ = Ok _ => let r := fresh "r" in let E := fresh "E" in destruct m as [r|] eqn:E; [|discriminate]; cbn [bind] in H end.
  injection H as <-. cbn [g_ssec g_csec g_skey g_siv g_ckey g_civ]. repeat split; assumption.
Qed.

Theorem quic_initial_is_rfc dcid ks : dev_initial_keys C dcid QV1 false = Ok (Some ks) ->
  let init := c_hkdf_extract C SHA256 quic_v1_salt dcid in
  exists csec ssec, expand_label C SHA256 init q_client_in 32 = Ok csec /\ expand_label C SHA256 init q_server_in 32 = Ok ssec /\
    expand_label C SHA256 csec q_key 16 = Ok (ci_key ks) /\ expand_label C SHA256 csec q_iv 12 = Ok (ci_iv ks) /\
    expand_label C SHA256 csec q_hp 16 = Ok (ci_hp ks) /\
    expand_label C SHA256 ssec q_key 16 = Ok (si_key ks) /\ expand_label C SHA256 ssec q_iv 12 = Ok (si_iv ks) /\
    expand_label C SHA256 ssec q_hp 16 = Ok (si_hp ks).
Proof.
  intros H init. unfold dev_initial_keys in H. cbv zeta in H.
  rewrite !make_info_is_hkdf_label in H by (cbn; lia). cbn [bind] in H. unfold expand_label.
  change salt_v1 with quic_v1_salt in H. fold init in H.
  change (b_tls13 ++ b_client_in) with (b_tls13 ++ q_client_in) in H. change (b_tls13 ++ b_server_in) with (b_tls13 ++ q_server_in) in H.
  change (b_tls13 ++ b_quic_key) with (b_tls13 ++ q_key) in H. change (b_tls13 ++ b_quic_iv) with (b_tls13 ++ q_iv) in H.
  change (b_tls13 ++ b_quic_hp) with (b_tls13 ++ q_hp) in H.
  repeat match type of H with bind ?m _ = Ok _ => let r := fresh "r" in let E := fresh "E" in destruct m as [r|] eqn:E; [|discriminate]; cbn [bind] in H end.
  injection H as <-. cbn [ci_key ci_iv ci_hp si_key si_iv si_hp]. eexists _, _. repeat split; eassumption.
Qed.

(* ---------- TLS 1.3: each installed key/iv is HKDF-Expand-Label of the LAST key-log line with that label ---------- *)
Definition tls13_derive (h : hash_alg) (kl : Z) (s : secret) : result (bytes * bytes) :=
  do v <- fromhex s; do key <- expand_label C h v b_key kl; do iv <- expand_label C h v b_iv 12; Ok (key, iv).
Definition last_of (L : label) (l : list secret) : option secret := find (fun s => label_eqb (s_label s) L) (rev l).
Definition field13 (L : label) (k : keys13) : option bytes * option bytes :=
  match L with
  | LClientHs => (client_hs_key k, client_hs_iv k) | LServerHs => (server_hs_key k, server_hs_iv k)
  | LClientApp => (client_app_key k, client_app_iv k) | _ => (server_app_key k, server_app_iv k)
  end.
Definition relevant (L : label) : Prop := L = LClientHs \/ L = LServerHs \/ L = LClientApp \/ L = LServerApp.

Theorem tls13_keys_are_rfc l kl h : 0 <= kl < 65536 -> forall k, dev_tls_13_keys C l kl h = Ok k ->
  forall L, relevant L ->
  match last_of L l with
  | None => field13 L k = (None, None)
  | Some s => exists key iv, tls13_derive h kl s = Ok (key, iv) /\ field13 L k = (Some key, Some iv)
  end.
Proof.
  intros Hkl. unfold dev_tls_13_keys. rewrite (to_be_ok kl 2) by (change (256 ^ 2) with 65536; lia). cbn [bind].
  rewrite from_be_to_be_total by (change (256 ^ 2) with 65536; lia).
  assert (Hki: to_be_total kl 2 ++ [9] ++ tls13_key_label ++ [0] = hkdf_label (b_tls13 ++ b_key) kl).
  { unfold to_be_total, hkdf_label. change (Z.to_nat 2) with 2%nat. cbn [to_be_fuel].
    assert (E1: (kl / 256) mod 256 = kl / 256) by (apply Z.mod_small; split; [apply Z.div_pos; lia|apply Z.div_lt_upper_bound; lia]).
    rewrite E1. reflexivity. }
  rewrite Hki. change ([0; 12] ++ [8] ++ tls13_iv_label ++ [0]) with (hkdf_label (b_tls13 ++ b_iv) 12).
  set (step := fun (acc : result keys13) (s : secret) => _).
  induction l as [|s l IH] using rev_ind; intros k H L HL.
  - cbn in H. injection H as <-. unfold last_of. cbn. destruct HL as [-> | [-> | [-> | ->]]]; reflexivity.
  - rewrite fold_left_app in H. cbn [fold_left] in H.
    destruct (fold_left step l (Ok keys13_none)) as [k0|] eqn:E0; [|discriminate].
    specialize (IH k0 eq_refl L HL).
    unfold last_of in *. rewrite rev_app_distr. cbn [rev app find].
    unfold step in H at 1. cbn [bind] in H.
    fold (expand_label C h) in H.
    destruct (s_label s) eqn:El; cbn [label_eqb];
      try (injection H as <-; destruct HL as [-> | [-> | [-> | ->]]]; cbn [label_eqb]; exact IH);
      match type of H with bind ?m _ = _ => destruct m as [[key iv]|] eqn:Ed; [|discriminate] end; cbn [bind] in H; injection H as <-;
      destruct HL as [-> | [-> | [-> | ->]]]; cbn [label_eqb field13 client_hs_key client_hs_iv server_hs_key server_hs_iv client_app_key client_app_iv server_app_key server_app_iv];
      try exact IH; exists key, iv; (split; [unfold tls13_derive, expand_label; exact Ed|reflexivity]).
Qed.

End C15.
