(* The frames the model serialises verify: transport checksum (RFC 1071 over pseudo-header and segment), IPv4 header
   checksum, and the length fields say what is there. *)
From Coq Require Import ZArith List Bool Lia ZifyBool.
Require Import PyLib PyLibP Checksum Rfc1071 C11P Frames.
Import ListNotations.
Open Scope Z_scope.
Ltac Zify.zify_post_hook ::= Z.to_euclidean_division_equations.

Lemma pack_ok n k b : 0 <= k -> pack n k = Ok b -> b = to_be_total n k /\ 0 <= n < 256 ^ k /\ bytes_ok b /\ len b = k.
Proof.
  intros Hk H. unfold pack in H. destruct (to_be n k) as [x|] eqn:E; [|discriminate]. injection H as <-.
  unfold to_be in E. rewrite pow256 in E by lia.
  destruct ((n <? 0) || (256 ^ k <=? n) || (k <? 0)) eqn:Eb; [discriminate|]. injection E as <-.
  apply orb_false_iff in Eb as [Eb _]. apply orb_false_iff in Eb as [E1 E2]. apply Z.ltb_ge in E1. apply Z.leb_gt in E2.
  repeat split; try lia; [apply to_be_total_ok|apply len_to_be_total; lia].
Qed.

Lemma ok_inj {A} (a b : A) : @Ok A a = Ok b -> a = b.
Proof. intros H. injection H. auto. Qed.

Lemma fold_loop_64 s : 0 <= s < 2 ^ 48 -> fold_loop 64 s = Ok (R s).
Proof. intros H. change 64%nat with (S (S (S (S (S 59))))). apply fold_loop_R. exact H. Qed.

Lemma inet_checksum_eq data : bytes_ok data -> len data < 2 ^ 32 ->
  inet_checksum data = Ok (65535 - R (total (words data))).
Proof.
  intros Hd Hl. unfold inet_checksum. rewrite sum16_words.
  pose proof (total_words_bound data Hd) as B.
  assert (Hb: 0 <= total (words data) < 2 ^ 48) by (change (2^32) with 4294967296 in Hl; change (2^48) with 281474976710656; lia).
  rewrite (fold_loop_64 _ Hb). reflexivity.
Qed.

Lemma inet_checksum_spec data c : bytes_ok data -> len data < 2 ^ 32 -> inet_checksum data = Ok c ->
  c = 65535 - R (total (words data)) /\ 0 <= c <= 65535.
Proof.
  intros Hd Hl H. rewrite (inet_checksum_eq data Hd Hl) in H. apply ok_inj in H.
  pose proof (total_words_bound data Hd) as B.
  pose proof (R_range (total (words data)) ltac:(lia)) as HR. split; [symmetry; exact H|]. rewrite <- H. lia.
Qed.

(* inserting the complemented sum at an even offset makes the one's-complement sum all ones *)
Lemma checksum_inserted a rest c : bytes_ok a -> bytes_ok rest -> Z.even (len a) = true ->
  c = 65535 - R (total (words (a ++ [0; 0] ++ rest))) ->
  oc_sum (words (a ++ [c / 256; c mod 256] ++ rest)) = 65535.
Proof.
  intros Ha Hr Hev Hc.
  assert (Hr0: 0 <= R (total (words (a ++ [0; 0] ++ rest))) <= 65535).
  { apply R_range. apply total_nonneg. apply words_ok_words. apply bytes_ok_app; [assumption|]. apply bytes_ok_app; [repeat constructor; lia|assumption]. }
  assert (Hcr: 0 <= c <= 65535) by lia.
  assert (Hcb: bytes_ok [c / 256; c mod 256]) by (repeat constructor; lia).
  rewrite oc_sum_R by (apply words_ok_words; apply bytes_ok_app; [assumption|apply bytes_ok_app; assumption]).
  rewrite words_app_even in * by assumption. rewrite total_app in *.
  cbn [app words total fold_right] in *. fold (total (words rest)) in *.
  replace (c / 256 * 256 + c mod 256) with c by lia.
  set (A := total (words a)) in *. set (B := total (words rest)) in *.
  assert (0 <= A) by (apply total_nonneg, words_ok_words; assumption).
  assert (0 <= B) by (apply total_nonneg, words_ok_words; assumption).
  replace (0 * 256 + 0 + B) with B in * by lia.
  unfold R in *. clearbody A B. clear - Hc Hcr H H0.
  destruct (A + B =? 0) eqn:E1; destruct (A + (c + B) =? 0) eqn:E2; lia.
Qed.

Lemma pack_eq n k : 0 <= k -> 0 <= n < 256 ^ k -> pack n k = Ok (to_be_total n k).
Proof. intros Hk Hn. unfold pack. rewrite to_be_ok by assumption. reflexivity. Qed.

Record ip_ok (src dst : bytes) : Prop := {
  ipo_src : bytes_ok src; ipo_dst : bytes_ok dst;
  ipo_len : (len src = 4 /\ len dst = 4) \/ (len src = 16 /\ len dst = 16) }.

Definition spec_pseudo' (src dst : bytes) (proto l : Z) : bytes :=
  if len src =? 4 then pseudo4 src dst proto l else pseudo6 src dst proto l.

Lemma pseudo_eq src dst proto l : ip_ok src dst -> 0 <= proto < 256 -> 0 <= l < 65536 ->
  pseudo src dst proto l = Ok (spec_pseudo' src dst proto l) /\
  bytes_ok (spec_pseudo' src dst proto l) /\ Z.even (len (spec_pseudo' src dst proto l)) = true.
Proof.
  intros [Hs Hd Hl] Hp Hr. unfold pseudo, spec_pseudo'. destruct (len src =? 4) eqn:E4.
  - apply Z.eqb_eq in E4. destruct Hl as [[_ Hd4]|[H16 _]]; [|lia].
    rewrite pack_eq by (change (256 ^ 2) with 65536; lia). cbn [bind]. rewrite to_be_total_2 by lia. unfold pseudo4.
    split; [reflexivity|]. split.
    + apply bytes_ok_app; [assumption|]. apply bytes_ok_app; [assumption|]. repeat constructor; lia.
    + rewrite !len_app, E4, Hd4. reflexivity.
  - apply Z.eqb_neq in E4. destruct Hl as [[H4 _]|[H16 Hd16]]; [lia|].
    rewrite pack_eq by (change (256 ^ 4) with 4294967296; lia). cbn [bind]. rewrite to_be_total_4 by lia. unfold pseudo6.
    split; [reflexivity|]. split.
    + apply bytes_ok_app; [assumption|]. apply bytes_ok_app; [assumption|]. repeat constructor; lia.
    + rewrite !len_app, H16, Hd16. reflexivity.
Qed.

(* C06: every TCP segment the model emits (for field values in range) carries a checksum that verifies against its pseudo-header *)
Theorem tcp_segment_valid src dst sport dport seq ack flags payload :
  ip_ok src dst -> bytes_ok payload -> 0 <= flags < 256 -> len payload < 65516 ->
  0 <= sport < 65536 -> 0 <= dport < 65536 -> 0 <= seq < 4294967296 -> 0 <= ack < 4294967296 ->
  exists sg, tcp_segment src dst sport dport seq ack flags payload = Ok sg /\ len sg = 20 + len payload /\
             checksum_valid (spec_pseudo' src dst 6 (len sg)) sg = true.
Proof.
  intros Hip Hpl Hfl Hlen Hsp Hdp Hsq Hak. unfold tcp_segment. pose proof (len_nonneg payload) as Hpn.
  rewrite !pack_eq by (try change (256 ^ 2) with 65536; try change (256 ^ 4) with 4294967296; lia). cbn [bind].
  destruct (pseudo_eq src dst 6 (20 + len payload) Hip ltac:(lia) ltac:(lia)) as (Eph & Oph & Evph). rewrite Eph. cbn [bind].
  set (ph := spec_pseudo' src dst 6 (20 + len payload)) in *.
  set (h1 := to_be_total sport 2 ++ to_be_total dport 2 ++ to_be_total seq 4 ++ to_be_total ack 4 ++ [80; flags; 32; 0]).
  assert (Oh1: bytes_ok h1) by (unfold h1; repeat (apply bytes_ok_app; [apply to_be_total_ok|]); repeat constructor; lia).
  assert (Lh1: len h1 = 16) by (unfold h1; rewrite !len_app, !len_to_be_total by lia; reflexivity).
  assert (Odata: bytes_ok (ph ++ h1 ++ [0; 0] ++ [0; 0] ++ payload)).
  { apply bytes_ok_app; [assumption|]. apply bytes_ok_app; [assumption|]. apply bytes_ok_app; [repeat constructor; lia|]. apply bytes_ok_app; [repeat constructor; lia|assumption]. }
  assert (Lph: len ph <= 40).
  { unfold ph, spec_pseudo'. destruct Hip as [_ _ [[L1 L2]|[L1 L2]]]; destruct (len src =? 4); unfold pseudo4, pseudo6; rewrite !len_app, L1, L2; cbn; lia. }
  assert (Ldata: len (ph ++ h1 ++ [0; 0] ++ [0; 0] ++ payload) < 2 ^ 32).
  { rewrite !len_app, Lh1. change (len [0; 0]) with 2. change (2^32) with 4294967296. lia. }
  rewrite (inet_checksum_eq _ Odata Ldata). cbn [bind].
  pose proof (R_range (total (words (ph ++ h1 ++ [0; 0] ++ [0; 0] ++ payload)))
                ltac:(apply total_nonneg, words_ok_words; exact Odata)) as HR.
  set (c := 65535 - R (total (words (ph ++ h1 ++ [0; 0] ++ [0; 0] ++ payload)))) in *.
  rewrite pack_eq by (change (256 ^ 2) with 65536; lia). cbn [bind]. rewrite to_be_total_2 by lia.
  eexists. split; [reflexivity|].
  assert (Hlensg: len (h1 ++ [c / 256; c mod 256] ++ [0; 0] ++ payload) = 20 + len payload).
  { rewrite !len_app, Lh1. change (len [c / 256; c mod 256]) with 2. change (len [0; 0]) with 2. lia. }
  split; [exact Hlensg|]. rewrite Hlensg. fold ph.
  unfold checksum_valid. apply Z.eqb_eq.
  replace (ph ++ h1 ++ [c / 256; c mod 256] ++ [0; 0] ++ payload) with ((ph ++ h1) ++ [c / 256; c mod 256] ++ ([0; 0] ++ payload)) by (rewrite <- !app_assoc; reflexivity).
  apply checksum_inserted.
  - apply bytes_ok_app; assumption.
  - apply bytes_ok_app; [repeat constructor; lia|assumption].
  - rewrite len_app, Lh1, Z.even_add, Evph. reflexivity.
  - unfold c. do 3 f_equal. rewrite <- !app_assoc. reflexivity.
Qed.

Theorem ipv4_valid src dst proto payload : bytes_ok src -> bytes_ok dst -> len src = 4 -> len dst = 4 -> 0 <= proto < 256 ->
  len payload < 65516 ->
  exists hdr, ipv4 src dst proto payload = Ok (hdr ++ payload) /\ len hdr = 20 /\ oc_sum (words hdr) = 65535 /\
              slice hdr 2 4 = to_be_total (20 + len payload) 2.
Proof.
  intros Hs Hd Ls Ld Hp Hlen. unfold ipv4. pose proof (len_nonneg payload) as Hpn.
  rewrite pack_eq by (change (256 ^ 2) with 65536; lia). cbn [bind].
  set (hdr0 := [69; 0] ++ to_be_total (20 + len payload) 2 ++ [0; 1; 0; 0; 64; proto]).
  assert (O0: bytes_ok hdr0) by (unfold hdr0; apply bytes_ok_app; [repeat constructor; lia|]; apply bytes_ok_app; [apply to_be_total_ok|repeat constructor; lia]).
  assert (L0: len hdr0 = 10) by (unfold hdr0; rewrite !len_app, len_to_be_total by lia; reflexivity).
  assert (Odata: bytes_ok (hdr0 ++ [0; 0] ++ src ++ dst)).
  { apply bytes_ok_app; [assumption|]. apply bytes_ok_app; [repeat constructor; lia|]. apply bytes_ok_app; assumption. }
  assert (Ldata: len (hdr0 ++ [0; 0] ++ src ++ dst) < 2 ^ 32) by (rewrite !len_app, L0, Ls, Ld; cbn; lia).
  rewrite (inet_checksum_eq _ Odata Ldata). cbn [bind].
  pose proof (R_range (total (words (hdr0 ++ [0; 0] ++ src ++ dst))) ltac:(apply total_nonneg, words_ok_words; exact Odata)) as HR.
  set (c := 65535 - R (total (words (hdr0 ++ [0; 0] ++ src ++ dst)))) in *.
  rewrite pack_eq by (change (256 ^ 2) with 65536; lia). cbn [bind]. rewrite to_be_total_2 by lia.
  exists (hdr0 ++ [c / 256; c mod 256] ++ src ++ dst). split; [rewrite <- !app_assoc; reflexivity|].
  split; [rewrite !len_app, L0, Ls, Ld; reflexivity|]. split.
  - apply checksum_inserted; try assumption; [apply bytes_ok_app; assumption|rewrite L0; reflexivity|reflexivity].
  - unfold hdr0. rewrite to_be_total_2 by lia. rewrite slice_eq. cbn [app].
    change (Z.to_nat (4 - 2)) with 2%nat. change (Z.to_nat 2) with 2%nat. cbn [skipn firstn]. reflexivity.
Qed.
