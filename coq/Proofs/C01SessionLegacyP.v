(* C01 at the level of the session for the remaining protection classes of TLS <= 1.2 (RC4; CBC with chained IVs: SSL 3.0, TLS 1.0;
   CBC with explicit IVs: TLS 1.1, 1.2), behind the ServerHello, from the ChangeCipherSpec records on.  The bookkeeping part is proved
   once, for any class given by a sender, a joint invariant of decryptor and senders, and a one-record lemma; the classes instantiate it. *)
From Coq Require Import ZArith List Bool Lia.
From Coq Require String.
Require Import PyLib PyLibP SuiteTypes Crypto KeySchedule Packet Reassembly Decryptor TlsSession TlsRecords C01P C01SessionP.
Import ListNotations.
Open Scope Z_scope.

Section Generic.
Variable C : Crypto.
Variable tbl : list (Z * String.string).
Variable parts : SuiteTypes.parts.
Variable keylog : list secret.
Variable version : bytes.

Variable X : Type.                                         (* what the sender is given for one record *)
Variable content : X -> bytes.
Variable xok : X -> Prop.
Variable send : bool -> Z -> sstate -> X -> result (sstate * tls_record).      (* direction, record type, state *)
Variable Q : nat -> decryptor -> sstate -> sstate -> Prop.                      (* decryptor in step with the client's and the server's sender *)
Hypothesis Qweak : forall n d c s, Q (S n) d c s -> Q n d c s.
Hypothesis step : forall n d stc sts (srv : bool) rt x st' r, Q (S n) d stc sts -> xok x -> (rt = 22 \/ rt = 23) ->
  send srv rt (if srv then sts else stc) x = Ok (st', r) ->
  exists d', decrypt C d r srv = Ok (d', Some (content x)) /\ r_type r = rt /\ Q n d' (if srv then stc else st') (if srv then st' else sts).

Definition InvG (s : tcore) (stc sts : sstate) (ccc scc : bool) (n : nat) : Prop :=
  ts_can_decrypt s = true /\ (exists v, ts_version s = VSet v /\ v <> TLS13) /\ ts_client_cc s = ccc /\ ts_server_cc s = scc /\
  exists d, ts_decryptor s = Some d /\ Q n d stc sts.

Inductive evG := GCcs (srv : bool) | GEnc (srv : bool) (rt : Z) (x : X) | GPlain (srv : bool) (r : tls_record).
Definition evG_ok (e : evG) : Prop := match e with GCcs _ => True | GEnc _ rt x => (rt = 22 \/ rt = 23) /\ xok x | GPlain _ r => r_type r = 22 end.
Fixpoint orderedG (ccc scc : bool) (evs : list evG) : Prop :=
  match evs with
  | [] => True
  | GCcs srv :: t => orderedG (if srv then ccc else true) (if srv then true else scc) t
  | GEnc srv _ _ :: t => (if srv then scc else ccc) = true /\ orderedG ccc scc t
  | GPlain srv _ :: t => (if srv then scc else ccc) = false /\ (if srv then ccc else scc) = true /\ orderedG ccc scc t
  end.
Fixpoint playG (stc sts : sstate) (evs : list evG) : result (sstate * sstate * list (bool * tls_record)) :=
  match evs with
  | [] => Ok (stc, sts, [])
  | GCcs srv :: t => do y <- playG stc sts t; Ok (fst (fst y), snd (fst y), (srv, mk_record 20 version [1]) :: snd y)
  | GEnc srv rt x :: t =>
      do z <- send srv rt (if srv then sts else stc) x;
      do y <- playG (if srv then stc else fst z) (if srv then fst z else sts) t;
      Ok (fst (fst y), snd (fst y), (srv, snd z) :: snd y)
  | GPlain srv r :: t => do y <- playG stc sts t; Ok (fst (fst y), snd (fst y), (srv, r) :: snd y)
  end.
Definition appG (e : evG) : list (bool * option bytes * bool) :=
  match e with GEnc srv rt x => if rt =? 23 then [(srv, Some (content x), false)] else [] | _ => [] end.
Definition dataG (out : list traffic_entry) := map shown (filter (fun e => negb (te_meta e)) out).

Lemma ccsG s stc sts ccc scc n srv : InvG s stc sts ccc scc n ->
  exists s' out, handle_tls_record C tbl parts keylog s (mk_record 20 version [1]) srv = Ok (s', out) /\ dataG out = [] /\
                 InvG s' stc sts (if srv then ccc else true) (if srv then true else scc) n.
Proof.
  intros (Hcan & Hv & Hcc & Hsc & d & Hd & HQ).
  unfold handle_tls_record, mk_record. cbn [r_type]. change (20 =? 22) with false. change (20 =? 23) with false. change (20 =? 21) with false. change (20 =? 20) with true. cbv iota.
  eexists _, _. split; [reflexivity|]. split; [reflexivity|].
  unfold InvG. cbn [upd ts_can_decrypt ts_version ts_client_cc ts_server_cc ts_decryptor]. repeat split; auto.
  - destruct srv; [exact Hcc|reflexivity].
  - destruct srv; [reflexivity|exact Hsc].
  - exists d. auto.
Qed.

Lemma encG s stc sts ccc scc n srv rt x st' r : InvG s stc sts ccc scc (S n) -> evG_ok (GEnc srv rt x) -> (if srv then scc else ccc) = true ->
  send srv rt (if srv then sts else stc) x = Ok (st', r) ->
  exists s' out, handle_tls_record C tbl parts keylog s r srv = Ok (s', out) /\ dataG out = appG (GEnc srv rt x) /\
                 InvG s' (if srv then stc else st') (if srv then st' else sts) ccc scc n.
Proof.
  intros (Hcan & (v & Hv & Hv13) & Hcc & Hsc & d & Hd & HQ) (Hrt & Hx) Hready Hsend.
  destruct (step n d stc sts srv rt x st' r HQ Hx Hrt Hsend) as (d' & Hdisp & Hty & HQ').
  assert (HI' : InvG (set_dec s (Some d')) (if srv then stc else st') (if srv then st' else sts) ccc scc n).
  { unfold InvG. cbn [set_dec upd ts_can_decrypt ts_version ts_client_cc ts_server_cc ts_decryptor]. repeat split; auto; [exists v; auto|exists d'; auto]. }
  unfold handle_tls_record. rewrite Hty. destruct Hrt as [-> | ->].
  - change (22 =? 22) with true. cbv iota. unfold handle_tls_handshake_record.
    assert (Hor : ts_server_cc s || ts_client_cc s = true) by (rewrite Hcc, Hsc; destruct srv; rewrite Hready; [reflexivity|apply orb_true_r]).
    rewrite Hor. cbn [bind]. unfold handle_handshake_finished. rewrite Hd.
    assert (Hgo : (if srv then ts_server_cc s else ts_client_cc s) && ts_can_decrypt s = true) by (rewrite Hcan, Hcc, Hsc; destruct srv; rewrite Hready; reflexivity).
    rewrite Hgo, Hdisp. cbn [fst snd]. eexists _, _. split; [reflexivity|]. split; [|exact HI'].
    unfold dataG, appG. change (22 =? 23) with false. rewrite filter_app. cbn [filter meta_entry te_meta negb app].
    destruct (negb match content x with [] => true | _ => false end); reflexivity.
  - change (23 =? 22) with false. change (23 =? 23) with true. cbv iota. rewrite Hcan, Hd, Hv.
    eexists _, _. split.
    + destruct v; try contradiction; unfold handle_tls_application_record; rewrite Hdisp; reflexivity.
    + split; [|exact HI']. unfold dataG, appG. change (23 =? 23) with true. reflexivity.
Qed.

Theorem sessionG evs : forall s stc sts ccc scc stc' sts' rs,
  InvG s stc sts ccc scc (length evs) -> Forall evG_ok evs -> orderedG ccc scc evs -> playG stc sts evs = Ok (stc', sts', rs) ->
  exists s' out ccc' scc', session_run C tbl parts keylog s rs = Ok (s', out) /\ dataG out = flat_map appG evs /\ InvG s' stc' sts' ccc' scc' 0.
Proof.
  induction evs as [|e t IH]; intros s stc sts ccc scc stc' sts' rs HI Hok Hord H; cbn [playG] in H.
  - injection H as <- <- <-. exists s, [], ccc, scc. split; [reflexivity|split; [reflexivity|exact HI]].
  - inversion Hok as [|? ? Hx Ht]; subst. destruct e as [srv|srv rt x|srv r].
    + destruct (playG stc sts t) as [[[c2 s2] rs2]|] eqn:E2; [|discriminate]. cbn [bind fst snd] in H. injection H as <- <- <-.
      cbn [orderedG] in Hord. cbn [length] in HI.
      assert (HIw : InvG s stc sts ccc scc (length t)).
      { destruct HI as (i1 & i2 & i3 & i4 & d & i5 & i6). unfold InvG. split; [exact i1|]. split; [exact i2|]. split; [exact i3|]. split; [exact i4|]. exists d. split; [exact i5|apply Qweak; exact i6]. }
      destruct (ccsG s stc sts ccc scc (length t) srv HIw) as (s1 & o1 & Hh & Hd1 & HI1).
      destruct (IH s1 _ _ _ _ _ _ _ HI1 Ht Hord E2) as (s' & out & ccc' & scc' & Hr & Hm & HI').
      exists s', (o1 ++ out), ccc', scc'. split; [cbn [session_run]; rewrite Hh; cbn [bind fst snd]; rewrite Hr; reflexivity|].
      split; [|exact HI']. unfold dataG in *. rewrite filter_app, map_app, Hd1, Hm. reflexivity.
    + destruct (send srv rt _ x) as [[st1 r]|] eqn:E1; [|discriminate]. cbn [bind fst snd] in H.
      destruct (playG _ _ t) as [[[c2 s2] rs2]|] eqn:E2; [|discriminate]. cbn [bind fst snd] in H. injection H as <- <- <-.
      cbn [orderedG] in Hord. destruct Hord as [Hready Hord]. cbn [length] in HI.
      destruct (encG s stc sts ccc scc (length t) srv rt x st1 r HI Hx Hready E1) as (s1 & o1 & Hh & Hd1 & HI1).
      destruct (IH s1 _ _ _ _ _ _ _ HI1 Ht Hord E2) as (s' & out & ccc' & scc' & Hr & Hm & HI').
      exists s', (o1 ++ out), ccc', scc'. split; [cbn [session_run]; rewrite Hh; cbn [bind fst snd]; rewrite Hr; reflexivity|].
      split; [|exact HI']. unfold dataG in *. rewrite filter_app, map_app, Hd1, Hm. reflexivity.
    + destruct (playG stc sts t) as [[[c2 s2] rs2]|] eqn:E2; [|discriminate]. cbn [bind fst snd] in H. injection H as <- <- <-.
      cbn [orderedG] in Hord. destruct Hord as (Hown & Hpeer & Hord). cbn [length] in HI.
      assert (HIw : InvG s stc sts ccc scc (length t)).
      { destruct HI as (i1 & i2 & i3 & i4 & d & i5 & i6). unfold InvG. split; [exact i1|]. split; [exact i2|]. split; [exact i3|]. split; [exact i4|]. exists d. split; [exact i5|apply Qweak; exact i6]. }
      assert (Hh : handle_tls_record C tbl parts keylog s r srv = Ok (s, [meta_entry r srv])).
      { destruct HI as (_ & _ & i3 & i4 & _). apply plain_after_peer_ccs; [exact Hx|rewrite i3, i4; exact Hown|rewrite i3, i4; exact Hpeer]. }
      destruct (IH s _ _ _ _ _ _ _ HIw Ht Hord E2) as (s' & out & ccc' & scc' & Hr & Hm & HI').
      exists s', ([meta_entry r srv] ++ out), ccc', scc'. split; [cbn [session_run]; rewrite Hh; cbn [bind fst snd]; rewrite Hr; reflexivity|].
      split; [|exact HI']. unfold dataG in *. rewrite filter_app, map_app, Hm. reflexivity.
Qed.
End Generic.

(* ---------------- the classes ---------------- *)
Section Classes.
Variable C : Crypto.
Hypothesis L : CryptoLaws C.
Variable tbl : list (Z * String.string).
Variable parts : SuiteTypes.parts.
Variable keylog : list secret.
Variable version key_c key_s : bytes.

Lemma rc4_type rt key st c m st' r : send_rc4_t C rt key version st c m = Ok (st', r) -> r_type r = rt.
Proof. unfold send_rc4_t. destruct (c_rc4 C key _ _); [|discriminate]. cbn [bind]. intros H. injection H as _ <-. reflexivity. Qed.
Lemma cbc_chained_type rt a key etm bs st c m p st' r : send_cbc_chained_t C rt a key version etm bs st c m p = Ok (st', r) -> r_type r = rt.
Proof. unfold send_cbc_chained_t. destruct (c_cbc_enc C a key _ _); [|discriminate]. cbn [bind]. intros H. injection H as _ <-. reflexivity. Qed.
Lemma cbc_explicit_type rt a key etm st iv c m p st' r : send_cbc_explicit_t C rt a key version etm st iv c m p = Ok (st', r) -> r_type r = rt.
Proof. unfold send_cbc_explicit_t. destruct (c_cbc_enc C a key _ _); [|discriminate]. cbn [bind]. intros H. injection H as _ <-. reflexivity. Qed.

(* ---- RC4 ---- *)
Section RC4.
Variable mlen : Z.
Definition Qrc4 (n : nat) (d : decryptor) (stc sts : sstate) : Prop :=
  d_ctype d = CT_Stream /\ d_version d <> TLS13 /\ d_bulk d = Some ARC4 /\ d_mac_length d = mlen /\ Prc4 false key_c n d stc /\ Prc4 true key_s n d sts.
Definition send_rc4_dir (srv : bool) (rt : Z) (st : sstate) (x : bytes * bytes) := send_rc4_t C rt (if srv then key_s else key_c) version st (fst x) (snd x).

Lemma rc4_step n d stc sts (srv : bool) rt (x : bytes * bytes) st' r : Qrc4 (S n) d stc sts -> len (snd x) = mlen -> (rt = 22 \/ rt = 23) ->
  send_rc4_dir srv rt (if srv then sts else stc) x = Ok (st', r) ->
  exists d', decrypt C d r srv = Ok (d', Some (fst x)) /\ r_type r = rt /\ Qrc4 n d' (if srv then stc else st') (if srv then st' else sts).
Proof.
  intros (Hct & Hv & Hb & Hml & Pc & Ps) Hm _ Hsend. unfold send_rc4_dir in Hsend. pose proof (rc4_type _ _ _ _ _ _ _ Hsend) as Hty.
  exists (add_rc4 d srv (len (r_body r))).
  destruct srv.
  - destruct Ps as (Hst & Hk & Hm0 & Ho).
    destruct (rc4_record_t C L rt d true key_s version sts (fst x) (snd x) st' r Hst Hk Ho ltac:(lia) Hm0 Hsend) as [Hd Ho'].
    split; [rewrite (dispatch_rc4 C d r true Hct Hv Hb), Hd; reflexivity|]. split; [exact Hty|].
    unfold Qrc4, Prc4, cur_key in *. cbn [add_rc4 d_ctype d_version d_bulk d_mac_length d_has_stream d_server_key d_client_key d_rc4_server d_rc4_client].
    destruct Pc as (c1 & c2 & c3 & c4). repeat split; auto; lia.
  - destruct Pc as (Hst & Hk & Hm0 & Ho).
    destruct (rc4_record_t C L rt d false key_c version stc (fst x) (snd x) st' r Hst Hk Ho ltac:(lia) Hm0 Hsend) as [Hd Ho'].
    split; [rewrite (dispatch_rc4 C d r false Hct Hv Hb), Hd; reflexivity|]. split; [exact Hty|].
    unfold Qrc4, Prc4, cur_key in *. cbn [add_rc4 d_ctype d_version d_bulk d_mac_length d_has_stream d_server_key d_client_key d_rc4_server d_rc4_client].
    destruct Ps as (c1 & c2 & c3 & c4). repeat split; auto; lia.
Qed.

Theorem rc4_session evs s stc sts ccc scc stc' sts' rs :
  InvG Qrc4 s stc sts ccc scc (length evs) -> Forall (evG_ok (bytes * bytes) (fun x => len (snd x) = mlen)) evs -> orderedG (bytes * bytes) ccc scc evs ->
  playG version (bytes * bytes) send_rc4_dir stc sts evs = Ok (stc', sts', rs) ->
  exists s' out ccc' scc', session_run C tbl parts keylog s rs = Ok (s', out) /\ dataG out = flat_map (appG (bytes * bytes) fst) evs /\ InvG Qrc4 s' stc' sts' ccc' scc' 0.
Proof.
  apply (sessionG C tbl parts keylog version (bytes * bytes) fst (fun x => len (snd x) = mlen) send_rc4_dir Qrc4).
  - intros n d c s0 H. exact H.
  - exact rc4_step.
Qed.
End RC4.

(* ---- CBC with an explicit IV per record (TLS 1.1, 1.2): the decryptor does not change at all ---- *)
Section CbcExplicit.
Variable a : alg.
Variable etm : bool.
Variable mlen : Z.
Definition Qcbce (n : nat) (d : decryptor) (stc sts : sstate) : Prop :=
  d_ctype d = CT_Block /\ (d_version d = TLS12 \/ d_version d = TLS11) /\ d_bulk d = Some a /\ get_cipher_type (Some a) = CT_Block /\
  cur_key d false = Some key_c /\ cur_key d true = Some key_s /\ d_mac_length d = mlen /\ 0 < mlen /\ d_compression d = 0 /\ d_etm d = etm.
Definition xe : Type := (bytes * bytes * bytes * Z)%type.       (* IV, content, MAC, padding length *)
Definition xe_ok (x : xe) : Prop := let '(iv, _, mac, p) := x in len iv = blk a /\ len mac = mlen /\ 0 <= p.
Definition send_cbce_dir (srv : bool) (rt : Z) (st : sstate) (x : xe) :=
  let '(iv, c, mac, p) := x in send_cbc_explicit_t C rt a (if srv then key_s else key_c) version etm st iv c mac p.
Definition xe_content (x : xe) : bytes := let '(_, c, _, _) := x in c.

Lemma cbce_step n d stc sts (srv : bool) rt (x : xe) st' r : Qcbce (S n) d stc sts -> xe_ok x -> (rt = 22 \/ rt = 23) ->
  send_cbce_dir srv rt (if srv then sts else stc) x = Ok (st', r) ->
  exists d', decrypt C d r srv = Ok (d', Some (xe_content x)) /\ r_type r = rt /\ Qcbce n d' (if srv then stc else st') (if srv then st' else sts).
Proof.
  intros HQ Hx _ Hsend. pose proof HQ as (Hct & Hv & Hb & Hga & Hkc & Hks & Hml & Hm0 & Hz & He).
  destruct x as [[[iv c] mac] p]. cbn [xe_ok xe_content send_cbce_dir] in *. destruct Hx as (Hiv & Hmac & Hp).
  pose proof (cbc_explicit_type _ _ _ _ _ _ _ _ _ _ _ Hsend) as Hty. rewrite <- He in Hsend.
  exists d. split; [|split; [exact Hty|exact HQ]].
  rewrite (dispatch_cbc_explicit C d r srv a Hct Hv Hb Hga).
  rewrite (cbc_explicit_record_t C L rt d srv a (if srv then key_s else key_c) version (if srv then sts else stc) iv c mac p st' r); [reflexivity| | | | | | |exact Hsend]; try lia; try assumption.
  destruct srv; assumption.
Qed.

Theorem cbc_explicit_session evs s stc sts ccc scc stc' sts' rs :
  InvG Qcbce s stc sts ccc scc (length evs) -> Forall (evG_ok xe xe_ok) evs -> orderedG xe ccc scc evs ->
  playG version xe send_cbce_dir stc sts evs = Ok (stc', sts', rs) ->
  exists s' out ccc' scc', session_run C tbl parts keylog s rs = Ok (s', out) /\ dataG out = flat_map (appG xe xe_content) evs /\ InvG Qcbce s' stc' sts' ccc' scc' 0.
Proof.
  apply (sessionG C tbl parts keylog version xe xe_content xe_ok send_cbce_dir Qcbce).
  - intros n d c s0 H. exact H.
  - exact cbce_step.
Qed.
End CbcExplicit.

(* ---- CBC with chained IVs (SSL 3.0, TLS 1.0) ---- *)
Section CbcChained.
Variable a : alg.
Variable etm : bool.
Variable mlen bl : Z.

Lemma cbc_chained_shape d r srv d' x : d_compression d = 0 -> decrypt_last_block_iv_cbc C d r srv a = Ok (d', x) -> exists b, d' = set_last_block d srv b.
Proof.
  intros Hz. unfold decrypt_last_block_iv_cbc.
  destruct (byte_of (cur_key d srv)); [|discriminate]. cbn [bind].
  destruct (if srv then d_last_block_server d else d_last_block_client d); [|discriminate]. cbn [bind].
  destruct (c_cbc_dec C a _ _ _); [|discriminate]. cbn [bind]. destruct (strip_cbc d _); [|discriminate]. cbn [bind].
  unfold inflate_if. cbn [set_last_block d_compression]. rewrite Hz. cbn [Z.eqb]. intros H. injection H as <- _. eexists. reflexivity.
Qed.

Definition Qcbcc (n : nat) (d : decryptor) (stc sts : sstate) : Prop :=
  d_ctype d = CT_Block /\ (d_version d = TLS10 \/ d_version d = SSL30) /\ d_bulk d = Some a /\ get_cipher_type (Some a) = CT_Block /\
  Pcbc false key_c etm mlen bl n d stc /\ Pcbc true key_s etm mlen bl n d sts.
Definition xc : Type := (bytes * bytes * Z)%type.       (* content, MAC, padding length *)
Definition xc_ok (x : xc) : Prop := let '(_, mac, p) := x in len mac = mlen /\ 0 <= p.
Definition send_cbcc_dir (srv : bool) (rt : Z) (st : sstate) (x : xc) :=
  let '(c, mac, p) := x in send_cbc_chained_t C rt a (if srv then key_s else key_c) version etm (bl / 8) st c mac p.
Definition xc_content (x : xc) : bytes := let '(c, _, _) := x in c.

Lemma cbcc_step n d stc sts (srv : bool) rt (x : xc) st' r : Qcbcc (S n) d stc sts -> xc_ok x -> (rt = 22 \/ rt = 23) ->
  send_cbcc_dir srv rt (if srv then sts else stc) x = Ok (st', r) ->
  exists d', decrypt C d r srv = Ok (d', Some (xc_content x)) /\ r_type r = rt /\ Qcbcc n d' (if srv then stc else st') (if srv then st' else sts).
Proof.
  intros (Hct & Hv & Hb & Hga & Pc & Ps) Hx _ Hsend. destruct x as [[c mac] p]. cbn [xc_ok xc_content send_cbcc_dir] in *. destruct Hx as (Hmac & Hp).
  pose proof (cbc_chained_type _ _ _ _ _ _ _ _ _ _ _ Hsend) as Hty.
  destruct srv.
  - destruct Ps as (Hk & He & Hml & Hm0 & Hz & Hbl & Hlb). rewrite <- He, <- Hbl in Hsend.
    destruct (cbc_chained_record_t C L rt d true a key_s version sts c mac p st' r Hk Hlb ltac:(lia) ltac:(lia) Hp Hz Hsend) as (d' & Hd & Hlb' & Hk' & He' & Hml' & Hz' & Hbl').
    destruct (cbc_chained_shape d r true d' c Hz Hd) as (b & ->).
    exists (set_last_block d true b). split; [rewrite (dispatch_cbc_chained C d r true a Hct Hv Hb Hga), Hd; reflexivity|]. split; [exact Hty|].
    unfold Qcbcc, Pcbc, cur_key in *. cbn [set_last_block d_ctype d_version d_bulk d_server_key d_client_key d_etm d_mac_length d_compression d_block_length d_last_block_server d_last_block_client] in *.
    destruct Pc as (c1 & c2 & c3 & c4 & c5 & c6 & c7). repeat split; auto.
  - destruct Pc as (Hk & He & Hml & Hm0 & Hz & Hbl & Hlb). rewrite <- He, <- Hbl in Hsend.
    destruct (cbc_chained_record_t C L rt d false a key_c version stc c mac p st' r Hk Hlb ltac:(lia) ltac:(lia) Hp Hz Hsend) as (d' & Hd & Hlb' & Hk' & He' & Hml' & Hz' & Hbl').
    destruct (cbc_chained_shape d r false d' c Hz Hd) as (b & ->).
    exists (set_last_block d false b). split; [rewrite (dispatch_cbc_chained C d r false a Hct Hv Hb Hga), Hd; reflexivity|]. split; [exact Hty|].
    unfold Qcbcc, Pcbc, cur_key in *. cbn [set_last_block d_ctype d_version d_bulk d_server_key d_client_key d_etm d_mac_length d_compression d_block_length d_last_block_server d_last_block_client] in *.
    destruct Ps as (c1 & c2 & c3 & c4 & c5 & c6 & c7). repeat split; auto.
Qed.

Theorem cbc_chained_session evs s stc sts ccc scc stc' sts' rs :
  InvG Qcbcc s stc sts ccc scc (length evs) -> Forall (evG_ok xc xc_ok) evs -> orderedG xc ccc scc evs ->
  playG version xc send_cbcc_dir stc sts evs = Ok (stc', sts', rs) ->
  exists s' out ccc' scc', session_run C tbl parts keylog s rs = Ok (s', out) /\ dataG out = flat_map (appG xc xc_content) evs /\ InvG Qcbcc s' stc' sts' ccc' scc' 0.
Proof.
  apply (sessionG C tbl parts keylog version xc xc_content xc_ok send_cbcc_dir Qcbcc).
  - intros n d c s0 H. exact H.
  - exact cbcc_step.
Qed.
End CbcChained.
End Classes.
