(* C16: the reconstructed packet number is RFC 9000 A.3's, for every largest / length / truncated value. *)
From Coq Require Import ZArith List Bool Lia.
Require Import PyLib PyLibP QuicPn Rfc9000.
Import ListNotations.
Open Scope Z_scope.

(* ---- mask arithmetic (spiked in DESIGN.md appendix D) ---- *)
Lemma land_lnot_ones e k : 0 <= k -> Z.land e (Z.lnot (Z.ones k)) = (e / 2^k) * 2^k.
Proof.
  intros Hk. rewrite <- Z.ldiff_land, Z.ldiff_ones_r by lia. rewrite Z.shiftl_mul_pow2, Z.shiftr_div_pow2 by lia. reflexivity.
Qed.
Lemma testbit_small t k n : 0 <= t < 2^k -> k <= n -> Z.testbit t n = false.
Proof.
  intros Ht Hn. destruct (Z.eq_dec t 0) as [->|Hne]; [apply Z.bits_0|].
  apply Z.bits_above_log2; [lia|]. assert (Z.log2 t < k) by (apply Z.log2_lt_pow2; lia). lia.
Qed.
Lemma land_shiftl_small hi t k : 0 <= k -> 0 <= t < 2^k -> Z.land (Z.shiftl hi k) t = 0.
Proof.
  intros Hk Ht. apply Z.bits_inj'; intros n Hn. rewrite Z.land_spec, Z.bits_0.
  destruct (Z.ltb_spec n k).
  - rewrite Z.shiftl_spec_low by lia. reflexivity.
  - rewrite (testbit_small t k n) by lia. apply andb_false_r.
Qed.
Lemma lor_disjoint_add hi t k : 0 <= k -> 0 <= t < 2^k -> Z.lor (hi * 2^k) t = hi * 2^k + t.
Proof.
  intros Hk Ht. rewrite <- Z.shiftl_mul_pow2 by lia.
  pose proof (land_shiftl_small hi t k Hk Ht) as H0.
  rewrite Z.add_nocarry_lxor by exact H0. symmetry. apply Z.lxor_lor. exact H0.
Qed.
Lemma cand_arith e t k : 0 <= k -> 0 <= t < 2^k -> Z.lor (Z.land e (Z.lnot (2^k - 1))) t = (e / 2^k) * 2^k + t.
Proof. intros. replace (2^k - 1) with (Z.ones k) by (rewrite Z.ones_equiv; lia).
  rewrite land_lnot_ones by lia. apply lor_disjoint_add; lia. Qed.

(* ---- the RFC function in arithmetic form ---- *)
Definition rfc_arith (largest t k : Z) : Z :=
  let e := largest + 1 in let W := 2^k in let c := (e / W) * W + t in
  if (c <=? e - W/2) && (c <? 2^62 - W) then c + W
  else if (c >? e + W/2) && (c >=? W) then c - W else c.

Lemma decode_arith largest t k : 0 <= k -> 0 <= t < 2^k -> decode_packet_number largest t k = rfc_arith largest t k.
Proof.
  intros Hk Ht. unfold decode_packet_number, rfc_arith. rewrite !Z.shiftl_1_l. cbv zeta.
  rewrite cand_arith by lia. reflexivity.
Qed.

Lemma rfc_arith_range largest t k : 0 <= largest < 2^62 -> 8 <= k <= 32 -> 0 <= t < 2^k ->
  0 <= rfc_arith largest t k < 2^63.
Proof.
  intros Hl Hk Ht. unfold rfc_arith. cbv zeta.
  assert (Hp: 0 < 2^k) by (apply Z.pow_pos_nonneg; lia).
  assert (Hbig: 2^k <= 2^32) by (apply Z.pow_le_mono_r; lia).
  change (2^62) with 4611686018427387904 in *. change (2^63) with 9223372036854775808. change (2^32) with 4294967296 in *.
  remember (2^k) as W. remember (largest + 1) as e.
  pose proof (Z.div_mod e W ltac:(lia)) as De. pose proof (Z.mod_pos_bound e W ltac:(lia)) as Be.
  remember (e / W) as q. remember (e mod W) as r.
  assert (Hq: 0 <= q) by (subst q; apply Z.div_pos; lia).
  assert (Hc: 0 <= q * W + t < e + W) by nia.
  destruct ((q * W + t <=? e - W / 2) && (q * W + t <? 4611686018427387904 - W)) eqn:E1.
  - apply andb_prop in E1 as [_ E2]. apply Z.ltb_lt in E2. lia.
  - destruct ((q * W + t >? e + W / 2) && (q * W + t >=? W)) eqn:E2.
    + apply andb_prop in E2 as [_ E3]. apply Z.geb_le in E3. lia.
    + lia.
Qed.

Lemma rfc_arith_first t k : 8 <= k <= 32 -> 0 <= t < 2^k -> rfc_arith 0 t k = t.
Proof.
  intros Hk Ht. unfold rfc_arith. cbv zeta.
  assert (H256: 2^8 <= 2^k) by (apply Z.pow_le_mono_r; lia). change (2^8) with 256 in H256.
  change (2^62) with 4611686018427387904.
  remember (2^k) as W. change (0 + 1) with 1.
  rewrite Z.div_small by lia. cbn [Z.mul Z.add].
  assert (Hh: 128 <= W / 2) by (apply Z.div_le_lower_bound; lia).
  destruct (t <=? 1 - W / 2) eqn:E1; [apply Z.leb_le in E1; lia|]. cbn [andb].
  destruct (t >=? W) eqn:E3; [apply Z.geb_le in E3; lia|]. rewrite andb_false_r. reflexivity.
Qed.

(* ---- the model ---- *)
Theorem full_pn_is_rfc largest n t : 0 <= largest < 2^62 -> 1 <= n <= 4 -> 0 <= t < 2^(8*n) ->
  let pn := decode_packet_number largest t (8*n) in
  exists b, full_pn largest (to_be_total t n) = Ok (b, Z.max largest pn) /\ from_be b = pn /\ bytes_ok b /\ len b <= 8.
Proof.
  intros Hl Hn Ht pn. subst pn.
  rewrite decode_arith by lia.
  pose proof (rfc_arith_range largest t (8*n) Hl ltac:(lia) Ht) as Hr.
  unfold full_pn. rewrite from_be_to_be_total by (rewrite <- ?pow256; lia).
  rewrite len_to_be_total by lia.
  destruct ((t >? largest) && (largest =? 0)) eqn:E.
  - apply andb_prop in E as [E1 E2]. apply Z.eqb_eq in E2. subst largest. apply Z.gtb_lt in E1.
    rewrite rfc_arith_first by lia. exists (to_be_total t n).
    rewrite Z.max_r by lia. rewrite from_be_to_be_total by (rewrite <- ?pow256; lia).
    repeat split; auto using to_be_total_ok. rewrite len_to_be_total; lia.
  - cbv zeta. rewrite !Z.shiftl_1_l. replace (n * 8) with (8 * n) by lia.
    rewrite cand_arith by lia.
    fold (rfc_arith largest t (8*n)). unfold rfc_arith at 1. cbv zeta.
    change ((if ((largest + 1) / 2 ^ (8 * n) * 2 ^ (8 * n) + t <=? largest + 1 - 2 ^ (8 * n) / 2) &&
                 ((largest + 1) / 2 ^ (8 * n) * 2 ^ (8 * n) + t <? 2 ^ 62 - 2 ^ (8 * n))
             then (largest + 1) / 2 ^ (8 * n) * 2 ^ (8 * n) + t + 2 ^ (8 * n)
             else if ((largest + 1) / 2 ^ (8 * n) * 2 ^ (8 * n) + t >? largest + 1 + 2 ^ (8 * n) / 2) &&
                     ((largest + 1) / 2 ^ (8 * n) * 2 ^ (8 * n) + t >=? 2 ^ (8 * n))
                  then (largest + 1) / 2 ^ (8 * n) * 2 ^ (8 * n) + t - 2 ^ (8 * n)
                  else (largest + 1) / 2 ^ (8 * n) * 2 ^ (8 * n) + t)) with (rfc_arith largest t (8*n)).
    remember (rfc_arith largest t (8*n)) as out.
    assert (H64: 0 <= out < 256 ^ 8) by (change (256^8) with 18446744073709551616; change (2^63) with 9223372036854775808 in Hr; lia).
    rewrite to_be_ok by lia. cbn [bind].
    exists (to_be_total out 8). rewrite from_be_to_be_total by lia.
    repeat split; auto using to_be_total_ok; [|rewrite len_to_be_total; lia].
    do 2 f_equal. destruct (out >? largest) eqn:G.
    + apply Z.gtb_lt in G. lia.
    + rewrite Z.gtb_ltb in G. apply Z.ltb_ge in G. lia.
Qed.

(* ---- per space and direction: only the addressed entry changes ---- *)
Lemma pn_get_set_same s d sp v : pn_get (pn_set s d sp v) d sp = v.
Proof. destruct d, sp; reflexivity. Qed.
Lemma pn_get_set_other s d sp v d' sp' : (d', sp') <> (d, sp) -> pn_get (pn_set s d sp v) d' sp' = pn_get s d' sp'.
Proof. intros H. destruct d, d', sp, sp'; try reflexivity; exfalso; apply H; reflexivity. Qed.

Theorem get_full_pn_frame s d sp n t : 0 <= pn_get s d sp < 2^62 -> 1 <= n <= 4 -> 0 <= t < 2^(8*n) ->
  let pn := decode_packet_number (pn_get s d sp) t (8*n) in
  exists b s', get_full_packet_number s d sp (to_be_total t n) = Ok (b, s') /\ from_be b = pn /\
     pn_get s' d sp = Z.max (pn_get s d sp) pn /\
     (forall d' sp', (d', sp') <> (d, sp) -> pn_get s' d' sp' = pn_get s d' sp').
Proof.
  intros Hl Hn Ht pn. destruct (full_pn_is_rfc _ n t Hl Hn Ht) as (b & Hf & Hb & _).
  unfold get_full_packet_number. rewrite Hf. cbn [bind].
  eexists _, _. split; [reflexivity|]. split; [exact Hb|]. split; [apply pn_get_set_same|].
  intros d' sp' Hne. apply pn_get_set_other. exact Hne.
Qed.

(* ---- nonce: IV xor the packet number left-padded to the IV's length ---- *)
Lemma be_acc_zeros n a : be_acc (zeros n) a = a * 256 ^ len (zeros n).
Proof.
  rewrite be_acc_shift. assert (be_acc (zeros n) 0 = 0) as ->; [|lia].
  unfold zeros. induction (Z.to_nat n) as [|k IH]; cbn [repeat be_acc]; [reflexivity|]. exact IH.
Qed.

Lemma from_be_cons x l : from_be (x :: l) = x * 256 ^ len l + from_be l.
Proof. unfold from_be. cbn [be_acc]. rewrite be_acc_shift. lia. Qed.

Lemma from_be_inj a : forall b, length a = length b -> bytes_ok a -> bytes_ok b -> from_be a = from_be b -> a = b.
Proof.
  induction a as [|x a IH]; intros [|y b] Hlen Ha Hb Heq; try discriminate; [reflexivity|].
  inversion Ha; inversion Hb; subst. cbn [length] in Hlen. injection Hlen as Hlen.
  rewrite !from_be_cons in Heq. assert (len a = len b) as Hl by (unfold len; lia). rewrite Hl in Heq.
  pose proof (from_be_bound a ltac:(assumption)). pose proof (from_be_bound b ltac:(assumption)). rewrite Hl in *.
  assert (0 < 256 ^ len b) by (apply Z.pow_pos_nonneg; [lia|apply len_nonneg]).
  assert (x = y) by nia. subst y. f_equal. apply IH; auto. lia.
Qed.

Lemma zeros_ok n : bytes_ok (zeros n).
Proof. unfold zeros, bytes_ok. apply Forall_forall. intros x Hx. apply repeat_spec in Hx. lia. Qed.
Lemma len_zeros n : 0 <= n -> len (zeros n) = n.
Proof. intros. unfold len, zeros. rewrite repeat_length. lia. Qed.

Theorem nonce_is_iv_xor_padded_pn iv b : len iv = 12 -> bytes_ok b -> len b <= 12 ->
  quic_nonce iv b = xor_zip (to_be_total (from_be b) 12) iv.
Proof.
  intros Hiv Hb Hl. unfold quic_nonce. f_equal. rewrite Hiv.
  apply from_be_inj.
  - pose proof (len_to_be_total (from_be b) 12 ltac:(lia)) as L. unfold len in *. rewrite app_length.
    pose proof (len_zeros (12 - Z.of_nat (length b)) ltac:(lia)) as Z0. unfold len in Z0. lia.
  - apply bytes_ok_app; [apply zeros_ok|assumption].
  - apply to_be_total_ok.
  - unfold from_be at 1. rewrite be_acc_app, be_acc_zeros. cbn [Z.mul]. fold (from_be b).
    rewrite from_be_to_be_total; [reflexivity|lia|].
    pose proof (from_be_bound b Hb) as Hbd. split; [lia|].
    apply Z.lt_le_trans with (256 ^ len b); [lia|]. apply Z.pow_le_mono_r; lia.
Qed.

(* ---- histories: gaps and reordering within half a window are recovered exactly (RFC 9000 17.1) ---- *)
Theorem rfc_recovers largest pn k : 8 <= k <= 32 -> 0 <= largest -> 0 <= pn < 2^62 ->
  largest + 1 - 2^k/2 < pn <= largest + 1 + 2^k/2 ->
  decode_packet_number largest (pn mod 2^k) k = pn.
Proof.
  intros Hk Hl Hpn Hw.
  assert (Hp: 0 < 2^k) by (apply Z.pow_pos_nonneg; lia).
  rewrite decode_arith by (try apply Z.mod_pos_bound; lia). unfold rfc_arith. cbv zeta.
  assert (Heven: 2^k = 2 * (2^k/2)).
  { replace k with (1 + (k-1)) by lia. rewrite Z.pow_add_r by lia. change (2^1) with 2.
    rewrite (Z.mul_comm 2 (2^(k-1))), Z.div_mul by lia. lia. }
  assert (Hbig: 2^k <= 2^32) by (apply Z.pow_le_mono_r; lia).
  change (2^62) with 4611686018427387904 in *. change (2^32) with 4294967296 in *.
  remember (2^k) as W. remember (W/2) as H.
  remember (largest + 1) as e.
  pose proof (Z.div_mod e W ltac:(lia)) as De. pose proof (Z.mod_pos_bound e W ltac:(lia)) as Be.
  pose proof (Z.div_mod pn W ltac:(lia)) as Dp. pose proof (Z.mod_pos_bound pn W ltac:(lia)) as Bp.
  remember (e / W) as qe. remember (e mod W) as re. remember (pn / W) as qp. remember (pn mod W) as rp.
  assert (Hq: qp = qe \/ qp = qe + 1 \/ qp = qe - 1) by nia.
  destruct ((qe * W + rp <=? e - H) && (qe * W + rp <? 4611686018427387904 - W)) eqn:E1.
  - apply andb_prop in E1 as [E1 E2]. apply Z.leb_le in E1. apply Z.ltb_lt in E2. nia.
  - destruct ((qe * W + rp >? e + H) && (qe * W + rp >=? W)) eqn:E2.
    + apply andb_prop in E2 as [E2 E3]. apply Z.gtb_lt in E2. apply Z.geb_le in E3. nia.
    + apply andb_false_iff in E1. apply andb_false_iff in E2.
      rewrite Z.leb_gt, Z.ltb_ge in E1. rewrite Z.gtb_ltb, Z.ltb_ge, Z.geb_leb, Z.leb_gt in E2. nia.
Qed.

(* a receiver that feeds every packet of a history through the model recovers each number, as long as each
   sent number lies within half a window of the receiver's largest at that moment *)
Fixpoint recover_all (largest : Z) (h : list (Z * Z)) (* (pn sent, encoded length) *) : option (list Z) :=
  match h with
  | [] => Some []
  | (pn, n) :: r =>
      match full_pn largest (to_be_total (pn mod 2^(8*n)) n) with
      | Ok (b, l') => option_map (cons (from_be b)) (recover_all l' r)
      | Exn _ => None
      end
  end.
Fixpoint in_window (largest : Z) (h : list (Z * Z)) : Prop :=
  match h with
  | [] => True
  | (pn, n) :: r => 1 <= n <= 4 /\ 0 <= pn < 2^62 /\ largest + 1 - 2^(8*n)/2 < pn <= largest + 1 + 2^(8*n)/2
                    /\ in_window (Z.max largest pn) r
  end.

Theorem history_recovered h : forall largest, 0 <= largest < 2^62 -> in_window largest h ->
  recover_all largest h = Some (map fst h).
Proof.
  induction h as [|[pn n] r IH]; intros largest Hl Hw; [reflexivity|].
  cbn [in_window] in Hw. destruct Hw as (Hn & Hpn & Hwin & Hrest).
  cbn [recover_all map fst].
  assert (Hp: 0 < 2^(8*n)) by (apply Z.pow_pos_nonneg; lia).
  destruct (full_pn_is_rfc largest n (pn mod 2^(8*n)) Hl Hn ltac:(apply Z.mod_pos_bound; lia)) as (b & Hf & Hb & _).
  rewrite Hf, Hb. rewrite rfc_recovers by lia. rewrite IH; [reflexivity| |exact Hrest].
  apply Z.max_case_strong; lia.
Qed.

Example history_example : in_window 0 [(1, 1); (5, 1); (3, 1); (300, 2); (299, 1); (70000, 4)]
  /\ recover_all 0 [(1, 1); (5, 1); (3, 1); (300, 2); (299, 1); (70000, 4)] = Some [1; 5; 3; 300; 299; 70000].
Proof. split; [cbn; lia|vm_compute; reflexivity]. Qed.
Example pn_example_wrap : exists b, full_pn 0xa82f30ea (to_be_total 0x9b32 2) = Ok (b, 0xa82f9b32) /\ from_be b = 0xa82f9b32.
Proof. eexists. vm_compute. split; reflexivity. Qed.
