(* Tie between the constants of the key-derivation source (regenerated into Gen/KdfConsts.v on every run) and the
   constants the hand-written models use: a changed label, salt or length byte in the source breaks these equalities. *)
From Coq Require Import ZArith List.
Require Import PyLib KeySchedule QuicKeys KdfConsts.
Import ListNotations.
Open Scope Z_scope.

Definition b_big : bytes := [98; 105; 103].   (* the 'big' of to_bytes / from_bytes *)

Lemma kdf_constants_match :
  nth 0 kd_dev_tls_12_keys [] = key_expansion /\ nth 0 kd_dev_tls_10_11_keys [] = key_expansion /\
  kd_gen_master_secret_tls_10_11 = [master_secret_label] /\ kd_gen_master_secret_tls_12 = [master_secret_label] /\
  kd_gen_master_secret_ssl_30 = [] /\
  firstn 8 kd_dev_tls_13_keys = [b_big; [0; 12]; tls13_key_label; tls13_iv_label; [8]; [9]; [0]; [0]] /\
  nth 1 kd_prf_ssl_30 [] = map (fun i => 64 + Z.of_nat i) (seq 1 10) /\
  firstn 6 qk_dev_quic_keys = [b_quic_key; b_quic_iv; b_quic_hp; b_quicv2_key; b_quicv2_iv; b_quicv2_hp] /\
  firstn 10 qk_dev_initial_keys = [salt_v1; salt_v2; b_client_in; b_server_in; b_quic_key; b_quic_iv; b_quic_hp; b_quicv2_key; b_quicv2_iv; b_quicv2_hp] /\
  firstn 3 qk_key_update = [b_quic_key; b_quic_iv; b_quic_ku] /\
  qk_make_info = [b_big; b_big; b_tls13_; [0]].
Proof. vm_compute. repeat split; reflexivity. Qed.
