(* C02, the hellos inside the CRYPTO stream: what the QUIC TLS parser keeps from a ClientHello / ServerHello message encoded per
   RFC 8446 4.1.2 / 4.1.3 -- with any session id, any offered suites, any extensions: the client random, and the cipher suite (the
   first offered one after the ClientHello, the selected one after the ServerHello).  These are the two values the key installation
   (set_tls_decryptors; C15, C04_own_keylog_lines_quic) is called with. *)
From Coq Require Import ZArith List Bool Lia.
Require Import PyLib PyLibP Varint QuicDissector QuicTls QuicShortP QuicLongP.
Import ListNotations.
Open Scope Z_scope.

Lemma apply_ext_keeps q e : qt_ciphersuite (apply_ext q e) = qt_ciphersuite q /\ qt_client_random (apply_ext q e) = qt_client_random q /\ qt_new_data (apply_ext q e) = qt_new_data q.
Proof.
  unfold apply_ext. destruct e as [[t el] body].
  repeat match goal with |- context [if ?c then _ else _] => destruct c end; try (repeat split; reflexivity).
  all: destruct (tp_walk _ _ _) as [[|]|]; repeat split; reflexivity.
Qed.

Lemma get_extensions_keeps q r : qt_ciphersuite (get_extensions q r) = qt_ciphersuite q /\ qt_client_random (get_extensions q r) = qt_client_random q /\
                                 qt_new_data (get_extensions q r) = qt_new_data q.
Proof.
  unfold get_extensions. destruct (negb _); [repeat split; reflexivity|].
  generalize (ext_list (S (length r)) (slice_from r 2)). intros l. revert q. induction l as [|e t IH]; intros q; [repeat split; reflexivity|].
  cbn [fold_left]. destruct (IH (apply_ext q e)) as (H1 & H2 & H3). destruct (apply_ext_keeps q e) as (K1 & K2 & K3). repeat split; congruence.
Qed.

(* ServerHello: type 2, 3-byte length, legacy version, random, session id, selected suite, compression, extensions (TLS 1.3: never empty) *)
Theorem quic_server_hello q (l3 hv random sid suite rest : bytes) comp :
  len l3 = 3 -> len hv = 2 -> len random = 32 -> len sid < 256 -> len suite = 2 -> 2 <= len sid + len rest ->
  let msg := [2] ++ l3 ++ hv ++ random ++ [len sid] ++ sid ++ suite ++ [comp] ++ rest in
  exists q', handle_server_hello q msg = (q', true) /\ qt_ciphersuite q' = Some suite /\ qt_client_random q' = qt_client_random q /\ qt_new_data q' = true.
Proof.
  intros Hl3 Hhv Hrnd Hsid Hsu Hmin msg. pose proof (len_nonneg sid) as Hs0. pose proof (len_nonneg rest) as Hr0.
  set (ps := [[2]; l3; hv; random; [len sid]; sid; suite ++ [comp] ++ rest]).
  assert (Em : msg = concat ps) by (unfold msg, ps; cbn [concat]; rewrite ?app_nil_r, <- ?app_assoc; reflexivity).
  assert (Ltot : len msg = 42 + len sid + len rest) by (unfold msg; cbn [app]; len_norm; lia).
  unfold handle_server_hello. replace (len msg <? 44) with false by (symmetry; apply Z.ltb_ge; lia).
  assert (Hsidx : nth 38 msg 0 = len sid).
  { rewrite Em. assert (Hi : index (concat ps) 38 = Ok (len sid)) by (apply (index_part ps 4); [unfold ps; cbn [length]; lia|unfold ps; cbn [firstn concat app]; len_norm; lia|reflexivity]).
    unfold index in Hi. change (38 <? 0) with false in Hi. cbv iota in Hi. destruct ((38 <? 0) || (len (concat ps) <=? 38)); [discriminate|]. injection Hi as Hi. exact Hi. }
  cbv zeta. rewrite Hsidx.
  assert (Hr : slice_from msg (39 + len sid) = suite ++ [comp] ++ rest).
  { rewrite Em. replace (39 + len sid) with (len (concat (firstn 6 ps))) by (unfold ps; cbn [firstn concat app]; len_norm; lia).
    rewrite slice_from_part. unfold ps. cbn [skipn concat]. apply app_nil_r. }
  rewrite Hr. rewrite (slice_head suite ([comp] ++ rest) 2) by (symmetry; exact Hsu).
  eexists. split; [reflexivity|].
  match goal with |- context [get_extensions ?q1 ?r] => destruct (get_extensions_keeps q1 r) as (K1 & K2 & K3) end.
  cbn [mark_new qt_ciphersuite qt_client_random qt_new_data]. rewrite K1, K2. cbn [set_new qt_ciphersuite qt_client_random]. repeat split; reflexivity.
Qed.

(* ClientHello: type 1, 3-byte length, legacy version, random, session id, offered suites (first one: f), compression methods, extensions *)
Theorem quic_client_hello q (l3 hv random sid f others cms rest : bytes) :
  len l3 = 3 -> from_be l3 = len (hv ++ random ++ [len sid] ++ sid ++ to_be_total (len (f ++ others)) 2 ++ (f ++ others) ++ [len cms] ++ cms ++ rest) ->
  len hv = 2 -> len random = 32 -> len sid < 256 -> len f = 2 -> len (f ++ others) < 65536 -> len cms < 256 ->
  let msg := [1] ++ l3 ++ hv ++ random ++ [len sid] ++ sid ++ to_be_total (len (f ++ others)) 2 ++ (f ++ others) ++ [len cms] ++ cms ++ rest in
  exists q', handle_client_hello q msg = (q', true) /\ qt_ciphersuite q' = Some f /\ qt_client_random q' = Some random /\ qt_new_data q' = true.
Proof.
  intros Hl3 Hlen Hhv Hrnd Hsid Hf Hsu Hcm msg.
  pose proof (len_nonneg sid) as Hs0. pose proof (len_nonneg rest) as Hr0. pose proof (len_nonneg others) as Ho0. pose proof (len_nonneg cms) as Hc0.
  set (suites := f ++ others) in *. assert (Lsu : len suites = 2 + len others) by (unfold suites; rewrite len_app; lia).
  set (sl := to_be_total (len suites) 2) in *. assert (Lsl : len sl = 2) by (apply len_to_be_total; lia).
  set (body := hv ++ random ++ [len sid] ++ sid ++ sl ++ suites ++ [len cms] ++ cms ++ rest) in *.
  assert (Lbody : len body = 38 + len sid + len suites + len cms + len rest) by (unfold body; cbn [app]; len_norm; lia).
  assert (Ltot : len msg = 4 + len body) by (unfold msg; fold sl; fold body; cbn [app]; len_norm; lia).
  unfold handle_client_hello. replace (len msg <? 38) with false by (symmetry; apply Z.ltb_ge; lia).
  assert (E14 : slice msg 1 4 = l3).
  { unfold msg. change ([1] ++ l3 ++ ?x) with ([1] ++ (l3 ++ x)). rewrite slice_skip by (change (len [1]) with 1; lia). change (len [1]) with 1.
    replace (1 - 1) with 0 by lia. replace (4 - 1) with 3 by lia. apply slice_head. symmetry. exact Hl3. }
  rewrite E14, Hlen. fold sl. fold body. replace (len msg <? 4 + len body) with false by (symmetry; apply Z.ltb_ge; lia).
  assert (Er : slice_from msg 4 = body).
  { unfold msg. fold sl. fold body. replace ([1] ++ l3 ++ body) with (([1] ++ l3) ++ body) by (now rewrite <- app_assoc).
    rewrite slice_from_skip by (rewrite len_app, Hl3; change (len [1]) with 1; lia). rewrite len_app, Hl3. change (len [1]) with 1. apply slice_from_0. }
  cbv zeta. rewrite Er.
  set (ps := [hv; random; [len sid]; sid; sl; suites; [len cms]; cms ++ rest]).
  assert (Eb : body = concat ps) by (unfold body, ps; cbn [concat]; rewrite ?app_nil_r, <- ?app_assoc; reflexivity).
  assert (Hi34 : index body 34 = Ok (len sid)) by (rewrite Eb; apply (index_part ps 2); [unfold ps; cbn [length]; lia|unfold ps; cbn [firstn concat app]; len_norm; lia|reflexivity]).
  rewrite Hi34.
  assert (Hrandom : slice body 2 34 = random).
  { rewrite Eb. pose proof (slice_part ps 1 ltac:(unfold ps; cbn [length]; lia)) as P. unfold ps in P at 2 3 4 5. cbn [firstn concat nth app] in P. revert P. len_norm. rewrite Hhv, Hrnd. intros P. exact P. }
  assert (Hcsl : from_be (slice body (35 + len sid) (35 + len sid + 2)) = len suites).
  { rewrite Eb. pose proof (slice_part ps 4 ltac:(unfold ps; cbn [length]; lia)) as P. unfold ps in P at 2 3 4 5. cbn [firstn concat nth app] in P. revert P. len_norm. rewrite Hhv, Hrnd, Lsl. intros P.
    replace (2 + (32 + (1 + (len sid + 0)))) with (35 + len sid) in P by lia. rewrite P. apply from_be_to_be_total; [lia|]. change (256 ^ 2) with 65536. lia. }
  rewrite Hcsl.
  assert (Hsuites : slice body (35 + len sid + 2) (35 + len sid + 2 + len suites) = suites).
  { rewrite Eb. pose proof (slice_part ps 5 ltac:(unfold ps; cbn [length]; lia)) as P. unfold ps in P at 2 3 4 5. cbn [firstn concat nth app] in P. revert P. len_norm. rewrite Hhv, Hrnd, Lsl. intros P.
    replace (2 + (32 + (1 + (len sid + (2 + 0))))) with (35 + len sid + 2) in P by lia. exact P. }
  rewrite Hsuites.
  assert (Hi2 : index body (35 + len sid + 2 + len suites) = Ok (len cms)).
  { rewrite Eb. apply (index_part ps 6); [unfold ps; cbn [length]; lia|unfold ps; cbn [firstn concat app]; len_norm; lia|reflexivity]. }
  rewrite Hi2. unfold suites at 1. rewrite (slice_head f others 2) by (symmetry; exact Hf). rewrite Hrandom.
  eexists. split; [reflexivity|].
  match goal with |- context [get_extensions ?q1 ?r] => destruct (get_extensions_keeps q1 r) as (K1 & K2 & K3) end.
  cbn [mark_new qt_ciphersuite qt_client_random qt_new_data]. rewrite K1, K2. cbn [set_new qt_ciphersuite qt_client_random]. repeat split; reflexivity.
Qed.
