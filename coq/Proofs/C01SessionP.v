(* C01 at the level of the session: a TLS 1.3 session in its application phase -- both directions holding the senders' keys and
   sequence numbers -- handed ANY interleaving of application records produced by the two senders of Spec/TlsRecords.v (any
   lengths, any padding) exports exactly the contents, in the order handed over, each with its direction, and stays synchronised.
   Composes the record-layer theorem (C01P.tls13_record), the dispatch of Decryptor.decrypt, the inner-plaintext handling of
   Session.handle_tls_13_application_record and the independence of the two directions' cipher state. *)
From Coq Require Import ZArith List Bool Lia.
From Coq Require String.
Require Import PyLib PyLibP SuiteTypes Crypto KeySchedule Packet Reassembly Decryptor TlsSession TlsRecords C01P Hs13P.
Import ListNotations.
Open Scope Z_scope.

Lemma strip_zeros_repeat p t l : t <> 0 -> strip_zeros_rev (repeat 0 p ++ t :: l) = t :: l.
Proof. intros Ht. induction p as [|p IH]; cbn [repeat app strip_zeros_rev]; [destruct t; congruence|exact IH]. Qed.

Lemma strip_padding_inner c t p : t <> 0 -> strip_padding (c ++ [t] ++ repeat 0 p) = c ++ [t].
Proof.
  intros Ht. unfold strip_padding. rewrite !rev_app_distr. cbn [rev app].
  assert (Hr : rev (repeat 0 p) = repeat 0 p).
  { induction p as [|p IH]; [reflexivity|]. cbn [repeat rev]. rewrite IH. clear IH. induction p as [|p IH]; [reflexivity|]. cbn [repeat app]. now rewrite IH. }
  rewrite Hr, <- app_assoc. cbn [app]. rewrite strip_zeros_repeat by exact Ht. cbn [rev]. now rewrite rev_involutive.
Qed.

Section Session13.
Variable C : Crypto.
Hypothesis L : CryptoLaws C.
Variable tbl : list (Z * String.string).
Variable parts : SuiteTypes.parts.
Variable keylog : list secret.
(* the connection's application-phase parameters *)
Variable a : alg.
Variable key_c iv_c key_s iv_s version : bytes.
Variable tag : Z.
Hypothesis Hivc : 8 <= len iv_c.
Hypothesis Hivs : 8 <= len iv_s.
Hypothesis Hver : len version = 2.
Hypothesis Htag : 0 <= tag.

(* Decryptor.decrypt takes the TLS 1.3 path with algorithm a *)
Definition class13 (d : decryptor) : Prop :=
  d_version d = TLS13 /\ ((d_ctype d = CT_AEAD /\ (a = AESGCM \/ a = AESCCM) /\ d_bulk d = Some a) \/ (d_ctype d = CT_Stream /\ a = ChaCha20Poly1305)).

Lemma class13_dispatch d r srv : class13 d -> decrypt C d r srv = some_res (decrypt_tls13 C d r srv a).
Proof.
  intros [Hv [(Hc & Ha & Hb)|(Hc & ->)]].
  - apply dispatch_tls13_aead; assumption.
  - apply dispatch_tls13_chacha; assumption.
Qed.

Lemma class13_set_seq d srv n : class13 d -> class13 (set_seq d srv n).
Proof. unfold class13. destruct srv; cbn [set_seq d_version d_ctype d_bulk]; tauto. Qed.

(* session and the two senders in step; n more records can be numbered in each direction *)
Definition Inv13 (s : tcore) (stc sts : sstate) (n : nat) : Prop :=
  ts_can_decrypt s = true /\ ts_version s = VSet TLS13 /\
  exists d, ts_decryptor s = Some d /\ class13 d /\ P13 false key_c iv_c tag n d stc /\ P13 true key_s iv_s tag n d sts.

Lemma P13_weaken srv key iv n d st : P13 srv key iv tag (S n) d st -> P13 srv key iv tag n d st.
Proof. unfold P13. intros (?&?&?&?&?&?). repeat split; auto. lia. Qed.

(* an event: who sends, the application data, the padding *)
Definition ev : Type := bool * bytes * nat.
Definition ev_ok (e : ev) : Prop := let '(_, c, p) := e in len (c ++ [23] ++ repeat 0 p) + tag < 65536.

Fixpoint play (stc sts : sstate) (evs : list ev) : result (sstate * sstate * list (bool * tls_record)) :=
  match evs with
  | [] => Ok (stc, sts, [])
  | (srv, c, p) :: t =>
      do x <- send13 C a tag (if srv then key_s else key_c) (if srv then iv_s else iv_c) version (if srv then sts else stc) c 23 p;
      do y <- play (if srv then stc else fst x) (if srv then fst x else sts) t;
      Ok (fst (fst y), snd (fst y), (srv, snd x) :: snd y)
  end.

Fixpoint session_run (s : tcore) (rs : list (bool * tls_record)) : result (tcore * list traffic_entry) :=
  match rs with
  | [] => Ok (s, [])
  | (srv, r) :: t => do x <- handle_tls_record C tbl parts keylog s r srv; do y <- session_run (fst x) t; Ok (fst y, snd x ++ snd y)
  end.

Definition shown (e : traffic_entry) := (te_isserver e, te_data e, te_meta e).

Lemma one_record s stc sts n srv c p st' r : Inv13 s stc sts (S n) -> ev_ok (srv, c, p) ->
  send13 C a tag (if srv then key_s else key_c) (if srv then iv_s else iv_c) version (if srv then sts else stc) c 23 p = Ok (st', r) ->
  exists s', handle_tls_record C tbl parts keylog s r srv = Ok (s', [ {| te_data := Some c; te_record := r; te_isserver := srv; te_meta := false |} ]) /\
             Inv13 s' (if srv then stc else st') (if srv then st' else sts) n.
Proof.
  intros (Hcan & Hv & d & Hd & Hcl & Pc & Ps) Hok Hsend.
  assert (Hty : r_type r = 23).
  { unfold send13 in Hsend. destruct (c_aead_enc C a _ _ _ _ _); [|discriminate]. cbn [bind] in Hsend. injection Hsend as _ <-. reflexivity. }
  assert (Hrec : exists seq, decrypt_tls13 C d r srv a = Ok (set_seq d srv (seq + 1), c ++ [23] ++ repeat 0 p) /\
                             cur_seq d srv = seq /\ ss_seq st' = seq + 1 /\ 0 <= seq /\ seq + 1 + Z.of_nat n <= 2 ^ 64).
  { destruct srv.
    - destruct Ps as (Hk & Hi & Ht & Hs & H0 & Hb). unfold ev_ok in Hok. rewrite <- Ht in Hok, Hsend.
      assert (Htag' : 0 <= d_tag_length d) by (rewrite Ht; exact Htag).
      destruct (tls13_record C L d true a key_s iv_s version sts c 23 p st' r Hk Hi Hivs Hs ltac:(lia) Hver Hok Htag' Hsend) as [Hdec Hs'].
      exists (ss_seq sts). repeat split; auto; lia.
    - destruct Pc as (Hk & Hi & Ht & Hs & H0 & Hb). unfold ev_ok in Hok. rewrite <- Ht in Hok, Hsend.
      assert (Htag' : 0 <= d_tag_length d) by (rewrite Ht; exact Htag).
      destruct (tls13_record C L d false a key_c iv_c version stc c 23 p st' r Hk Hi Hivc Hs ltac:(lia) Hver Hok Htag' Hsend) as [Hdec Hs'].
      exists (ss_seq stc). repeat split; auto; lia. }
  destruct Hrec as (seq & Hdec & Hseq & Hst' & Hs0 & Hsb).
  eexists. split.
  - unfold handle_tls_record. rewrite Hty. change (23 =? 22) with false. change (23 =? 23) with true. cbv iota.
    rewrite Hcan, Hd, Hv. unfold handle_tls_13_application_record.
    rewrite (class13_dispatch d r srv Hcl), Hdec. unfold some_res, rmap. cbn [fst snd].
    rewrite strip_padding_inner by discriminate. rewrite rev_app_distr. cbn [rev app].
    change (23 =? 22) with false. change (23 =? 23) with true. cbv iota. rewrite rev_involutive. reflexivity.
  - unfold Inv13. cbn [set_dec upd ts_can_decrypt ts_version ts_decryptor]. repeat split; auto.
    exists (set_seq d srv (seq + 1)). split; [reflexivity|]. split; [apply class13_set_seq; exact Hcl|].
    destruct srv.
    + split.
      * destruct (set_seq_other d false (seq + 1)) as (E1 & E2 & E3). cbn [negb] in *. apply P13_weaken in Pc.
        destruct Pc as (Hk & Hi & Ht & Hs & H0 & Hb). unfold P13. rewrite E1, E2, E3. repeat split; auto.
      * destruct Ps as (Hk & Hi & Ht & Hs & H0 & Hb). unfold P13, cur_key, cur_iv, cur_seq in *.
        cbn [set_seq d_server_key d_server_iv d_tag_length d_server_seq]. rewrite Hst'. repeat split; auto; lia.
    + split.
      * destruct Pc as (Hk & Hi & Ht & Hs & H0 & Hb). unfold P13, cur_key, cur_iv, cur_seq in *.
        cbn [set_seq d_client_key d_client_iv d_tag_length d_client_seq]. rewrite Hst'. repeat split; auto; lia.
      * destruct (set_seq_other d true (seq + 1)) as (E1 & E2 & E3). cbn [negb] in *. apply P13_weaken in Ps.
        destruct Ps as (Hk & Hi & Ht & Hs & H0 & Hb). unfold P13. rewrite E1, E2, E3. repeat split; auto.
Qed.

Theorem tls13_session evs : forall s stc sts stc' sts' rs,
  Inv13 s stc sts (length evs) -> Forall ev_ok evs -> play stc sts evs = Ok (stc', sts', rs) ->
  exists s' out, session_run s rs = Ok (s', out) /\
                 map shown out = map (fun e : ev => let '(srv, c, _) := e in (srv, Some c, false)) evs /\
                 map te_record out = map snd rs /\ Inv13 s' stc' sts' 0.
Proof.
  induction evs as [|[[srv c] p] t IH]; intros s stc sts stc' sts' rs HI Hok H; cbn [play] in H.
  - injection H as <- <- <-. exists s, []. split; [reflexivity|split; [reflexivity|split; [reflexivity|exact HI]]].
  - inversion Hok as [|? ? Hx Ht]; subst.
    destruct (send13 C a tag _ _ version _ c 23 p) as [[st1 r]|] eqn:E1; [|discriminate]. cbn [bind fst snd] in H.
    destruct (play _ _ t) as [[[c2 s2] rs2]|] eqn:E2; [|discriminate]. cbn [bind fst snd] in H. injection H as <- <- <-.
    cbn [length] in HI. destruct (one_record s stc sts (length t) srv c p st1 r HI Hx E1) as (s1 & Hh & HI1).
    destruct (IH s1 _ _ _ _ _ HI1 Ht E2) as (s' & out & Hr & Hm & Hrec & HI').
    eexists s', _. split; [cbn [session_run]; rewrite Hh; cbn [bind fst snd]; rewrite Hr; cbn [bind fst snd]; reflexivity|].
    cbn [map app]. rewrite Hm, Hrec. split; [reflexivity|split; [reflexivity|exact HI']].
Qed.

(* ---------------- the handshake phase of one direction ---------------- *)
Definition hs_buf (s : tcore) (srv : bool) : bytes := if srv then ts_hs_server s else ts_hs_client s.
Definition Sess (s : tcore) (d : decryptor) : Prop := ts_can_decrypt s = true /\ ts_version s = VSet TLS13 /\ ts_decryptor s = Some d /\ class13 d.

(* the decryptor still holds the direction's handshake keys and knows the application keys (ak, ai) it will switch to *)
Definition switch_ready (d : decryptor) (srv : bool) (ak ai : bytes) : Prop :=
  (if srv then d_s_hs_key d else d_c_hs_key d) <> None /\ (if srv then d_s_hs_iv d else d_c_hs_iv d) <> None /\
  (if srv then d_s_app_key d else d_c_app_key d) = Some ak /\ (if srv then d_s_app_iv d else d_c_app_iv d) = Some ai.

Lemma switch_ready_set_seq d srv ak ai x n : switch_ready d srv ak ai -> switch_ready (set_seq d x n) srv ak ai.
Proof. unfold switch_ready. destruct srv, x; cbn [set_seq d_s_hs_key d_c_hs_key d_s_hs_iv d_c_hs_iv d_s_app_key d_c_app_key d_s_app_iv d_c_app_iv]; tauto. Qed.

Lemma switch_keys d srv ak ai : switch_ready d srv ak ai -> class13 d ->
  exists d', update_keys d srv = Ok d' /\ class13 d' /\ d_tag_length d' = d_tag_length d /\
             cur_key d' srv = Some ak /\ cur_iv d' srv = Some ai /\ cur_seq d' srv = 0 /\
             cur_key d' (negb srv) = cur_key d (negb srv) /\ cur_iv d' (negb srv) = cur_iv d (negb srv) /\ cur_seq d' (negb srv) = cur_seq d (negb srv) /\
             (forall ak' ai', switch_ready d (negb srv) ak' ai' -> switch_ready d' (negb srv) ak' ai').
Proof.
  intros (H1 & H2 & H3 & H4) Hc. unfold update_keys.
  destruct srv.
  - destruct (d_s_hs_key d); [|contradiction]. destruct (d_s_hs_iv d); [|contradiction]. rewrite H3, H4.
    eexists. split; [reflexivity|]. unfold class13, cur_key, cur_iv, cur_seq, switch_ready in *. cbn. repeat split; auto; tauto.
  - destruct (d_c_hs_key d); [|contradiction]. destruct (d_c_hs_iv d); [|contradiction]. rewrite H3, H4.
    eexists. split; [reflexivity|]. unfold class13, cur_key, cur_iv, cur_seq, switch_ready in *. cbn. repeat split; auto; tauto.
Qed.

(* a handshake record: inner type 22 *)
Definition piece_ok (p : bytes * nat) : Prop := fst p <> [] /\ len (fst p ++ [22] ++ repeat 0 (snd p)) + tag < 65536.

Lemma one_hs_record s d srv key iv st n piece pad st' r : Sess s d -> 8 <= len iv -> P13 srv key iv tag (S n) d st -> piece_ok (piece, pad) ->
  send13 C a tag key iv version st piece 22 pad = Ok (st', r) ->
  let d1 := set_seq d srv (ss_seq st + 1) in
  let buf := hs_buf s srv ++ piece in
  handle_tls_record C tbl parts keylog s r srv =
    Ok (let '(d2, remaining) := hs13_consume (S (length buf)) d1 buf srv in (set_hs (set_dec (set_dec s (Some d1)) (Some d2)) srv remaining, [])) /\
  P13 srv key iv tag n d1 st' /\ class13 d1.
Proof.
  intros (Hcan & Hv & Hd & Hcl) Hiv (Hk & Hi & Ht & Hs & H0 & Hb) [_ Hok] Hsend. cbn [fst snd] in Hok.
  assert (Hty : r_type r = 23).
  { unfold send13 in Hsend. destruct (c_aead_enc C a _ _ _ _ _); [|discriminate]. cbn [bind] in Hsend. injection Hsend as _ <-. reflexivity. }
  rewrite <- Ht in Hok, Hsend. assert (Htag' : 0 <= d_tag_length d) by (rewrite Ht; exact Htag).
  destruct (tls13_record C L d srv a key iv version st piece 22 pad st' r Hk Hi Hiv Hs ltac:(lia) Hver Hok Htag' Hsend) as [Hdec Hs'].
  cbv zeta. split; [|split].
  - unfold handle_tls_record. rewrite Hty. change (23 =? 22) with false. change (23 =? 23) with true. cbv iota.
    rewrite Hcan, Hd, Hv. unfold handle_tls_13_application_record.
    rewrite (class13_dispatch d r srv Hcl), Hdec. unfold some_res, rmap. cbn [fst snd].
    rewrite strip_padding_inner by discriminate. rewrite rev_app_distr. cbn [rev app].
    change (22 =? 22) with true. cbv iota. rewrite rev_involutive. unfold hs_buf. reflexivity.
  - unfold P13, cur_key, cur_iv, cur_seq in *. rewrite Hs'. destruct srv; cbn [set_seq d_server_key d_client_key d_server_iv d_client_iv d_tag_length d_server_seq d_client_seq]; repeat split; auto; lia.
  - apply class13_set_seq. exact Hcl.
Qed.

Fixpoint send_pieces (key iv : bytes) (st : sstate) (ps : list (bytes * nat)) : result (sstate * list tls_record) :=
  match ps with
  | [] => Ok (st, [])
  | (piece, pad) :: t => do x <- send13 C a tag key iv version st piece 22 pad; do y <- send_pieces key iv (fst x) t; Ok (fst y, snd x :: snd y)
  end.

Lemma set_hs_fields s srv b : ts_can_decrypt (set_hs s srv b) = ts_can_decrypt s /\ ts_version (set_hs s srv b) = ts_version s /\
  ts_decryptor (set_hs s srv b) = ts_decryptor s /\ hs_buf (set_hs s srv b) srv = b /\ hs_buf (set_hs s srv b) (negb srv) = hs_buf s (negb srv).
Proof. destruct srv; repeat split; reflexivity. Qed.

(* the flight of one direction, cut into records at any bytes *)
Lemma hs_flight srv hk hi ak ai fb : 8 <= len hi -> wfm (20, fb) ->
  forall ps s d st rem stN rs,
  Sess s d -> P13 srv hk hi tag (length ps) d st -> switch_ready d srv ak ai ->
  Forall wfm rem -> Forall (fun m => fst m <> 20) rem -> Forall piece_ok ps -> ps <> [] ->
  hs_buf s srv ++ concat (map fst ps) = stream (rem ++ [(20, fb)]) ->
  send_pieces hk hi st ps = Ok (stN, rs) ->
  exists s' d', session_run s (map (pair srv) rs) = Ok (s', []) /\ Sess s' d' /\ hs_buf s' srv = [] /\ hs_buf s' (negb srv) = hs_buf s (negb srv) /\
                d_tag_length d' = d_tag_length d /\ cur_key d' srv = Some ak /\ cur_iv d' srv = Some ai /\ cur_seq d' srv = 0 /\
                cur_key d' (negb srv) = cur_key d (negb srv) /\ cur_iv d' (negb srv) = cur_iv d (negb srv) /\ cur_seq d' (negb srv) = cur_seq d (negb srv) /\
                (forall ak' ai', switch_ready d (negb srv) ak' ai' -> switch_ready d' (negb srv) ak' ai').
Proof.
  intros Hiv Hwf. induction ps as [|[piece pad] ps IH]; intros s d st rem stN rs HS HP Hsw Hwr Hnr Hok Hne Hcat Hsend; [exfalso; apply Hne; reflexivity|]. clear Hne.
  inversion Hok as [|? ? Hp Hps]; subst. cbn [send_pieces] in Hsend.
  destruct (send13 C a tag hk hi version st piece 22 pad) as [[st1 r]|] eqn:E1; [|discriminate]. cbn [bind fst snd] in Hsend.
  destruct (send_pieces hk hi st1 ps) as [[st2 rs2]|] eqn:E2; [|discriminate]. cbn [bind fst snd] in Hsend. injection Hsend as <- <-.
  cbn [length] in HP. destruct (one_hs_record s d srv hk hi st (length ps) piece pad st1 r HS Hiv HP Hp E1) as (Hh & HP1 & Hcl1).
  cbv zeta in Hh. set (d1 := set_seq d srv (ss_seq st + 1)) in *. set (buf := hs_buf s srv ++ piece) in *.
  pose proof (switch_ready_set_seq d srv ak ai srv (ss_seq st + 1) Hsw) as Hsw1. fold d1 in Hsw1.
  destruct HS as (Hcan & Hv & Hd & Hcl).
  cbn [map concat fst] in Hcat. rewrite app_assoc in Hcat. fold buf in Hcat.
  destruct ps as [|p2 ps'].
  - (* the piece that completes the flight *)
    cbn [map concat] in Hcat. rewrite app_nil_r in Hcat. cbn [send_pieces] in E2. injection E2 as <- <-.
    destruct (switch_keys d1 srv ak ai Hsw1 Hcl1) as (d' & Hu & Hcl' & Htl & Hk' & Hi' & Hs' & Ok1 & Oi1 & Os1 & Osw).
    rewrite Hcat in Hh. rewrite (consume_whole srv rem fb Hwr Hnr Hwf d1 d' _ Hu) in Hh by lia.
    destruct (set_hs_fields (set_dec (set_dec s (Some d1)) (Some d')) srv []) as (F1 & F2 & F3 & F4 & F5).
    eexists _, d'. cbn [map session_run]. rewrite Hh. cbn [bind fst snd session_run]. split; [reflexivity|].
    destruct (set_seq_other d (negb srv) (ss_seq st + 1)) as (E1' & E2' & E3'). rewrite Bool.negb_involutive in *. fold d1 in E1', E2', E3'.
    split; [unfold Sess; rewrite F1, F2, F3; cbn [set_dec upd ts_can_decrypt ts_version ts_decryptor]; auto|].
    split; [exact F4|]. split; [rewrite F5; destruct srv; reflexivity|].
    split; [rewrite Htl; destruct srv; reflexivity|].
    split; [exact Hk'|]. split; [exact Hi'|]. split; [exact Hs'|]. split; [congruence|]. split; [congruence|]. split; [congruence|].
    intros ak' ai' Hr. apply Osw. apply switch_ready_set_seq. exact Hr.
  - (* more pieces follow: the flight is incomplete, no switch *)
    assert (HX : concat (map fst (p2 :: ps')) <> []).
    { inversion Hps as [|? ? [Hne _] _]; subst. cbn [map concat]. destruct (fst p2); [contradiction|discriminate]. }
    assert (Hrl : Forall (fun m => fst m <> 20) (removelast (rem ++ [(20, fb)]))) by (rewrite removelast_flight; exact Hnr).
    assert (Hwall : Forall wfm (rem ++ [(20, fb)])) by (apply Forall_app; split; [exact Hwr|constructor; [exact Hwf|constructor]]).
    destruct (consume_prefix srv _ Hwall Hrl buf _ d1 (S (length buf)) Hcat HX ltac:(lia)) as (j & remaining & Hc & Hleft & Hj).
    rewrite Hc in Hh. rewrite skipn_flight in Hleft by exact Hj.
    set (s1 := set_hs (set_dec (set_dec s (Some d1)) (Some d1)) srv remaining) in *.
    destruct (set_hs_fields (set_dec (set_dec s (Some d1)) (Some d1)) srv remaining) as (F1 & F2 & F3 & F4 & F5). fold s1 in F1, F2, F3, F4, F5.
    assert (HS1 : Sess s1 d1) by (unfold Sess; rewrite F1, F2, F3; cbn [set_dec upd ts_can_decrypt ts_version ts_decryptor]; auto).
    rewrite <- F4 in Hleft.
    destruct (IH s1 d1 st1 (skipn j rem) st2 rs2 HS1 HP1 Hsw1 (Forall_skipn' _ _ _ Hwr) (Forall_skipn' _ _ _ Hnr) Hps ltac:(discriminate) Hleft E2)
      as (s' & d' & Hrun & HS' & B1 & B2 & T1 & K1 & I1 & S1 & K2 & I2 & S2 & Osw).
    exists s', d'. cbn [map session_run]. rewrite Hh. cbn [bind fst snd]. rewrite Hrun. cbn [bind fst snd app].
    destruct (set_seq_other d (negb srv) (ss_seq st + 1)) as (E1' & E2' & E3'). rewrite Bool.negb_involutive in *. fold d1 in E1', E2', E3'.
    split; [reflexivity|]. split; [exact HS'|]. split; [exact B1|]. split; [rewrite B2, F5; destruct srv; reflexivity|].
    split; [rewrite T1; destruct srv; reflexivity|].
    split; [exact K1|]. split; [exact I1|]. split; [exact S1|]. split; [congruence|]. split; [congruence|]. split; [congruence|].
    intros ak' ai' Hr. apply Osw. apply switch_ready_set_seq. exact Hr.
Qed.

(* a plaintext handshake record of a direction that has not sent its ChangeCipherSpec, after the peer has (TLS <= 1.2: a NewSessionTicket
   behind the client's Finished): nothing is decrypted, the session stays as it is, the record is metadata *)
Lemma plain_after_peer_ccs s r (srv : bool) : r_type r = 22 -> (if srv then ts_server_cc s else ts_client_cc s) = false ->
  (if srv then ts_client_cc s else ts_server_cc s) = true -> handle_tls_record C tbl parts keylog s r srv = Ok (s, [meta_entry r srv]).
Proof.
  intros Hty Hown Hpeer. unfold handle_tls_record. rewrite Hty. change (22 =? 22) with true. cbv iota. unfold handle_tls_handshake_record.
  assert (Hor : ts_server_cc s || ts_client_cc s = true) by (destruct srv; rewrite Hpeer; [apply orb_true_r|reflexivity]).
  rewrite Hor. cbn [bind]. unfold handle_handshake_finished. destruct (ts_decryptor s) as [d|]; [|reflexivity]. rewrite Hown. reflexivity.
Qed.

Lemma session_run_app s x y : session_run s (x ++ y) = (do r1 <- session_run s x; do r2 <- session_run (fst r1) y; Ok (fst r2, snd r1 ++ snd r2)).
Proof.
  revert s. induction x as [|[srv r] t IH]; intros s.
  - cbn [app session_run bind fst snd]. destruct (session_run s y) as [[s2 o2]|]; reflexivity.
  - cbn [app session_run]. destruct (handle_tls_record C tbl parts keylog s r srv) as [[s1 o1]|]; [|reflexivity]. cbn [bind fst snd]. rewrite IH.
    destruct (session_run s1 t) as [[s2 o2]|]; [|reflexivity]. cbn [bind fst snd].
    destruct (session_run s2 y) as [[s3 o3]|]; [|reflexivity]. cbn [bind fst snd]. now rewrite app_assoc.
Qed.

(* the connection behind the ServerHello: the server's flight and then the client's, each cut into records at any bytes and padded at
   will, both ending with the Finished; then any interleaving of application records under the application keys *)
Theorem tls13_connection hk_c hi_c hk_s hi_s pre_s fb_s pre_c fb_c ps_s ps_c evs s d st_c st_s stc0 sts0 stN_s rs_s stN_c rs_c stc' sts' rs :
  8 <= len hi_c -> 8 <= len hi_s ->
  Sess s d -> hs_buf s true = [] -> hs_buf s false = [] ->
  P13 true hk_s hi_s tag (length ps_s) d st_s -> P13 false hk_c hi_c tag (length ps_c) d st_c ->
  switch_ready d true key_s iv_s -> switch_ready d false key_c iv_c ->
  Forall wfm pre_s -> Forall (fun m => fst m <> 20) pre_s -> wfm (20, fb_s) -> Forall piece_ok ps_s -> ps_s <> [] -> concat (map fst ps_s) = stream (pre_s ++ [(20, fb_s)]) ->
  Forall wfm pre_c -> Forall (fun m => fst m <> 20) pre_c -> wfm (20, fb_c) -> Forall piece_ok ps_c -> ps_c <> [] -> concat (map fst ps_c) = stream (pre_c ++ [(20, fb_c)]) ->
  send_pieces hk_s hi_s st_s ps_s = Ok (stN_s, rs_s) -> send_pieces hk_c hi_c st_c ps_c = Ok (stN_c, rs_c) ->
  ss_seq stc0 = 0 -> ss_seq sts0 = 0 -> Z.of_nat (length evs) <= 2 ^ 64 -> Forall ev_ok evs -> play stc0 sts0 evs = Ok (stc', sts', rs) ->
  exists s' out, session_run s (map (pair true) rs_s ++ map (pair false) rs_c ++ rs) = Ok (s', out) /\
                 map shown out = map (fun e : ev => let '(srv, c, _) := e in (srv, Some c, false)) evs /\ Inv13 s' stc' sts' 0.
Proof.
  intros Hic His HS Bs Bc Ps Pc Ws Wc Hws Hns Hfs Hoks Hnes Hcs Hwc Hnc Hfc Hokc Hnec Hcc Es Ec Z1 Z2 Hn Hev Hplay.
  (* the server's flight *)
  destruct (hs_flight true hk_s hi_s key_s iv_s fb_s His Hfs ps_s s d st_s pre_s stN_s rs_s HS Ps Ws Hws Hns Hoks Hnes ltac:(rewrite Bs; exact Hcs) Es)
    as (s1 & d1 & R1 & HS1 & B1 & B1' & T1 & K1 & I1 & S1 & K1' & I1' & S1' & Sw1).
  cbn [negb] in *.
  assert (Pc1 : P13 false hk_c hi_c tag (length ps_c) d1 st_c).
  { destruct Pc as (a1 & a2 & a3 & a4 & a5 & a6). unfold P13. rewrite K1', I1', S1', T1. repeat split; auto. }
  (* the client's flight *)
  destruct (hs_flight false hk_c hi_c key_c iv_c fb_c Hic Hfc ps_c s1 d1 st_c pre_c stN_c rs_c HS1 Pc1 (Sw1 _ _ Wc) Hwc Hnc Hokc Hnec ltac:(rewrite B1', Bc; exact Hcc) Ec)
    as (s2 & d2 & R2 & HS2 & B2 & B2' & T2 & K2 & I2 & S2 & K2' & I2' & S2' & Sw2).
  cbn [negb] in *.
  (* the application phase *)
  assert (HI : Inv13 s2 stc0 sts0 (length evs)).
  { destruct HS2 as (c1 & c2 & c3 & c4). destruct Ps as (_ & _ & Tg & _). unfold Inv13. repeat split; auto. exists d2. split; [exact c3|]. split; [exact c4|].
    unfold P13. rewrite K2, I2, S2, K2', I2', S2', K1, I1, S1, T2, T1, Z1, Z2. repeat split; auto; lia. }
  destruct (tls13_session evs s2 stc0 sts0 stc' sts' rs HI Hev Hplay) as (s3 & out & R3 & Hm & _ & HI3).
  exists s3, out. split; [|split; [exact Hm|exact HI3]].
  rewrite session_run_app, R1. cbn [bind fst snd]. rewrite session_run_app, R2. cbn [bind fst snd]. rewrite R3. cbn [bind fst snd app]. reflexivity.
Qed.

(* the premises are what Decryptor.__init__ produces from a complete TLS 1.3 key set: both directions on their handshake keys,
   sequence numbers 0, application keys in store *)
Lemma fresh_decryptor k ml bl exts comp chk chi shk shi cak cai sak sai :
  a = AESGCM \/ a = AESCCM \/ a = ChaCha20Poly1305 ->
  client_hs_key k = Some chk -> client_hs_iv k = Some chi -> server_hs_key k = Some shk -> server_hs_iv k = Some shi ->
  client_app_key k = Some cak -> client_app_iv k = Some cai -> server_app_key k = Some sak -> server_app_iv k = Some sai ->
  exists d, new_decryptor (Some a) (K13 k) TLS13 ml tag bl exts comp = Ok d /\ class13 d /\ d_tag_length d = tag /\
            cur_key d true = Some shk /\ cur_iv d true = Some shi /\ cur_seq d true = 0 /\
            cur_key d false = Some chk /\ cur_iv d false = Some chi /\ cur_seq d false = 0 /\
            switch_ready d true sak sai /\ switch_ready d false cak cai.
Proof.
  intros Ha H1 H2 H3 H4 H5 H6 H7 H8. unfold new_decryptor, class13. cbn [version_eqb]. rewrite H1, H2, H3, H4, H5, H6, H7, H8. cbn [bind].
  destruct Ha as [Ea|[Ea|Ea]]; rewrite Ea; cbn [get_cipher_type bind]; eexists; (split; [reflexivity|]);
    unfold cur_key, cur_iv, cur_seq, switch_ready; cbn; repeat split; auto; try discriminate; tauto.
Qed.

(* TLS 1.3 middlebox compatibility (RFC 8446 D.4): a dummy ChangeCipherSpec record anywhere in the connection only sets a flag that the
   TLS 1.3 path never reads -- the session's decryptor, buffers and synchronisation with both senders are untouched, the record is
   exported as metadata only *)
Lemma tls13_ccs_inert s stc sts n (srv : bool) body : Inv13 s stc sts n ->
  exists s', handle_tls_record C tbl parts keylog s (mk_record 20 version body) srv = Ok (s', [meta_entry (mk_record 20 version body) srv]) /\
             Inv13 s' stc sts n /\ hs_buf s' true = hs_buf s true /\ hs_buf s' false = hs_buf s false /\ ts_decryptor s' = ts_decryptor s.
Proof.
  intros (Hcan & Hv & d & Hd & Hrest).
  unfold handle_tls_record, mk_record. cbn [r_type]. change (20 =? 22) with false. change (20 =? 23) with false. change (20 =? 21) with false. change (20 =? 20) with true. cbv iota.
  eexists. split; [reflexivity|]. split; [|repeat split; reflexivity].
  unfold Inv13. cbn [upd ts_can_decrypt ts_version ts_decryptor]. split; [exact Hcan|]. split; [exact Hv|]. exists d. split; [exact Hd|exact Hrest].
Qed.

End Session13.
