(* C01 at the level of the session: a TLS 1.3 session in its application phase -- both directions holding the senders' keys and
   sequence numbers -- handed ANY interleaving of application records produced by the two senders of Spec/TlsRecords.v (any
   lengths, any padding) exports exactly the contents, in the order handed over, each with its direction, and stays synchronised.
   Composes the record-layer theorem (C01P.tls13_record), the dispatch of Decryptor.decrypt, the inner-plaintext handling of
   Session.handle_tls_13_application_record and the independence of the two directions' cipher state. *)
From Coq Require Import ZArith List Bool Lia.
From Coq Require String.
Require Import PyLib PyLibP SuiteTypes Crypto KeySchedule Packet Reassembly Decryptor TlsSession TlsRecords C01P.
Import ListNotations.
Open Scope Z_scope.

Lemma strip_zeros_repeat p t l : t <> 0 -> strip_zeros_rev (repeat 0 p ++ t :: l) = t :: l.
Proof. intros Ht. induction p as [|p IH]; cbn [repeat app strip_zeros_rev]; [destruct t; congruence|exact IH]. Qed.

Lemma strip_padding_inner c t p : t <> 0 -> strip_padding (c ++ [t] ++ repeat 0 p) = c ++ [t].
Proof.
  intros Ht. unfold strip_padding. rewrite !rev_app_distr. cbn [rev app].
  assert (Hr : rev (repeat 0 p) = repeat 0 p).
  { induction p as [|p IH]; [reflexivity|]. cbn [repeat rev]. rewrite IH. clear IH. induction p as [|p IH]; [reflexivity|]. cbn [repeat app]. now rewrite IH. }
  rewrite Hr, <- app_assoc. cbn [app]. rewrite strip_zeros_repeat by exact Ht. cbn [rev]. now rewrite rev_involutive.
Qed.

Section Session13.
Variable C : Crypto.
Hypothesis L : CryptoLaws C.
Variable tbl : list (Z * String.string).
Variable parts : SuiteTypes.parts.
Variable keylog : list secret.
(* the connection's application-phase parameters *)
Variable a : alg.
Variable key_c iv_c key_s iv_s version : bytes.
Variable tag : Z.
Hypothesis Hivc : 8 <= len iv_c.
Hypothesis Hivs : 8 <= len iv_s.
Hypothesis Hver : len version = 2.
Hypothesis Htag : 0 <= tag.

(* Decryptor.decrypt takes the TLS 1.3 path with algorithm a *)
Definition class13 (d : decryptor) : Prop :=
  d_version d = TLS13 /\ ((d_ctype d = CT_AEAD /\ (a = AESGCM \/ a = AESCCM) /\ d_bulk d = Some a) \/ (d_ctype d = CT_Stream /\ a = ChaCha20Poly1305)).

Lemma class13_dispatch d r srv : class13 d -> decrypt C d r srv = some_res (decrypt_tls13 C d r srv a).
Proof.
  intros [Hv [(Hc & Ha & Hb)|(Hc & ->)]].
  - apply dispatch_tls13_aead; assumption.
  - apply dispatch_tls13_chacha; assumption.
Qed.

Lemma class13_set_seq d srv n : class13 d -> class13 (set_seq d srv n).
Proof. unfold class13. destruct srv; cbn [set_seq d_version d_ctype d_bulk]; tauto. Qed.

(* session and the two senders in step; n more records can be numbered in each direction *)
Definition Inv13 (s : tcore) (stc sts : sstate) (n : nat) : Prop :=
  ts_can_decrypt s = true /\ ts_version s = VSet TLS13 /\
  exists d, ts_decryptor s = Some d /\ class13 d /\ P13 false key_c iv_c tag n d stc /\ P13 true key_s iv_s tag n d sts.

Lemma P13_weaken srv key iv n d st : P13 srv key iv tag (S n) d st -> P13 srv key iv tag n d st.
Proof. unfold P13. intros (?&?&?&?&?&?). repeat split; auto. lia. Qed.

(* an event: who sends, the application data, the padding *)
Definition ev : Type := bool * bytes * nat.
Definition ev_ok (e : ev) : Prop := let '(_, c, p) := e in len (c ++ [23] ++ repeat 0 p) + tag < 65536.

Fixpoint play (stc sts : sstate) (evs : list ev) : result (sstate * sstate * list (bool * tls_record)) :=
  match evs with
  | [] => Ok (stc, sts, [])
  | (srv, c, p) :: t =>
      do x <- send13 C a tag (if srv then key_s else key_c) (if srv then iv_s else iv_c) version (if srv then sts else stc) c 23 p;
      do y <- play (if srv then stc else fst x) (if srv then fst x else sts) t;
      Ok (fst (fst y), snd (fst y), (srv, snd x) :: snd y)
  end.

Fixpoint session_run (s : tcore) (rs : list (bool * tls_record)) : result (tcore * list traffic_entry) :=
  match rs with
  | [] => Ok (s, [])
  | (srv, r) :: t => do x <- handle_tls_record C tbl parts keylog s r srv; do y <- session_run (fst x) t; Ok (fst y, snd x ++ snd y)
  end.

Definition shown (e : traffic_entry) := (te_isserver e, te_data e, te_meta e).

Lemma one_record s stc sts n srv c p st' r : Inv13 s stc sts (S n) -> ev_ok (srv, c, p) ->
  send13 C a tag (if srv then key_s else key_c) (if srv then iv_s else iv_c) version (if srv then sts else stc) c 23 p = Ok (st', r) ->
  exists s', handle_tls_record C tbl parts keylog s r srv = Ok (s', [ {| te_data := Some c; te_record := r; te_isserver := srv; te_meta := false |} ]) /\
             Inv13 s' (if srv then stc else st') (if srv then st' else sts) n.
Proof.
  intros (Hcan & Hv & d & Hd & Hcl & Pc & Ps) Hok Hsend.
  assert (Hty : r_type r = 23).
  { unfold send13 in Hsend. destruct (c_aead_enc C a _ _ _ _ _); [|discriminate]. cbn [bind] in Hsend. injection Hsend as _ <-. reflexivity. }
  assert (Hrec : exists seq, decrypt_tls13 C d r srv a = Ok (set_seq d srv (seq + 1), c ++ [23] ++ repeat 0 p) /\
                             cur_seq d srv = seq /\ ss_seq st' = seq + 1 /\ 0 <= seq /\ seq + 1 + Z.of_nat n <= 2 ^ 64).
  { destruct srv.
    - destruct Ps as (Hk & Hi & Ht & Hs & H0 & Hb). unfold ev_ok in Hok. rewrite <- Ht in Hok, Hsend.
      assert (Htag' : 0 <= d_tag_length d) by (rewrite Ht; exact Htag).
      destruct (tls13_record C L d true a key_s iv_s version sts c 23 p st' r Hk Hi Hivs Hs ltac:(lia) Hver Hok Htag' Hsend) as [Hdec Hs'].
      exists (ss_seq sts). repeat split; auto; lia.
    - destruct Pc as (Hk & Hi & Ht & Hs & H0 & Hb). unfold ev_ok in Hok. rewrite <- Ht in Hok, Hsend.
      assert (Htag' : 0 <= d_tag_length d) by (rewrite Ht; exact Htag).
      destruct (tls13_record C L d false a key_c iv_c version stc c 23 p st' r Hk Hi Hivc Hs ltac:(lia) Hver Hok Htag' Hsend) as [Hdec Hs'].
      exists (ss_seq stc). repeat split; auto; lia. }
  destruct Hrec as (seq & Hdec & Hseq & Hst' & Hs0 & Hsb).
  eexists. split.
  - unfold handle_tls_record. rewrite Hty. change (23 =? 22) with false. change (23 =? 23) with true. cbv iota.
    rewrite Hcan, Hd, Hv. unfold handle_tls_13_application_record.
    rewrite (class13_dispatch d r srv Hcl), Hdec. unfold some_res, rmap. cbn [fst snd].
    rewrite strip_padding_inner by discriminate. rewrite rev_app_distr. cbn [rev app].
    change (23 =? 22) with false. change (23 =? 23) with true. cbv iota. rewrite rev_involutive. reflexivity.
  - unfold Inv13. cbn [set_dec upd ts_can_decrypt ts_version ts_decryptor]. repeat split; auto.
    exists (set_seq d srv (seq + 1)). split; [reflexivity|]. split; [apply class13_set_seq; exact Hcl|].
    destruct srv.
    + split.
      * destruct (set_seq_other d false (seq + 1)) as (E1 & E2 & E3). cbn [negb] in *. apply P13_weaken in Pc.
        destruct Pc as (Hk & Hi & Ht & Hs & H0 & Hb). unfold P13. rewrite E1, E2, E3. repeat split; auto.
      * destruct Ps as (Hk & Hi & Ht & Hs & H0 & Hb). unfold P13, cur_key, cur_iv, cur_seq in *.
        cbn [set_seq d_server_key d_server_iv d_tag_length d_server_seq]. rewrite Hst'. repeat split; auto; lia.
    + split.
      * destruct Pc as (Hk & Hi & Ht & Hs & H0 & Hb). unfold P13, cur_key, cur_iv, cur_seq in *.
        cbn [set_seq d_client_key d_client_iv d_tag_length d_client_seq]. rewrite Hst'. repeat split; auto; lia.
      * destruct (set_seq_other d true (seq + 1)) as (E1 & E2 & E3). cbn [negb] in *. apply P13_weaken in Ps.
        destruct Ps as (Hk & Hi & Ht & Hs & H0 & Hb). unfold P13. rewrite E1, E2, E3. repeat split; auto.
Qed.

Theorem tls13_session evs : forall s stc sts stc' sts' rs,
  Inv13 s stc sts (length evs) -> Forall ev_ok evs -> play stc sts evs = Ok (stc', sts', rs) ->
  exists s' out, session_run s rs = Ok (s', out) /\
                 map shown out = map (fun e : ev => let '(srv, c, _) := e in (srv, Some c, false)) evs /\
                 map te_record out = map snd rs /\ Inv13 s' stc' sts' 0.
Proof.
  induction evs as [|[[srv c] p] t IH]; intros s stc sts stc' sts' rs HI Hok H; cbn [play] in H.
  - injection H as <- <- <-. exists s, []. split; [reflexivity|split; [reflexivity|split; [reflexivity|exact HI]]].
  - inversion Hok as [|? ? Hx Ht]; subst.
    destruct (send13 C a tag _ _ version _ c 23 p) as [[st1 r]|] eqn:E1; [|discriminate]. cbn [bind fst snd] in H.
    destruct (play _ _ t) as [[[c2 s2] rs2]|] eqn:E2; [|discriminate]. cbn [bind fst snd] in H. injection H as <- <- <-.
    cbn [length] in HI. destruct (one_record s stc sts (length t) srv c p st1 r HI Hx E1) as (s1 & Hh & HI1).
    destruct (IH s1 _ _ _ _ _ HI1 Ht E2) as (s' & out & Hr & Hm & Hrec & HI').
    eexists s', _. split; [cbn [session_run]; rewrite Hh; cbn [bind fst snd]; rewrite Hr; cbn [bind fst snd]; reflexivity|].
    cbn [map app]. rewrite Hm, Hrec. split; [reflexivity|split; [reflexivity|exact HI']].
Qed.
End Session13.
