(* C01 at the level of the session, TLS 1.2 with an AEAD suite (AES-GCM, AES-CCM): behind the ServerHello, from the ChangeCipherSpec
   records on.  Each direction sends its ChangeCipherSpec and then protected records -- the Finished (type 22) and application data
   (type 23), in any mix and any interleaving of the two directions.  The session decrypts every protected record in step with its
   sender (the Finished consumes sequence number 0), exports exactly the application contents as application data, in order, and
   everything else only as metadata. *)
From Coq Require Import ZArith List Bool Lia.
From Coq Require String.
Require Import PyLib PyLibP SuiteTypes Crypto KeySchedule Packet Reassembly Decryptor TlsSession TlsRecords C01P C01SessionP.
Import ListNotations.
Open Scope Z_scope.

Section Session12.
Variable C : Crypto.
Hypothesis L : CryptoLaws C.
Variable tbl : list (Z * String.string).
Variable parts : SuiteTypes.parts.
Variable keylog : list secret.
Variable a : alg.
Variable key_c salt_c key_s salt_s version : bytes.
Variable tag : Z.
Hypothesis Hver : len version = 2.
Hypothesis Htag : 0 <= tag.

Definition class12 (d : decryptor) : Prop := d_ctype d = CT_AEAD /\ d_version d <> TLS13 /\ (a = AESGCM \/ a = AESCCM) /\ d_bulk d = Some a.
Lemma class12_set_seq d srv n : class12 d -> class12 (set_seq d srv n).
Proof. unfold class12. destruct srv; cbn [set_seq d_version d_ctype d_bulk]; tauto. Qed.

(* session and the two senders in step; ccc / scc: the directions that have sent their ChangeCipherSpec *)
Definition Inv12 (s : tcore) (stc sts : sstate) (ccc scc : bool) (n : nat) : Prop :=
  ts_can_decrypt s = true /\ (exists v, ts_version s = VSet v /\ v <> TLS13) /\ ts_client_cc s = ccc /\ ts_server_cc s = scc /\
  exists d, ts_decryptor s = Some d /\ class12 d /\ P12 false key_c salt_c tag n d stc /\ P12 true key_s salt_s tag n d sts.

Lemma P12_weaken srv key iv n d st : P12 srv key iv tag (S n) d st -> P12 srv key iv tag n d st.
Proof. unfold P12. intros (?&?&?&?&?&?&?). repeat split; auto. lia. Qed.

Inductive ev12 := ECcs (srv : bool) | EEnc (srv : bool) (rt : Z) (explicit content : bytes) | EPlain (srv : bool) (r : tls_record).
Definition ev12_ok (e : ev12) : Prop := match e with ECcs _ => True | EEnc _ rt ex c => (rt = 22 \/ rt = 23) /\ len ex = 8 /\ len c < 65536 | EPlain _ r => r_type r = 22 end.

(* a direction protects records only after its ChangeCipherSpec *)
Fixpoint ordered (ccc scc : bool) (evs : list ev12) : Prop :=
  match evs with
  | [] => True
  | ECcs srv :: t => ordered (if srv then ccc else true) (if srv then true else scc) t
  | EEnc srv _ _ _ :: t => (if srv then scc else ccc) = true /\ ordered ccc scc t
  | EPlain srv _ :: t => (if srv then scc else ccc) = false /\ (if srv then ccc else scc) = true /\ ordered ccc scc t
  end.

Fixpoint play12 (stc sts : sstate) (evs : list ev12) : result (sstate * sstate * list (bool * tls_record)) :=
  match evs with
  | [] => Ok (stc, sts, [])
  | ECcs srv :: t => do y <- play12 stc sts t; Ok (fst (fst y), snd (fst y), (srv, mk_record 20 version [1]) :: snd y)
  | EEnc srv rt ex c :: t =>
      do x <- send12_aead_t C rt a tag (if srv then key_s else key_c) (if srv then salt_s else salt_c) version (if srv then sts else stc) ex c;
      do y <- play12 (if srv then stc else fst x) (if srv then fst x else sts) t;
      Ok (fst (fst y), snd (fst y), (srv, snd x) :: snd y)
  | EPlain srv r :: t => do y <- play12 stc sts t; Ok (fst (fst y), snd (fst y), (srv, r) :: snd y)
  end.

Definition app_of (e : ev12) : list (bool * option bytes * bool) :=
  match e with EEnc srv rt _ c => if rt =? 23 then [(srv, Some c, false)] else [] | _ => [] end.
Definition data_entries (out : list traffic_entry) := map shown (filter (fun e => negb (te_meta e)) out).

Lemma one_ccs s stc sts ccc scc n srv : Inv12 s stc sts ccc scc n ->
  exists s' out, handle_tls_record C tbl parts keylog s (mk_record 20 version [1]) srv = Ok (s', out) /\ data_entries out = [] /\
                 Inv12 s' stc sts (if srv then ccc else true) (if srv then true else scc) n.
Proof.
  intros (Hcan & Hv & Hcc & Hsc & d & Hd & Hcl & Pc & Ps).
  unfold handle_tls_record, mk_record. cbn [r_type]. change (20 =? 22) with false. change (20 =? 23) with false. change (20 =? 21) with false. change (20 =? 20) with true. cbv iota.
  eexists _, _. split; [reflexivity|]. split; [reflexivity|].
  unfold Inv12. cbn [upd ts_can_decrypt ts_version ts_client_cc ts_server_cc ts_decryptor]. repeat split; auto.
  - destruct srv; [exact Hcc|reflexivity].
  - destruct srv; [reflexivity|exact Hsc].
  - exists d. auto.
Qed.

Lemma one_enc s stc sts ccc scc n srv rt ex c st' r : Inv12 s stc sts ccc scc (S n) -> ev12_ok (EEnc srv rt ex c) -> (if srv then scc else ccc) = true ->
  send12_aead_t C rt a tag (if srv then key_s else key_c) (if srv then salt_s else salt_c) version (if srv then sts else stc) ex c = Ok (st', r) ->
  exists s' out, handle_tls_record C tbl parts keylog s r srv = Ok (s', out) /\ data_entries out = app_of (EEnc srv rt ex c) /\
                 Inv12 s' (if srv then stc else st') (if srv then st' else sts) ccc scc n.
Proof.
  intros (Hcan & (v & Hv & Hv13) & Hcc & Hsc & d & Hd & Hcl & Pc & Ps) (Hrt & Hex & Hlen) Hready Hsend.
  destruct Hcl as (Hct & Hdv & Ha & Hb).
  assert (Hrec : exists seq, decrypt_tls12_aead C d r srv a = Ok (set_seq d srv (seq + 1), c) /\ r_type r = rt /\
                             cur_seq d srv = seq /\ ss_seq st' = seq + 1 /\ 0 <= seq /\ seq + 1 + Z.of_nat n <= 2 ^ 64).
  { destruct srv.
    - destruct Ps as (Hk & Hi & Ht & Hz & Hs & H0 & Hbd). rewrite <- Ht in Hsend. assert (0 <= d_tag_length d) by (rewrite Ht; exact Htag).
      destruct (tls12_aead_record_t C L rt d true a key_s salt_s version sts ex c st' r ltac:(destruct Hrt; lia) Hk Hi Hs ltac:(lia) Hver Hex Hlen H Hz Hsend) as (H1 & H2 & H3).
      exists (ss_seq sts). repeat split; auto; lia.
    - destruct Pc as (Hk & Hi & Ht & Hz & Hs & H0 & Hbd). rewrite <- Ht in Hsend. assert (0 <= d_tag_length d) by (rewrite Ht; exact Htag).
      destruct (tls12_aead_record_t C L rt d false a key_c salt_c version stc ex c st' r ltac:(destruct Hrt; lia) Hk Hi Hs ltac:(lia) Hver Hex Hlen H Hz Hsend) as (H1 & H2 & H3).
      exists (ss_seq stc). repeat split; auto; lia. }
  destruct Hrec as (seq & Hdec & Hty & Hseq & Hst' & Hs0 & Hsb).
  assert (Hdisp : decrypt C d r srv = Ok (set_seq d srv (seq + 1), Some c)).
  { rewrite (dispatch_tls12_aead C d r srv a Hct Hdv Ha Hb), Hdec. reflexivity. }
  assert (HI' : Inv12 (set_dec s (Some (set_seq d srv (seq + 1)))) (if srv then stc else st') (if srv then st' else sts) ccc scc n).
  { unfold Inv12. cbn [set_dec upd ts_can_decrypt ts_version ts_client_cc ts_server_cc ts_decryptor]. repeat split; auto; [exists v; auto|].
    exists (set_seq d srv (seq + 1)). split; [reflexivity|]. split; [apply class12_set_seq; repeat split; auto|].
    destruct srv.
    + split.
      * destruct (set_seq_other d false (seq + 1)) as (E1 & E2 & E3). cbn [negb] in *. apply P12_weaken in Pc.
        destruct Pc as (Hk & Hi & Ht & Hz & Hs & H0 & Hbd). unfold P12. rewrite E1, E2, E3. repeat split; auto.
      * destruct Ps as (Hk & Hi & Ht & Hz & Hs & H0 & Hbd). unfold P12, cur_key, cur_iv, cur_seq in *.
        cbn [set_seq d_server_key d_server_iv d_tag_length d_compression d_server_seq]. rewrite Hst'. repeat split; auto; lia.
    + split.
      * destruct Pc as (Hk & Hi & Ht & Hz & Hs & H0 & Hbd). unfold P12, cur_key, cur_iv, cur_seq in *.
        cbn [set_seq d_client_key d_client_iv d_tag_length d_compression d_client_seq]. rewrite Hst'. repeat split; auto; lia.
      * destruct (set_seq_other d true (seq + 1)) as (E1 & E2 & E3). cbn [negb] in *. apply P12_weaken in Ps.
        destruct Ps as (Hk & Hi & Ht & Hz & Hs & H0 & Hbd). unfold P12. rewrite E1, E2, E3. repeat split; auto. }
  unfold handle_tls_record. rewrite Hty. destruct Hrt as [-> | ->].
  - (* a protected handshake record (the Finished): decrypted, exported as metadata only *)
    change (22 =? 22) with true. cbv iota. unfold handle_tls_handshake_record.
    assert (Hor : ts_server_cc s || ts_client_cc s = true) by (rewrite Hcc, Hsc; destruct srv; rewrite Hready; [reflexivity|apply orb_true_r]).
    rewrite Hor. cbn [bind]. unfold handle_handshake_finished. rewrite Hd.
    assert (Hgo : (if srv then ts_server_cc s else ts_client_cc s) && ts_can_decrypt s = true) by (rewrite Hcan, Hcc, Hsc; destruct srv; rewrite Hready; reflexivity).
    rewrite Hgo, Hdisp. cbn [fst snd]. eexists _, _. split; [reflexivity|]. split; [|exact HI'].
    unfold data_entries, app_of. change (22 =? 23) with false. rewrite filter_app. cbn [filter meta_entry te_meta negb app].
    destruct (negb match c with [] => true | _ => false end); reflexivity.
  - (* application data *)
    change (23 =? 22) with false. change (23 =? 23) with true. cbv iota. rewrite Hcan, Hd, Hv.
    assert (Hnot13 : match v with TLS13 => False | _ => True end) by (destruct v; auto).
    eexists _, _. split.
    + destruct v; try contradiction; unfold handle_tls_application_record; rewrite Hdisp; reflexivity.
    + split; [|exact HI']. unfold data_entries, app_of. change (23 =? 23) with true. reflexivity.
Qed.

Theorem tls12_aead_session evs : forall s stc sts ccc scc stc' sts' rs,
  Inv12 s stc sts ccc scc (length evs) -> Forall ev12_ok evs -> ordered ccc scc evs -> play12 stc sts evs = Ok (stc', sts', rs) ->
  exists s' out ccc' scc', session_run C tbl parts keylog s rs = Ok (s', out) /\ data_entries out = flat_map app_of evs /\ Inv12 s' stc' sts' ccc' scc' 0.
Proof.
  induction evs as [|e t IH]; intros s stc sts ccc scc stc' sts' rs HI Hok Hord H; cbn [play12] in H.
  - injection H as <- <- <-. exists s, [], ccc, scc. split; [reflexivity|split; [reflexivity|exact HI]].
  - inversion Hok as [|? ? Hx Ht]; subst. destruct e as [srv|srv rt ex c|srv r].
    + destruct (play12 stc sts t) as [[[c2 s2] rs2]|] eqn:E2; [|discriminate]. cbn [bind fst snd] in H. injection H as <- <- <-.
      cbn [ordered] in Hord. cbn [length] in HI.
      assert (HIw : Inv12 s stc sts ccc scc (length t)).
      { destruct HI as (i1 & i2 & i3 & i4 & d & i5 & i6 & i7 & i8). unfold Inv12. split; [exact i1|]. split; [exact i2|]. split; [exact i3|]. split; [exact i4|]. exists d. split; [exact i5|]. split; [exact i6|]. split; apply P12_weaken; assumption. }
      destruct (one_ccs s stc sts ccc scc (length t) srv HIw) as (s1 & o1 & Hh & Hd1 & HI1).
      destruct (IH s1 _ _ _ _ _ _ _ HI1 Ht Hord E2) as (s' & out & ccc' & scc' & Hr & Hm & HI').
      exists s', (o1 ++ out), ccc', scc'. split; [cbn [session_run]; rewrite Hh; cbn [bind fst snd]; rewrite Hr; reflexivity|].
      split; [|exact HI']. unfold data_entries in *. rewrite filter_app, map_app, Hd1, Hm. reflexivity.
    + destruct (send12_aead_t C rt a tag _ _ version _ ex c) as [[st1 r]|] eqn:E1; [|discriminate]. cbn [bind fst snd] in H.
      destruct (play12 _ _ t) as [[[c2 s2] rs2]|] eqn:E2; [|discriminate]. cbn [bind fst snd] in H. injection H as <- <- <-.
      cbn [ordered] in Hord. destruct Hord as [Hready Hord]. cbn [length] in HI.
      destruct (one_enc s stc sts ccc scc (length t) srv rt ex c st1 r HI Hx Hready E1) as (s1 & o1 & Hh & Hd1 & HI1).
      destruct (IH s1 _ _ _ _ _ _ _ HI1 Ht Hord E2) as (s' & out & ccc' & scc' & Hr & Hm & HI').
      exists s', (o1 ++ out), ccc', scc'. split; [cbn [session_run]; rewrite Hh; cbn [bind fst snd]; rewrite Hr; reflexivity|].
      split; [|exact HI']. unfold data_entries in *. rewrite filter_app, map_app, Hd1, Hm. reflexivity.
    + destruct (play12 stc sts t) as [[[c2 s2] rs2]|] eqn:E2; [|discriminate]. cbn [bind fst snd] in H. injection H as <- <- <-.
      cbn [ordered] in Hord. destruct Hord as (Hown & Hpeer & Hord). cbn [length] in HI.
      assert (HIw : Inv12 s stc sts ccc scc (length t)).
      { destruct HI as (i1 & i2 & i3 & i4 & d & i5 & i6 & i7 & i8). unfold Inv12. split; [exact i1|]. split; [exact i2|]. split; [exact i3|]. split; [exact i4|]. exists d. split; [exact i5|]. split; [exact i6|]. split; apply P12_weaken; assumption. }
      assert (Hh : handle_tls_record C tbl parts keylog s r srv = Ok (s, [meta_entry r srv])).
      { destruct HI as (_ & _ & i3 & i4 & _). apply plain_after_peer_ccs; [exact Hx|rewrite i3, i4; exact Hown|rewrite i3, i4; exact Hpeer]. }
      destruct (IH s _ _ _ _ _ _ _ HIw Ht Hord E2) as (s' & out & ccc' & scc' & Hr & Hm & HI').
      exists s', ([meta_entry r srv] ++ out), ccc', scc'. split; [cbn [session_run]; rewrite Hh; cbn [bind fst snd]; rewrite Hr; reflexivity|].
      split; [|exact HI']. unfold data_entries in *. rewrite filter_app, map_app, Hm. reflexivity.
Qed.
End Session12.

(* the same for TLS 1.2 ChaCha20-Poly1305 (RFC 7905: no explicit nonce) *)
Module Chacha.
Section Session12Chacha.
Variable C : Crypto.
Hypothesis L : CryptoLaws C.
Variable tbl : list (Z * String.string).
Variable parts : SuiteTypes.parts.
Variable keylog : list secret.
Variable key_c salt_c key_s salt_s version : bytes.
Variable tag : Z.
Hypothesis Hver : len version = 2.
Hypothesis Htag : 0 <= tag.
Hypothesis Hivc : 8 <= len salt_c.
Hypothesis Hivs : 8 <= len salt_s.

Definition class12 (d : decryptor) : Prop := d_ctype d = CT_Stream /\ d_version d = TLS12 /\ d_bulk d = Some ChaCha20Poly1305.
Lemma class12_set_seq d srv n : class12 d -> class12 (set_seq d srv n).
Proof. unfold class12. destruct srv; cbn [set_seq d_version d_ctype d_bulk]; tauto. Qed.

(* session and the two senders in step; ccc / scc: the directions that have sent their ChangeCipherSpec *)
Definition Inv12 (s : tcore) (stc sts : sstate) (ccc scc : bool) (n : nat) : Prop :=
  ts_can_decrypt s = true /\ (exists v, ts_version s = VSet v /\ v <> TLS13) /\ ts_client_cc s = ccc /\ ts_server_cc s = scc /\
  exists d, ts_decryptor s = Some d /\ class12 d /\ P12 false key_c salt_c tag n d stc /\ P12 true key_s salt_s tag n d sts.

Lemma P12_weaken srv key iv n d st : P12 srv key iv tag (S n) d st -> P12 srv key iv tag n d st.
Proof. unfold P12. intros (?&?&?&?&?&?&?). repeat split; auto. lia. Qed.

Inductive ev12 := ECcs (srv : bool) | EEnc (srv : bool) (rt : Z) (content : bytes) | EPlain (srv : bool) (r : tls_record).
Definition ev12_ok (e : ev12) : Prop := match e with ECcs _ => True | EEnc _ rt c => (rt = 22 \/ rt = 23) /\ len c < 65536 | EPlain _ r => r_type r = 22 end.

(* a direction protects records only after its ChangeCipherSpec *)
Fixpoint ordered (ccc scc : bool) (evs : list ev12) : Prop :=
  match evs with
  | [] => True
  | ECcs srv :: t => ordered (if srv then ccc else true) (if srv then true else scc) t
  | EEnc srv _ _ :: t => (if srv then scc else ccc) = true /\ ordered ccc scc t
  | EPlain srv _ :: t => (if srv then scc else ccc) = false /\ (if srv then ccc else scc) = true /\ ordered ccc scc t
  end.

Fixpoint play12 (stc sts : sstate) (evs : list ev12) : result (sstate * sstate * list (bool * tls_record)) :=
  match evs with
  | [] => Ok (stc, sts, [])
  | ECcs srv :: t => do y <- play12 stc sts t; Ok (fst (fst y), snd (fst y), (srv, mk_record 20 version [1]) :: snd y)
  | EEnc srv rt c :: t =>
      do x <- send12_chacha_t C rt (if srv then key_s else key_c) (if srv then salt_s else salt_c) version (if srv then sts else stc) c;
      do y <- play12 (if srv then stc else fst x) (if srv then fst x else sts) t;
      Ok (fst (fst y), snd (fst y), (srv, snd x) :: snd y)
  | EPlain srv r :: t => do y <- play12 stc sts t; Ok (fst (fst y), snd (fst y), (srv, r) :: snd y)
  end.

Definition app_of (e : ev12) : list (bool * option bytes * bool) :=
  match e with EEnc srv rt c => if rt =? 23 then [(srv, Some c, false)] else [] | _ => [] end.
Definition data_entries (out : list traffic_entry) := map shown (filter (fun e => negb (te_meta e)) out).

Lemma one_ccs s stc sts ccc scc n srv : Inv12 s stc sts ccc scc n ->
  exists s' out, handle_tls_record C tbl parts keylog s (mk_record 20 version [1]) srv = Ok (s', out) /\ data_entries out = [] /\
                 Inv12 s' stc sts (if srv then ccc else true) (if srv then true else scc) n.
Proof.
  intros (Hcan & Hv & Hcc & Hsc & d & Hd & Hcl & Pc & Ps).
  unfold handle_tls_record, mk_record. cbn [r_type]. change (20 =? 22) with false. change (20 =? 23) with false. change (20 =? 21) with false. change (20 =? 20) with true. cbv iota.
  eexists _, _. split; [reflexivity|]. split; [reflexivity|].
  unfold Inv12. cbn [upd ts_can_decrypt ts_version ts_client_cc ts_server_cc ts_decryptor]. repeat split; auto.
  - destruct srv; [exact Hcc|reflexivity].
  - destruct srv; [reflexivity|exact Hsc].
  - exists d. auto.
Qed.

Lemma one_enc s stc sts ccc scc n srv rt c st' r : Inv12 s stc sts ccc scc (S n) -> ev12_ok (EEnc srv rt c) -> (if srv then scc else ccc) = true ->
  send12_chacha_t C rt (if srv then key_s else key_c) (if srv then salt_s else salt_c) version (if srv then sts else stc) c = Ok (st', r) ->
  exists s' out, handle_tls_record C tbl parts keylog s r srv = Ok (s', out) /\ data_entries out = app_of (EEnc srv rt c) /\
                 Inv12 s' (if srv then stc else st') (if srv then st' else sts) ccc scc n.
Proof.
  intros (Hcan & (v & Hv & Hv13) & Hcc & Hsc & d & Hd & Hcl & Pc & Ps) (Hrt & Hlen) Hready Hsend.
  destruct Hcl as (Hct & Hdv & Hb).
  assert (Hrec : exists seq, decrypt_tls12_chacha20 C d r srv = Ok (set_seq d srv (seq + 1), c) /\ r_type r = rt /\
                             cur_seq d srv = seq /\ ss_seq st' = seq + 1 /\ 0 <= seq /\ seq + 1 + Z.of_nat n <= 2 ^ 64).
  { destruct srv.
    - destruct Ps as (Hk & Hi & Ht & Hz & Hs & H0 & Hbd).
      destruct (tls12_chacha_record_t C L rt d true key_s salt_s version sts c st' r ltac:(destruct Hrt; lia) Hk Hi Hivs Hs ltac:(lia) Hver Hlen Hz Hsend) as (H1 & H2 & H3).
      exists (ss_seq sts). repeat split; auto; lia.
    - destruct Pc as (Hk & Hi & Ht & Hz & Hs & H0 & Hbd).
      destruct (tls12_chacha_record_t C L rt d false key_c salt_c version stc c st' r ltac:(destruct Hrt; lia) Hk Hi Hivc Hs ltac:(lia) Hver Hlen Hz Hsend) as (H1 & H2 & H3).
      exists (ss_seq stc). repeat split; auto; lia. }
  destruct Hrec as (seq & Hdec & Hty & Hseq & Hst' & Hs0 & Hsb).
  assert (Hdisp : decrypt C d r srv = Ok (set_seq d srv (seq + 1), Some c)).
  { rewrite (dispatch_tls12_chacha C d r srv Hct Hdv Hb), Hdec. reflexivity. }
  assert (HI' : Inv12 (set_dec s (Some (set_seq d srv (seq + 1)))) (if srv then stc else st') (if srv then st' else sts) ccc scc n).
  { unfold Inv12. cbn [set_dec upd ts_can_decrypt ts_version ts_client_cc ts_server_cc ts_decryptor]. repeat split; auto; [exists v; auto|].
    exists (set_seq d srv (seq + 1)). split; [reflexivity|]. split; [apply class12_set_seq; repeat split; auto|].
    destruct srv.
    + split.
      * destruct (set_seq_other d false (seq + 1)) as (E1 & E2 & E3). cbn [negb] in *. apply P12_weaken in Pc.
        destruct Pc as (Hk & Hi & Ht & Hz & Hs & H0 & Hbd). unfold P12. rewrite E1, E2, E3. repeat split; auto.
      * destruct Ps as (Hk & Hi & Ht & Hz & Hs & H0 & Hbd). unfold P12, cur_key, cur_iv, cur_seq in *.
        cbn [set_seq d_server_key d_server_iv d_tag_length d_compression d_server_seq]. rewrite Hst'. repeat split; auto; lia.
    + split.
      * destruct Pc as (Hk & Hi & Ht & Hz & Hs & H0 & Hbd). unfold P12, cur_key, cur_iv, cur_seq in *.
        cbn [set_seq d_client_key d_client_iv d_tag_length d_compression d_client_seq]. rewrite Hst'. repeat split; auto; lia.
      * destruct (set_seq_other d true (seq + 1)) as (E1 & E2 & E3). cbn [negb] in *. apply P12_weaken in Ps.
        destruct Ps as (Hk & Hi & Ht & Hz & Hs & H0 & Hbd). unfold P12. rewrite E1, E2, E3. repeat split; auto. }
  unfold handle_tls_record. rewrite Hty. destruct Hrt as [-> | ->].
  - (* a protected handshake record (the Finished): decrypted, exported as metadata only *)
    change (22 =? 22) with true. cbv iota. unfold handle_tls_handshake_record.
    assert (Hor : ts_server_cc s || ts_client_cc s = true) by (rewrite Hcc, Hsc; destruct srv; rewrite Hready; [reflexivity|apply orb_true_r]).
    rewrite Hor. cbn [bind]. unfold handle_handshake_finished. rewrite Hd.
    assert (Hgo : (if srv then ts_server_cc s else ts_client_cc s) && ts_can_decrypt s = true) by (rewrite Hcan, Hcc, Hsc; destruct srv; rewrite Hready; reflexivity).
    rewrite Hgo, Hdisp. cbn [fst snd]. eexists _, _. split; [reflexivity|]. split; [|exact HI'].
    unfold data_entries, app_of. change (22 =? 23) with false. rewrite filter_app. cbn [filter meta_entry te_meta negb app].
    destruct (negb match c with [] => true | _ => false end); reflexivity.
  - (* application data *)
    change (23 =? 22) with false. change (23 =? 23) with true. cbv iota. rewrite Hcan, Hd, Hv.
    assert (Hnot13 : match v with TLS13 => False | _ => True end) by (destruct v; auto).
    eexists _, _. split.
    + destruct v; try contradiction; unfold handle_tls_application_record; rewrite Hdisp; reflexivity.
    + split; [|exact HI']. unfold data_entries, app_of. change (23 =? 23) with true. reflexivity.
Qed.

Theorem tls12_chacha_session evs : forall s stc sts ccc scc stc' sts' rs,
  Inv12 s stc sts ccc scc (length evs) -> Forall ev12_ok evs -> ordered ccc scc evs -> play12 stc sts evs = Ok (stc', sts', rs) ->
  exists s' out ccc' scc', session_run C tbl parts keylog s rs = Ok (s', out) /\ data_entries out = flat_map app_of evs /\ Inv12 s' stc' sts' ccc' scc' 0.
Proof.
  induction evs as [|e t IH]; intros s stc sts ccc scc stc' sts' rs HI Hok Hord H; cbn [play12] in H.
  - injection H as <- <- <-. exists s, [], ccc, scc. split; [reflexivity|split; [reflexivity|exact HI]].
  - inversion Hok as [|? ? Hx Ht]; subst. destruct e as [srv|srv rt c|srv r].
    + destruct (play12 stc sts t) as [[[c2 s2] rs2]|] eqn:E2; [|discriminate]. cbn [bind fst snd] in H. injection H as <- <- <-.
      cbn [ordered] in Hord. cbn [length] in HI.
      assert (HIw : Inv12 s stc sts ccc scc (length t)).
      { destruct HI as (i1 & i2 & i3 & i4 & d & i5 & i6 & i7 & i8). unfold Inv12. split; [exact i1|]. split; [exact i2|]. split; [exact i3|]. split; [exact i4|]. exists d. split; [exact i5|]. split; [exact i6|]. split; apply P12_weaken; assumption. }
      destruct (one_ccs s stc sts ccc scc (length t) srv HIw) as (s1 & o1 & Hh & Hd1 & HI1).
      destruct (IH s1 _ _ _ _ _ _ _ HI1 Ht Hord E2) as (s' & out & ccc' & scc' & Hr & Hm & HI').
      exists s', (o1 ++ out), ccc', scc'. split; [cbn [session_run]; rewrite Hh; cbn [bind fst snd]; rewrite Hr; reflexivity|].
      split; [|exact HI']. unfold data_entries in *. rewrite filter_app, map_app, Hd1, Hm. reflexivity.
    + destruct (send12_chacha_t C rt _ _ version _ c) as [[st1 r]|] eqn:E1; [|discriminate]. cbn [bind fst snd] in H.
      destruct (play12 _ _ t) as [[[c2 s2] rs2]|] eqn:E2; [|discriminate]. cbn [bind fst snd] in H. injection H as <- <- <-.
      cbn [ordered] in Hord. destruct Hord as [Hready Hord]. cbn [length] in HI.
      destruct (one_enc s stc sts ccc scc (length t) srv rt c st1 r HI Hx Hready E1) as (s1 & o1 & Hh & Hd1 & HI1).
      destruct (IH s1 _ _ _ _ _ _ _ HI1 Ht Hord E2) as (s' & out & ccc' & scc' & Hr & Hm & HI').
      exists s', (o1 ++ out), ccc', scc'. split; [cbn [session_run]; rewrite Hh; cbn [bind fst snd]; rewrite Hr; reflexivity|].
      split; [|exact HI']. unfold data_entries in *. rewrite filter_app, map_app, Hd1, Hm. reflexivity.
    + destruct (play12 stc sts t) as [[[c2 s2] rs2]|] eqn:E2; [|discriminate]. cbn [bind fst snd] in H. injection H as <- <- <-.
      cbn [ordered] in Hord. destruct Hord as (Hown & Hpeer & Hord). cbn [length] in HI.
      assert (HIw : Inv12 s stc sts ccc scc (length t)).
      { destruct HI as (i1 & i2 & i3 & i4 & d & i5 & i6 & i7 & i8). unfold Inv12. split; [exact i1|]. split; [exact i2|]. split; [exact i3|]. split; [exact i4|]. exists d. split; [exact i5|]. split; [exact i6|]. split; apply P12_weaken; assumption. }
      assert (Hh : handle_tls_record C tbl parts keylog s r srv = Ok (s, [meta_entry r srv])).
      { destruct HI as (_ & _ & i3 & i4 & _). apply plain_after_peer_ccs; [exact Hx|rewrite i3, i4; exact Hown|rewrite i3, i4; exact Hpeer]. }
      destruct (IH s _ _ _ _ _ _ _ HIw Ht Hord E2) as (s' & out & ccc' & scc' & Hr & Hm & HI').
      exists s', ([meta_entry r srv] ++ out), ccc', scc'. split; [cbn [session_run]; rewrite Hh; cbn [bind fst snd]; rewrite Hr; reflexivity|].
      split; [|exact HI']. unfold data_entries in *. rewrite filter_app, map_app, Hm. reflexivity.
Qed.
End Session12Chacha.
End Chacha.
