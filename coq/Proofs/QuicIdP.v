(* Whatever a QUIC session does with a datagram, its identity -- the socket addresses, hardware addresses and IP version fixed when
   the session was created -- does not change.  (Base of the QUIC demultiplexer theorem and of the QUIC half of C07/C10 addressing.) *)
From Coq Require Import ZArith List Bool Lia.
Require Import PyLib SuiteTypes Crypto KeySchedule QuicKeys Varint QuicFrames QuicPn QuicDissector QuicTls Packet QuicSession.
Import ListNotations.
Open Scope Z_scope.

Definition qid (s : qsession) := (qs_server_ip s, qs_server_port s, qs_server_mac s, qs_client_ip s, qs_client_port s, qs_client_mac s, qs_ipv6 s).

Section Id.
Variable C : Crypto.
Variable keylog : list secret.
Variable ftable : list (list Z * fclass).

Lemma std_id s cr cs : qid (fst (set_tls_decryptors C keylog s cr cs)) = qid s.
Proof.
  unfold set_tls_decryptors.
  destruct ((len cs =? 2) && (from_be cs =? 4865)); [|destruct ((len cs =? 2) && (from_be cs =? 4866)); [|destruct ((len cs =? 2) && (from_be cs =? 4867)); [|destruct ((len cs =? 2) && (from_be cs =? 4868)); [|reflexivity]]]];
  (destruct (dev_quic_keys _ _ _ _ _) as [k|]; [|reflexivity];
   destruct (q_chs k), (q_shs k), (q_capp k), (q_sapp k); try reflexivity;
   repeat match goal with |- context [if ?b then _ else _] => destruct b end; reflexivity).
Qed.

Lemma hcf_id s pk off cl data : qid (fst (handle_crypto_frame C keylog s pk off cl data)) = qid s.
Proof.
  unfold handle_crypto_frame.
  destruct (update_session _ _ _ _) as [t1 ok1]. destruct ok1; cbn [negb]; [|reflexivity].
  set (s1 := upd_tls _ t1).
  assert (H1 : qid s1 = qid s) by reflexivity.
  destruct (qt_new_data t1).
  - destruct (qt_client_random t1) as [cr|]; [destruct (qt_ciphersuite t1) as [cs|]|].
    + pose proof (std_id s1 cr cs) as Hs. destruct (set_tls_decryptors C keylog s1 cr cs) as [s2 ok2]. cbn [fst] in Hs.
      destruct ok2; cbn [negb fst]; [|congruence].
      etransitivity; [|exact H1]. etransitivity; [|exact Hs]. reflexivity.
    + cbn [negb fst]. reflexivity.
    + cbn [negb fst]. reflexivity.
  - cbn [negb fst]. reflexivity.
Qed.

Lemma hf_id s pk f : qid (fst (handle_frame C keylog s pk f)) = qid s.
Proof.
  unfold handle_frame. destruct (f_cls f); try reflexivity.
  - apply hcf_id.
  - destruct (qp_isserver pk); reflexivity.
Qed.

Lemma hfs_id pk fs : forall s, qid (handle_frames C keylog s pk fs) = qid s.
Proof.
  induction fs as [|f r IH]; intros s; [reflexivity|]. cbn [handle_frames].
  pose proof (hf_id s pk f) as H. destruct (handle_frame C keylog s pk f) as [s' ok]. cbn [fst] in H.
  destruct ok; [rewrite IH; exact H|exact H].
Qed.

Lemma cke_id s kp srv s' : check_key_epoch C s kp srv = Ok s' -> qid s' = qid s.
Proof.
  unfold check_key_epoch. destruct (qs_app s) as [gens|]; [|discriminate].
  match goal with |- bind ?F _ = _ -> _ => destruct F as [g|]; [|discriminate] end. cbn [bind]. intros H. injection H as <-. reflexivity.
Qed.

Lemma sel_id s pk s1 r : select_decryptor C s pk = (s1, r) -> qid s1 = qid s.
Proof.
  unfold select_decryptor. intros H.
  destruct (qp_type pk);
    try (destruct (qs_initial s); injection H as <- _; reflexivity);
    try (destruct (qs_handshake s), (qs_cipher s); injection H as <- _; reflexivity);
    try (destruct (qs_early s) as [[k i]|], (qs_cipher s); injection H as <- _; reflexivity).
  destruct (check_key_epoch C s (qp_key_phase pk) (qp_isserver pk)) as [s0|] eqn:Ec.
  - pose proof (cke_id _ _ _ _ Ec) as H0. destruct (qs_app s0), (qs_cipher s0); try destruct (nth_error _ _); injection H as <- _; exact H0.
  - injection H as <- _. reflexivity.
Qed.

Lemma dp_id s pk s' : decrypt_packet C keylog ftable s pk = Ok s' -> qid s' = qid s.
Proof.
  unfold decrypt_packet. destruct (select_decryptor C s pk) as [s1 r] eqn:E.
  pose proof (sel_id _ _ _ _ E) as H1.
  destruct r as [[ci [key iv]]|]; [|intros H; injection H as <-; exact H1].
  destruct (get_full_packet_number _ _ _ _) as [[pn pns]|]; [|intros H; injection H as <-; exact H1].
  match goal with |- match ?F with Ok _ => _ | Exn _ => _ end = _ -> _ => destruct F as [payload|]; [|intros H; injection H as <-; exact H1] end.
  destruct (parse_frames ftable payload) as [fs|]; intros H; injection H as <-.
  - rewrite hfs_id. exact H1.
  - exact H1.
Qed.

Lemma pq_id s pk s' : process_qpacket C keylog ftable s pk = Ok s' -> qid s' = qid s.
Proof.
  unfold process_qpacket.
  match goal with |- bind ?F _ = _ -> _ => destruct F as [s1|] eqn:E; [|discriminate] end. cbn [bind].
  assert (H1 : qid s1 = qid s).
  { destruct (qp_type pk); try (injection E as <-; reflexivity); apply (dp_id _ _ _ E). }
  intros H. injection H as <-. etransitivity; [|exact H1].
  destruct (qp_type pk); try reflexivity.
  destruct (qp_isserver pk); reflexivity.
Qed.

Lemma pd_id fuel : forall s d ts srv dcid s', process_datagram C keylog ftable fuel s d ts srv dcid = Ok s' -> qid s' = qid s.
Proof.
  induction fuel as [|f IH]; intros s d ts srv dcid s' H; destruct d as [|x r]; cbn [process_datagram] in H; try (injection H as <-; reflexivity); try discriminate.
  destruct (extract_quic_packet _ _ _ _ _ _ _) as [pkts rest].
  match type of H with bind ?F _ = _ => destruct F as [s1|] eqn:E; [|discriminate] end. cbn [bind] in H.
  assert (H1 : qid s1 = qid s).
  { clear H. revert s s1 E. induction pkts as [|pk t IHp]; intros s s1 E; [injection E as <-; reflexivity|].
    destruct (process_qpacket C keylog ftable s pk) as [s2|] eqn:E2; [|discriminate]. cbn [bind] in E.
    etransitivity; [exact (IHp _ _ E)|exact (pq_id _ _ _ E2)]. }
  etransitivity; [exact (IH _ _ _ _ _ _ H)|exact H1].
Qed.

Theorem quic_session_identity s p dcid ver s' : quic_handle_packet C keylog ftable s p dcid ver = Ok s' -> qid s' = qid s.
Proof.
  unfold quic_handle_packet.
  match goal with |- context [bind ?F _] => destruct F as [s1|] eqn:E; [|discriminate] end. cbn [bind].
  assert (H1 : qid s1 = qid s).
  { destruct (qs_version s) eqn:Ev; (destruct (qs_initial _) eqn:Ei; [injection E as <-; reflexivity|]);
      unfold set_initial_decryptor in E; destruct (dev_initial_keys _ _ _ _) as [[ik|]|]; try discriminate; injection E as <-; reflexivity. }
  intros H. etransitivity; [exact (pd_id _ _ _ _ _ _ _ H)|exact H1].
Qed.
End Id.
