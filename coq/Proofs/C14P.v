(* C14: every accepted code point is IANA's code point for its name and resolves to what the name denotes. *)
From Coq Require Import ZArith String List Bool Lia.
Require Import SuiteTypes SuiteParser IanaRegistry Iana SuiteTable.
Import ListNotations.
Open Scope Z_scope.

Definition entry_ok (e : Z * string) : bool :=
  let (c, n) := e in
  (0 <=? c) && (c <? 65536)
  && match iana_name c with Some m => String.eqb m n | None => false end
  && match denote n with Some d => agrees (split_name parts n) d | None => false end.

Fixpoint nodupb (l : list Z) : bool :=
  match l with [] => true | x :: r => negb (existsb (Z.eqb x) r) && nodupb r end.

Lemma nodupb_NoDup l : nodupb l = true -> NoDup l.
Proof.
  induction l as [|x r IH]; cbn [nodupb]; intros H; [constructor|].
  apply andb_prop in H as [H1 H2]. constructor; [|auto].
  intros Hin. apply negb_true_iff in H1.
  assert (existsb (Z.eqb x) r = true) as E by (apply existsb_exists; exists x; split; [exact Hin|apply Z.eqb_refl]).
  congruence.
Qed.

Lemma lookup_In c n t : lookup c t = Some n -> In (c, n) t.
Proof.
  induction t as [|[k v] r IH]; cbn [lookup]; [discriminate|].
  destruct (Z.eqb_spec k c) as [->|Hne]; intros H.
  - injection H as ->. left; reflexivity.
  - right; auto.
Qed.

Lemma lookup_None c t : lookup c t = None -> ~ In c (map fst t).
Proof.
  induction t as [|[k v] r IH]; cbn [lookup map fst]; [intros _ []|].
  destruct (Z.eqb_spec k c) as [->|Hne]; [discriminate|].
  intros H [Hk|Hin]; [congruence|]. exact (IH H Hin).
Qed.

(* a Python dict literal keeps the last of two equal keys; with distinct keys "first" and "last" agree *)
Lemma lookup_unique c n t : NoDup (map fst t) -> In (c, n) t -> lookup c t = Some n.
Proof.
  induction t as [|[k v] r IH]; cbn [lookup map fst]; intros Hnd Hin; [destruct Hin|].
  inversion Hnd as [|? ? Hnotin Hnd']; subst.
  destruct Hin as [Heq|Hin].
  - injection Heq as -> ->. rewrite Z.eqb_refl. reflexivity.
  - destruct (Z.eqb_spec k c) as [->|Hne]; [|auto].
    exfalso. apply Hnotin. apply in_map_iff. exists (c, n). auto.
Qed.

Lemma all_entries_ok : forallb entry_ok table = true.
Proof. vm_compute. reflexivity. Qed.

Lemma keys_nodup : NoDup (map fst table).
Proof. apply nodupb_NoDup. vm_compute. reflexivity. Qed.

Definition resolves_as_iana (c : Z) (p : suite) : Prop :=
  exists n d, iana_name c = Some n /\ lookup c table = Some n /\ denote n = Some d /\ agrees p d = true.

Theorem c14_all_code_points : forall c, 0 <= c < 65536 ->
  match split_cipher_suite table parts c with
  | Some p => resolves_as_iana c p
  | None => ~ In c (map fst table)
  end.
Proof.
  intros c _. unfold split_cipher_suite.
  destruct (lookup c table) as [n|] eqn:L.
  - pose proof (lookup_In _ _ _ L) as Hin.
    pose proof all_entries_ok as Hall. rewrite forallb_forall in Hall.
    specialize (Hall _ Hin). unfold entry_ok in Hall.
    apply andb_prop in Hall as [Hall Hd]. apply andb_prop in Hall as [_ Hn].
    destruct (iana_name c) as [m|] eqn:Hi; [|discriminate].
    apply String.eqb_eq in Hn. subst m.
    destruct (denote n) as [d|] eqn:Hden; [|discriminate].
    exists n, d. auto.
  - apply lookup_None. exact L.
Qed.

(* accepted code points lie in the two-byte range, so nothing outside it is accepted either *)
Theorem c14_accepts_only_table : forall c p, split_cipher_suite table parts c = Some p ->
  0 <= c < 65536 /\ In c (map fst table).
Proof.
  intros c p H. unfold split_cipher_suite in H. destruct (lookup c table) as [n|] eqn:L; [|discriminate].
  pose proof (lookup_In _ _ _ L) as Hin.
  pose proof all_entries_ok as Hall. rewrite forallb_forall in Hall. specialize (Hall _ Hin).
  unfold entry_ok in Hall. repeat (apply andb_prop in Hall as [Hall ?]).
  split; [lia|]. apply in_map_iff. exists (c, n). auto.
Qed.

(* used by C06: every table suite resolves to a known bulk algorithm and key length *)
Theorem table_suites_known : forall c p, split_cipher_suite table parts c = Some p ->
  s_algo p <> None /\ s_keylen p <> None.
Proof.
  intros c p H. pose proof (c14_all_code_points c) as G.
  destruct (c14_accepts_only_table _ _ H) as [Hr _]. specialize (G Hr). rewrite H in G.
  destruct G as (n & d & _ & _ & _ & Hag). unfold agrees in Hag.
  destruct (s_algo p); [|discriminate]. destruct (s_keylen p); [|rewrite andb_false_r in Hag; discriminate].
  split; discriminate.
Qed.

(* non-vacuity: concrete code points on both sides *)
Example c14_example_accept : exists p, split_cipher_suite table parts 0xC0AC = Some p /\ s_algo p = Some (AESCCM, 1) /\ s_tag p = 16.
Proof. eexists. vm_compute. repeat split. Qed.
Example c14_example_ccm8 : exists p, split_cipher_suite table parts 0xC0AE = Some p /\ s_tag p = 8.
Proof. eexists. vm_compute. repeat split. Qed.
Example c14_example_reject : split_cipher_suite table parts 0x0001 = None.
Proof. vm_compute. reflexivity. Qed.
