(* C03: an undecryptable or damaged flow does not disturb other flows (TLS over TCP), and contributes nothing it should not *)
From Coq Require Import ZArith List Bool Lia.
Require Import PyLib SuiteTypes Crypto KeySchedule Packet Reassembly Decryptor TlsSession OutputBuilder Frames Main C04P C08P.
Import ListNotations.
Open Scope Z_scope.

Section Iso.
Variable o : options.

(* whatever is done to packets outside q's flow -- deleted, corrupted, replaced, foreign traffic added, in any positions -- the sessions
   of q's flow are the same *)
Theorem isolation q ps ps' ss :
  filter (same_flowb q) ps = filter (same_flowb q) ps' ->
  proj q (sessions_after o ps ss) = proj q (sessions_after o ps' ss).
Proof. intros H. rewrite !demux, H. reflexivity. Qed.

(* the reading phase never fails without -c: no TCP payload, however damaged, can abort it *)
Theorem reading_total items : opt_checksum o = false -> forall m, exists m', fold_left (read_item_tls o) items (Ok m) = Ok m'.
Proof.
  intros Hc. induction items as [|it r IH]; intros m; [exists m; reflexivity|].
  cbn [fold_left]. destruct it as [p|ks].
  - unfold read_item_tls at 2. cbn [bind]. destruct (p_kind p); try apply IH.
    unfold step_tcp. rewrite Hc. destruct (len (p_data p) =? 0); cbn [bind]; apply IH.
  - cbn [read_item_tls bind]. apply IH.
Qed.
End Iso.

Section Rec.
Variable C : Crypto.
Variable tbl : list (Z * String.string).
Variable parts : SuiteTypes.parts.
Variable keylog : list secret.

(* a session that cannot decrypt (no keys, unknown suite, alert seen, ...) exports nothing for application records and is not changed by them *)
Lemma no_keys_no_output s r d : r_type r = 0x17 -> ts_can_decrypt s = false ->
  handle_tls_record C tbl parts keylog s r d = Ok (s, []).
Proof. intros Ht Hc. unfold handle_tls_record. rewrite Ht. cbn [Z.eqb Pos.eqb]. rewrite Hc. reflexivity. Qed.

(* an application record that fails to decrypt (wrong keys, damaged bytes) contributes nothing and leaves the cipher state alone *)
Lemma failed_record_no_output s dcr r d e v : r_type r = 0x17 -> ts_can_decrypt s = true -> ts_decryptor s = Some dcr ->
  ts_version s = VSet v -> decrypt C dcr r d = Exn e ->
  handle_tls_record C tbl parts keylog s r d = Ok (s, []).
Proof.
  intros Ht Hc Hd Hv He. unfold handle_tls_record. rewrite Ht. cbn [Z.eqb Pos.eqb]. rewrite Hc, Hd, Hv.
  destruct v; unfold handle_tls_application_record, handle_tls_13_application_record; rewrite He; reflexivity.
Qed.

(* the records a session never looks into: handling is total and exports the record only as metadata *)
Lemma other_records_total s r d : r_type r <> 0x16 -> exists s' em, handle_tls_record C tbl parts keylog s r d = Ok (s', em) /\
  (r_type r <> 0x17 -> Forall (fun e => te_meta e = true) em).
Proof.
  intros H16. unfold handle_tls_record. replace (r_type r =? 22) with false by (symmetry; apply Z.eqb_neq; exact H16).
  destruct (r_type r =? 23) eqn:E17.
  - apply Z.eqb_eq in E17.
    destruct (ts_can_decrypt s); [|eexists; eexists; split; [reflexivity|intros; congruence]].
    destruct (ts_decryptor s) as [dc|]; [|eexists; eexists; split; [reflexivity|intros; congruence]].
    destruct (ts_version s) as [|v]; [eexists; eexists; split; [reflexivity|intros; congruence]|].
    destruct v; (match goal with |- context [Ok ?x] => exists (fst x), (snd x) end; split; [now rewrite <- surjective_pairing|intros; congruence]).
  - destruct (r_type r =? 21); [eexists; eexists; split; [reflexivity|intros; repeat constructor]|].
    destruct (r_type r =? 20); [eexists; eexists; split; [reflexivity|intros; repeat constructor]|].
    eexists; eexists; split; [reflexivity|intros; constructor].
Qed.

(* no line of the key log carries the session's client random: the ServerHello switches decryption off instead of failing *)
Lemma missing_secrets s v cs sr : find_session_secrets keylog s = [] ->
  generate_keys C tbl parts keylog s v cs sr = Ok (set_can s false).
Proof. intros H. unfold generate_keys. destruct (SuiteParser.split_cipher_suite tbl parts (from_be cs)); [|reflexivity]. rewrite H. reflexivity. Qed.

(* a cipher suite that is not in the table: the same *)
Lemma unknown_suite s v cs sr : SuiteParser.split_cipher_suite tbl parts (from_be cs) = None ->
  generate_keys C tbl parts keylog s v cs sr = Ok (set_can s false).
Proof. intros H. unfold generate_keys. rewrite H. reflexivity. Qed.
End Rec.
