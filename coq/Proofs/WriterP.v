(* C06, the container: the file TLExport writes (the model of dpkt.pcapng.Writer as main.py uses it) IS a pcapng section as the
   standard's serialiser (Spec/PcapngSpec.v) produces it -- little-endian, one Ethernet interface with snap length 20000 and no
   options, one Enhanced Packet Block per packet -- and therefore the reader of C12 reads it back to exactly the packets written,
   with their microsecond time stamps. *)
From Coq Require Import ZArith List Bool Lia.
Require Import PyLib PyLibP PcapngWriter PcapngSpec PcapngReader C12P.
Import ListNotations.
Open Scope Z_scope.

Definition as_capture (pkts : list (Z * bytes)) : capture :=
  {| c_pre := []; c_linktype := 1; c_snaplen := 20000; c_ifopts := {| io_resol := None; io_offset := None |};
     c_items := map (fun p => CPkt false (fst p) (snd p)) pkts |}.

Lemma le_enc n k : 0 <= k -> 0 <= n < 2 ^ (8 * k) -> le n k = enc true n k.
Proof. intros Hk Hn. unfold le, enc. rewrite Z.mod_small by lia. reflexivity. Qed.

Lemma epb_is_block ts pkt : 0 <= ts < 2 ^ 64 -> len pkt + 64 < 256 ^ 4 -> epb ts pkt = ser_item true (CPkt false ts pkt).
Proof.
  intros Hts Hl. pose proof (len_nonneg pkt) as H0. change (256 ^ 4) with 4294967296 in Hl. change (2 ^ 64) with 18446744073709551616 in Hts.
  unfold epb, ser_item, block. cbv zeta.
  assert (Hpad : pad4 pkt = pad pkt) by reflexivity. rewrite Hpad.
  pose proof (len_pad pkt) as Hp. pose proof (len_nonneg (pad pkt)) as Hp0.
  assert (Hhi : Z.shiftr ts 32 = ts / 2 ^ 32) by (apply Z.shiftr_div_pow2; lia).
  assert (Hlo : Z.land ts 4294967295 = ts mod 2 ^ 32) by (change 4294967295 with (Z.ones 32); apply Z.land_ones; lia).
  rewrite Hhi, Hlo.
  assert (Hhib : 0 <= ts / 2 ^ 32 < 2 ^ 32).
  { change (2 ^ 32) with 4294967296. split; [apply Z.div_pos; lia|apply Z.div_lt_upper_bound; lia]. }
  assert (Hlob : 0 <= ts mod 2 ^ 32 < 2 ^ 32) by (apply Z.mod_pos_bound; change (2 ^ 32) with 4294967296; lia).
  change (8 * 4) with 32 in *.
  rewrite !(le_enc _ 4) by (change (8 * 4) with 32; change (2 ^ 32) with 4294967296 in *; lia).
  set (body := enc true 0 4 ++ enc true (ts / 2 ^ 32) 4 ++ enc true (ts mod 2 ^ 32) 4 ++ enc true (len pkt) 4 ++ enc true (len pkt) 4 ++ pad pkt).
  assert (Lb : len body = 20 + len (pad pkt)).
  { unfold body, enc. rewrite !len_app. unfold len. rewrite !rev_length. fold (len (pad pkt)).
    assert (E : forall n, Z.of_nat (length (to_be_total n 4)) = 4) by (intros n; apply (len_to_be_total n 4); lia). rewrite !E. lia. }
  replace (32 + len (pad pkt)) with (12 + len body) by lia. unfold body. rewrite <- !app_assoc. reflexivity.
Qed.

Definition pkt_fits (p : Z * bytes) : Prop := 0 <= fst p < 2 ^ 64 /\ len (snd p) + 64 < 256 ^ 4.

Theorem write_is_pcapng pkts : Forall pkt_fits pkts -> write_file pkts = ser true (as_capture pkts).
Proof.
  intros H. unfold write_file, ser, as_capture. cbn [c_pre c_linktype c_snaplen c_ifopts c_items map concat app].
  assert (Es : PcapngWriter.shb = PcapngSpec.shb true) by (vm_compute; reflexivity).
  assert (Ei : PcapngWriter.idb 20000 = PcapngSpec.idb true 1 20000 {| io_resol := None; io_offset := None |}) by (vm_compute; reflexivity).
  rewrite Es, Ei. f_equal. f_equal. rewrite map_map. induction H as [|p r [Hp1 Hp2] _ IH]; [reflexivity|].
  cbn [map concat]. rewrite IH, (epb_is_block (fst p) (snd p) Hp1 Hp2). reflexivity.
Qed.

Lemma items_of pkts : flat_map ritem_of (map (fun p : Z * bytes => CPkt false (fst p) (snd p)) pkts) = map (fun p => RPkt (fst p) (snd p)) pkts.
Proof. induction pkts as [|p r IH]; [reflexivity|]. cbn [map flat_map ritem_of app]. f_equal. exact IH. Qed.

(* read back by the reader of C12: microsecond resolution, no offset, exactly the packets *)
Theorem written_file_reads_back pkts : Forall pkt_fits pkts ->
  parse_file (write_file pkts) = Ok ({| ts_base := 10; ts_exp := 6; ts_offset := 0 |}, map (fun p => RPkt (fst p) (snd p)) pkts).
Proof.
  intros H. rewrite (write_is_pcapng pkts H).
  assert (Hwf : wf true (as_capture pkts)).
  { constructor; cbn [as_capture c_pre c_items].
    - constructor.
    - unfold tb_ok. split; [split; vm_compute; [discriminate|reflexivity]|vm_compute; reflexivity].
    - apply Forall_map. eapply Forall_impl; [|exact H]. intros p [H1 H2]. cbn [item_ok]. split; assumption. }
  rewrite (parse_ser true _ Hwf).
  assert (Et : idb_tsinfo true (block true 1 (snd (idb_block true (as_capture pkts)))) = Ok {| ts_base := 10; ts_exp := 6; ts_offset := 0 |}).
  { unfold idb_block, as_capture. cbn [snd c_linktype c_snaplen c_ifopts ser_ifopts io_resol io_offset]. apply tsinfo_default; [change (256 ^ 2) with 65536|change (256 ^ 4) with 4294967296]; lia. }
  rewrite Et. cbn [bind]. f_equal. f_equal. cbn [as_capture c_items]. apply items_of.
Qed.
