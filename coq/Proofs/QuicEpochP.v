(* C02, key updates: for any history of 1-RTT packets in which each direction's key generation grows by at most one from one captured
   packet to the next (RFC 9001 6: a key update is signalled by toggling the Key Phase bit), check_key_epoch selects exactly the
   sender's generation for every packet, and the generations it derives are the RFC's (key_update, C15_quic_key_update). *)
From Coq Require Import ZArith List Bool Lia.
Require Import PyLib SuiteTypes Crypto KeySchedule QuicKeys QuicPn QuicDissector QuicTls QuicSession.
Import ListNotations.
Open Scope Z_scope.

Section Epoch.
Variable C : Crypto.
Variable h : hash_alg.
Variable kl : Z.
Variable G : nat -> app_gen.                      (* the connection's application key generations *)
Hypothesis chain : forall n, key_update C (G n) h kl = Ok (G (S n)).

Definition gens_upto (n : nat) : list app_gen := map G (seq 0 n).

(* the session holds generations 0 .. L-1, both directions are inside, and the remembered phase bits are the generations' parities *)
Definition Inv (s : qsession) (gc gs : nat) : Prop :=
  exists L, qs_app s = Some (gens_upto L) /\ (gc < L)%nat /\ (gs < L)%nat /\ qs_hash s = Some h /\ qs_keylen s = kl /\
            qs_epoch_client s = Z.of_nat gc /\ qs_epoch_server s = Z.of_nat gs /\
            qs_phase_client s = Z.of_nat gc mod 2 /\ qs_phase_server s = Z.of_nat gs mod 2.

Lemma gens_upto_S n : gens_upto (S n) = gens_upto n ++ [G n].
Proof. unfold gens_upto. rewrite seq_S, map_app. reflexivity. Qed.
Lemma gens_upto_len n : len (gens_upto n) = Z.of_nat n.
Proof. unfold gens_upto, len. now rewrite map_length, seq_length. Qed.
Lemma gens_upto_nth n i : (i < n)%nat -> nth_error (gens_upto n) i = Some (G i).
Proof. intros H. unfold gens_upto. rewrite nth_error_map, nth_error_nth' with (d := 0%nat) by (rewrite seq_length; lia). rewrite seq_nth by lia. reflexivity. Qed.
Lemma gens_upto_last n : rev (gens_upto (S n)) = G n :: rev (gens_upto n).
Proof. rewrite gens_upto_S, rev_app_distr. reflexivity. Qed.

Lemma parity_step g : Z.of_nat (S g) mod 2 <> Z.of_nat g mod 2.
Proof. rewrite Nat2Z.inj_succ. intros H. pose proof (Z.mod_pos_bound (Z.of_nat g) 2 ltac:(lia)). pose proof (Z.mod_pos_bound (Z.succ (Z.of_nat g)) 2 ltac:(lia)).
  assert (Z.succ (Z.of_nat g) = Z.of_nat g + 1) by lia. rewrite H2 in *. rewrite Zplus_mod in H. 
  destruct (Z.eq_dec (Z.of_nat g mod 2) 0) as [E|E]; rewrite ?E in H; cbn in H; try lia.
  assert (Z.of_nat g mod 2 = 1) by lia. rewrite H3 in H. cbn in H. lia.
Qed.

(* a packet of the client at generation g' (the current one or the next) *)
Theorem client_packet s gc gs g' : Inv s gc gs -> (g' = gc \/ g' = S gc) ->
  exists s', check_key_epoch C s (Z.of_nat g' mod 2) false = Ok s' /\ Inv s' g' gs /\
             exists gens, qs_app s' = Some gens /\ nth_error gens (Z.to_nat (qs_epoch_client s')) = Some (G g').
Proof.
  intros (L & Ha & Hc & Hs & Hh & Hk & Hec & Hes & Hpc & Hps) Hg. unfold check_key_epoch. cbn [negb andb].
  rewrite Ha, Hpc, Hec, Hes.
  destruct Hg as [->| ->].
  - rewrite Z.eqb_refl. cbn [negb]. rewrite gens_upto_len.
    replace (Z.of_nat gc =? Z.of_nat L) with false by (symmetry; apply Z.eqb_neq; lia).
    replace (Z.of_nat gs =? Z.of_nat L) with false by (symmetry; apply Z.eqb_neq; lia). cbn [orb bind].
    eexists. split; [reflexivity|]. split.
    + exists L. cbn [qs_with qs_app qs_hash qs_keylen qs_epoch_client qs_epoch_server qs_phase_client qs_phase_server]. repeat split; auto.
    + eexists. split; [reflexivity|]. cbn [qs_with qs_app qs_hash qs_keylen qs_epoch_client qs_epoch_server qs_phase_client qs_phase_server]. rewrite Nat2Z.id. now apply gens_upto_nth.
  - replace (Z.of_nat gc mod 2 =? Z.of_nat (S gc) mod 2) with false by (symmetry; apply Z.eqb_neq; intro E; apply (parity_step gc); now symmetry).
    cbn [negb]. rewrite gens_upto_len.
    replace (Z.of_nat gs =? Z.of_nat L) with false by (symmetry; apply Z.eqb_neq; lia). rewrite orb_false_r.
    destruct (Z.eqb_spec (Z.of_nat gc + 1) (Z.of_nat L)) as [E|E].
    + (* a new generation is derived from the last one *)
      assert (HL : L = S gc) by lia. subst L. rewrite gens_upto_last, Hh, Hk, chain. cbn [bind].
      eexists. split; [reflexivity|]. split.
      * exists (S (S gc)). cbn [qs_with qs_app qs_hash qs_keylen qs_epoch_client qs_epoch_server qs_phase_client qs_phase_server]. rewrite <- gens_upto_S. repeat split; auto; try lia; rewrite ?Nat2Z.inj_succ; try lia.
      * eexists. split; [reflexivity|]. cbn [qs_with qs_app qs_hash qs_keylen qs_epoch_client qs_epoch_server qs_phase_client qs_phase_server]. replace (Z.to_nat (Z.of_nat gc + 1)) with (S gc) by lia. rewrite <- gens_upto_S. apply gens_upto_nth. lia.
    + cbn [bind]. eexists. split; [reflexivity|]. split.
      * exists L. cbn [qs_with qs_app qs_hash qs_keylen qs_epoch_client qs_epoch_server qs_phase_client qs_phase_server]. repeat split; auto; try lia; rewrite ?Nat2Z.inj_succ; try lia.
      * eexists. split; [reflexivity|]. cbn [qs_with qs_app qs_hash qs_keylen qs_epoch_client qs_epoch_server qs_phase_client qs_phase_server]. replace (Z.to_nat (Z.of_nat gc + 1)) with (S gc) by lia. apply gens_upto_nth. lia.
Qed.

(* and of the server *)
Theorem server_packet s gc gs g' : Inv s gc gs -> (g' = gs \/ g' = S gs) ->
  exists s', check_key_epoch C s (Z.of_nat g' mod 2) true = Ok s' /\ Inv s' gc g' /\
             exists gens, qs_app s' = Some gens /\ nth_error gens (Z.to_nat (qs_epoch_server s')) = Some (G g').
Proof.
  intros (L & Ha & Hc & Hs & Hh & Hk & Hec & Hes & Hpc & Hps) Hg. unfold check_key_epoch. cbn [negb andb].
  rewrite Ha, Hps, Hec, Hes.
  destruct Hg as [->| ->].
  - rewrite Z.eqb_refl. cbn [negb]. rewrite gens_upto_len.
    replace (Z.of_nat gc =? Z.of_nat L) with false by (symmetry; apply Z.eqb_neq; lia).
    replace (Z.of_nat gs =? Z.of_nat L) with false by (symmetry; apply Z.eqb_neq; lia). cbn [orb bind].
    eexists. split; [reflexivity|]. split.
    + exists L. cbn [qs_with qs_app qs_hash qs_keylen qs_epoch_client qs_epoch_server qs_phase_client qs_phase_server]. repeat split; auto.
    + eexists. split; [reflexivity|]. cbn [qs_with qs_app qs_hash qs_keylen qs_epoch_client qs_epoch_server qs_phase_client qs_phase_server]. rewrite Nat2Z.id. now apply gens_upto_nth.
  - replace (Z.of_nat gs mod 2 =? Z.of_nat (S gs) mod 2) with false by (symmetry; apply Z.eqb_neq; intro E; apply (parity_step gs); now symmetry).
    cbn [negb]. rewrite gens_upto_len.
    replace (Z.of_nat gc =? Z.of_nat L) with false by (symmetry; apply Z.eqb_neq; lia). cbn [orb].
    destruct (Z.eqb_spec (Z.of_nat gs + 1) (Z.of_nat L)) as [E|E].
    + assert (HL : L = S gs) by lia. subst L. rewrite gens_upto_last, Hh, Hk, chain. cbn [bind].
      eexists. split; [reflexivity|]. split.
      * exists (S (S gs)). cbn [qs_with qs_app qs_hash qs_keylen qs_epoch_client qs_epoch_server qs_phase_client qs_phase_server]. rewrite <- gens_upto_S. repeat split; auto; try lia; rewrite ?Nat2Z.inj_succ; try lia.
      * eexists. split; [reflexivity|]. cbn [qs_with qs_app qs_hash qs_keylen qs_epoch_client qs_epoch_server qs_phase_client qs_phase_server]. replace (Z.to_nat (Z.of_nat gs + 1)) with (S gs) by lia. rewrite <- gens_upto_S. apply gens_upto_nth. lia.
    + cbn [bind]. eexists. split; [reflexivity|]. split.
      * exists L. cbn [qs_with qs_app qs_hash qs_keylen qs_epoch_client qs_epoch_server qs_phase_client qs_phase_server]. repeat split; auto; try lia; rewrite ?Nat2Z.inj_succ; try lia.
      * eexists. split; [reflexivity|]. cbn [qs_with qs_app qs_hash qs_keylen qs_epoch_client qs_epoch_server qs_phase_client qs_phase_server]. replace (Z.to_nat (Z.of_nat gs + 1)) with (S gs) by lia. apply gens_upto_nth. lia.
Qed.
End Epoch.
