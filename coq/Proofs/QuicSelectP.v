(* C02: which key a 1-RTT packet is given.  For a session in step with the connection's key generations (QuicEpochP.Inv) a packet of
   generation g' -- the direction's current one or the next, announced by the key-phase bit -- is handed the cipher and the key and IV
   of G g' of its direction; the session moves to that generation and nothing else changes.  This is the hypothesis on
   select_decryptor of C02_one_rtt_datagram, discharged; with C02_quic_epoch_invariant_installed the chain from the hellos is closed. *)
From Coq Require Import ZArith List Bool Lia.
Require Import PyLib PyLibP SuiteTypes Crypto KeySchedule QuicKeys Varint QuicFrames QuicPn QuicDissector QuicTls Packet QuicSession QuicEpochP.
Import ListNotations.
Open Scope Z_scope.

Section Select.
Variable C : Crypto.
Variable h : hash_alg.
Variable kl : Z.
Variable G : nat -> app_gen.
Hypothesis HG : forall n, key_update C (G n) h kl = Ok (G (S n)).

Lemma cke_keeps s kp srv s' : check_key_epoch C s kp srv = Ok s' ->
  qs_cipher s' = qs_cipher s /\ qs_output s' = qs_output s /\ qs_pn s' = qs_pn s /\ qs_hp s' = qs_hp s /\ qs_tls s' = qs_tls s /\
  qs_handshake s' = qs_handshake s /\ qs_initial s' = qs_initial s /\ qs_client_cids s' = qs_client_cids s /\ qs_server_cids s' = qs_server_cids s.
Proof.
  unfold check_key_epoch. destruct (qs_app s) as [gens|]; [|discriminate].
  match goal with |- bind ?F _ = _ -> _ => destruct F as [g|]; [|discriminate] end. cbn [bind]. intros H. injection H as <-. repeat split; reflexivity.
Qed.

Theorem one_rtt_key_selected s gc gs g' (srv : bool) pk ci :
  Inv h kl G s gc gs -> qs_cipher s = Some ci -> qp_type pk = QOneRtt -> qp_isserver pk = srv ->
  (g' = (if srv then gs else gc) \/ g' = S (if srv then gs else gc)) -> qp_key_phase pk = Z.of_nat g' mod 2 ->
  exists s', select_decryptor C s pk = (s', Some (ci, if srv then (g_skey (G g'), g_siv (G g')) else (g_ckey (G g'), g_civ (G g')))) /\
             Inv h kl G s' (if srv then gc else g') (if srv then g' else gs) /\
             qs_output s' = qs_output s /\ qs_pn s' = qs_pn s /\ qs_hp s' = qs_hp s /\ qs_tls s' = qs_tls s /\ qs_cipher s' = Some ci.
Proof.
  intros HI Hci Hty Hsrv Hg Hkp. unfold select_decryptor. rewrite Hty, Hsrv, Hkp. destruct srv.
  - destruct (server_packet C h kl G HG s gc gs g' HI Hg) as (s' & Hc & HI' & gens & Ha & Hn).
    rewrite Hc. destruct (cke_keeps _ _ _ _ Hc) as (K1 & K2 & K3 & K4 & K5 & _). rewrite Ha, K1, Hci, Hn.
    exists s'. repeat split; try assumption; congruence.
  - destruct (client_packet C h kl G HG s gc gs g' HI Hg) as (s' & Hc & HI' & gens & Ha & Hn).
    rewrite Hc. destruct (cke_keeps _ _ _ _ Hc) as (K1 & K2 & K3 & K4 & K5 & _). rewrite Ha, K1, Hci, Hn.
    exists s'. repeat split; try assumption; congruence.
Qed.
End Select.
