(* Lemmas about PyLib. *)
From Coq Require Import ZArith List Bool Lia.
Require Import PyLib.
Import ListNotations.
Open Scope Z_scope.

Lemma len_app {A} (a b : list A) : len (a ++ b) = len a + len b.
Proof. unfold len. rewrite app_length. lia. Qed.
Lemma len_nonneg {A} (a : list A) : 0 <= len a.
Proof. unfold len. lia. Qed.
Lemma len_nil {A} : len (@nil A) = 0. Proof. reflexivity. Qed.
Lemma len_cons {A} (x : A) l : len (x :: l) = 1 + len l.
Proof. unfold len. cbn [length]. lia. Qed.

Lemma skipn_skipn' {A} n a (d : list A) : skipn a (skipn n d) = skipn (n + a) d.
Proof. revert d. induction n as [|n IH]; intros d; [reflexivity|]. destruct d; [rewrite !skipn_nil; reflexivity|]. cbn [skipn Nat.add]. apply IH. Qed.

(* the clamped slices are the plain firstn/skipn ones *)
Lemma skipn_clamp {A} (d : list A) a : skipn (Z.to_nat (Z.min a (len d))) d = skipn (Z.to_nat a) d.
Proof.
  unfold len. destruct (Z.le_gt_cases a (Z.of_nat (length d))).
  - rewrite Z.min_l by lia. reflexivity.
  - rewrite Z.min_r by lia. rewrite Nat2Z.id. rewrite skipn_all. symmetry. apply skipn_all2. lia.
Qed.
Lemma firstn_clamp {A} (d l : list A) n : (length l <= length d)%nat ->
  firstn (Z.to_nat (Z.min n (len d))) l = firstn (Z.to_nat n) l.
Proof.
  intros Hl. unfold len. destruct (Z.le_gt_cases n (Z.of_nat (length d))).
  - rewrite Z.min_l by lia. reflexivity.
  - rewrite Z.min_r by lia. rewrite Nat2Z.id. rewrite !firstn_all2 by lia. reflexivity.
Qed.
Lemma slice_eq {A} (d : list A) a b : slice d a b = firstn (Z.to_nat (b - a)) (skipn (Z.to_nat a) d).
Proof. unfold slice. rewrite skipn_clamp. apply firstn_clamp. rewrite skipn_length. lia. Qed.
Lemma slice_from_eq {A} (d : list A) a : slice_from d a = skipn (Z.to_nat a) d.
Proof. apply skipn_clamp. Qed.
Lemma slice_to_eq {A} (d : list A) b : slice_to d b = firstn (Z.to_nat b) d.
Proof. unfold slice_to. apply firstn_clamp. lia. Qed.

Lemma be_acc_app l1 l2 a : be_acc (l1 ++ l2) a = be_acc l2 (be_acc l1 a).
Proof. revert a. induction l1 as [|x l1 IH]; intros a; cbn [app be_acc]; auto. Qed.

Lemma be_acc_shift l a : be_acc l a = a * 256 ^ len l + be_acc l 0.
Proof.
  revert a. induction l as [|x l IH]; intros a; cbn [be_acc].
  - rewrite len_nil. cbn. lia.
  - rewrite len_cons. rewrite (IH (a * 256 + x)), (IH (0 * 256 + x)).
    rewrite Z.pow_add_r by (pose proof (len_nonneg l); lia). lia.
Qed.

Lemma to_be_fuel_length k : forall n acc, length (to_be_fuel k n acc) = (k + length acc)%nat.
Proof. induction k as [|k IH]; intros n acc; cbn [to_be_fuel]; [reflexivity|]. rewrite IH. cbn [length]. lia. Qed.

Lemma be_to_be_fuel k : forall n acc,
  be_acc (to_be_fuel k n acc) 0 = (n mod 256 ^ Z.of_nat k) * 256 ^ len acc + be_acc acc 0.
Proof.
  induction k as [|k IH]; intros n acc.
  - cbn [to_be_fuel]. change (256 ^ Z.of_nat 0) with 1. rewrite Z.mod_1_r. lia.
  - cbn [to_be_fuel]. rewrite IH. cbn [be_acc]. rewrite len_cons.
    rewrite (be_acc_shift acc (0 * 256 + n mod 256)).
    rewrite Z.pow_add_r by (pose proof (len_nonneg acc); lia).
    replace (Z.of_nat (S k)) with (1 + Z.of_nat k) by lia.
    rewrite Z.pow_add_r by lia. change (256 ^ 1) with 256.
    assert (H256: 0 < 256 ^ Z.of_nat k) by (apply Z.pow_pos_nonneg; lia).
    rewrite (Z.rem_mul_r n 256 (256 ^ Z.of_nat k)) by lia. lia.
Qed.

Lemma from_be_to_be_total n k : 0 <= k -> 0 <= n < 256 ^ k -> from_be (to_be_total n k) = n.
Proof.
  intros Hk Hn. unfold from_be, to_be_total. rewrite be_to_be_fuel. cbn [be_acc]. rewrite len_nil.
  rewrite Z2Nat.id by lia. rewrite Z.mod_small by lia. cbn. lia.
Qed.

Lemma len_to_be_total n k : 0 <= k -> len (to_be_total n k) = k.
Proof. intros. unfold len, to_be_total. rewrite to_be_fuel_length. cbn [length]. lia. Qed.

Lemma pow256 k : 0 <= k -> 2 ^ (8 * k) = 256 ^ k.
Proof. intros. rewrite Z.pow_mul_r by lia. reflexivity. Qed.

Lemma to_be_ok n k : 0 <= k -> 0 <= n < 256 ^ k -> to_be n k = Ok (to_be_total n k).
Proof.
  intros Hk Hn. unfold to_be. rewrite pow256 by lia.
  destruct (n <? 0) eqn:E1; [apply Z.ltb_lt in E1; lia|].
  destruct (256 ^ k <=? n) eqn:E2; [apply Z.leb_le in E2; lia|].
  destruct (k <? 0) eqn:E3; [apply Z.ltb_lt in E3; lia|]. reflexivity.
Qed.

Lemma be_acc_nonneg l a : bytes_ok l -> 0 <= a -> 0 <= be_acc l a.
Proof.
  revert a. induction l as [|x r IH]; intros a Hok Ha; cbn [be_acc]; [lia|].
  inversion Hok; subst. apply IH; [assumption|lia].
Qed.

Lemma from_be_bound l : bytes_ok l -> 0 <= from_be l < 256 ^ len l.
Proof.
  unfold from_be. induction l as [|x r IH] using rev_ind; intros Hok.
  - cbn. lia.
  - apply Forall_app in Hok as [Hr Hx]. inversion Hx; subst. specialize (IH Hr).
    rewrite be_acc_app. cbn [be_acc]. rewrite len_app. change (len [x]) with 1.
    rewrite Z.pow_add_r by (pose proof (len_nonneg r); lia). change (256 ^ 1) with 256. lia.
Qed.

Lemma to_be_fuel_ok k : forall n acc, bytes_ok acc -> bytes_ok (to_be_fuel k n acc).
Proof.
  induction k as [|k IH]; intros n acc H; cbn [to_be_fuel]; [exact H|].
  apply IH. constructor; [|exact H]. apply Z.mod_pos_bound. lia.
Qed.
Lemma to_be_total_ok n k : bytes_ok (to_be_total n k).
Proof. apply to_be_fuel_ok. constructor. Qed.

Lemma bytes_okb_ok l : bytes_okb l = true <-> bytes_ok l.
Proof.
  unfold bytes_okb, bytes_ok. rewrite forallb_forall, Forall_forall. split; intros H x Hx; specialize (H x Hx).
  - apply andb_prop in H as [H1 H2]. apply Z.leb_le in H1. apply Z.ltb_lt in H2. lia.
  - apply andb_true_intro. split; [apply Z.leb_le|apply Z.ltb_lt]; lia.
Qed.

Lemma xor_zip_length a b : length (xor_zip a b) = Nat.min (length a) (length b).
Proof. revert b. induction a as [|x a IH]; intros [|y b]; cbn [xor_zip length]; auto. rewrite IH. reflexivity. Qed.

Lemma Forall_firstn' {A} (P : A -> Prop) n l : Forall P l -> Forall P (firstn n l).
Proof. revert l. induction n as [|n IH]; intros [|x l] H; cbn; try constructor; inversion H; subst; auto. Qed.
Lemma Forall_skipn' {A} (P : A -> Prop) n l : Forall P l -> Forall P (skipn n l).
Proof. revert l. induction n as [|n IH]; intros [|x l] H; cbn; auto. inversion H; subst; auto. Qed.
Lemma bytes_ok_slice d a b : bytes_ok d -> bytes_ok (slice d a b).
Proof. intros H. rewrite slice_eq. unfold bytes_ok in *. apply Forall_firstn', Forall_skipn', H. Qed.
Lemma bytes_ok_app a b : bytes_ok a -> bytes_ok b -> bytes_ok (a ++ b).
Proof. intros. apply Forall_app; auto. Qed.
