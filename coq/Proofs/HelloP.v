(* C01, the ServerHello: what Session.handle_tls_server_hello reads from a ServerHello encoded per RFC 5246 7.4.1.3 / RFC 8446 4.1.3
   -- any session id, any extensions, with or without an extensions field, followed by anything in the same record (further handshake
   messages) -- is exactly what was encoded: random, cipher suite, compression method, the extension dictionary (a later duplicate
   replaces an earlier one), and the version that record version, handshake version and supported_versions extension select. *)
From Coq Require Import ZArith List Bool Lia.
From Coq Require String.
Require Import PyLib PyLibP SuiteTypes SuiteParser Crypto KeySchedule Packet Reassembly Decryptor TlsSession Hs13P QuicShortP QuicLongP.
Import ListNotations.
Open Scope Z_scope.

(* an extension: 2-byte type, 2-byte length, data *)
Definition enc_ext (e : bytes * bytes) : bytes := fst e ++ to_be_total (len (snd e)) 2 ++ snd e.
Definition ext_ok (e : bytes * bytes) : Prop := len (fst e) = 2 /\ len (snd e) < 65536.
Definition enc_exts (es : list (bytes * bytes)) : bytes := concat (map enc_ext es).

(* dict semantics of the walk: a later entry with the same type replaces the earlier one and moves to the end *)
Definition dict_add (acc : list (bytes * bytes)) (e : bytes * bytes) : list (bytes * bytes) :=
  filter (fun x => negb (bytes_eqb (fst x) (fst e))) acc ++ [e].

Lemma enc_ext_len e : ext_ok e -> len (enc_ext e) = 4 + len (snd e).
Proof. intros [H1 H2]. unfold enc_ext. rewrite !len_app, H1, len_to_be_total by lia. lia. Qed.

Lemma ext_walk_spec es : Forall ext_ok es -> forall fuel pre post acc, (length es <= fuel)%nat ->
  ext_walk fuel (pre ++ enc_exts es ++ post) (len pre) (len pre + len (enc_exts es)) acc = fold_left dict_add es acc.
Proof.
  induction 1 as [|e es He _ IH]; intros fuel pre post acc Hf.
  - cbn [enc_exts map concat fold_left]. change (len []) with 0. rewrite Z.add_0_r.
    destruct fuel; cbn [ext_walk]; rewrite Z.ltb_irrefl; reflexivity.
  - destruct fuel as [|fuel]; [cbn in Hf; lia|]. cbn [length] in Hf. cbn [ext_walk fold_left].
    unfold enc_exts. cbn [map concat]. fold (enc_exts es). rewrite len_app.
    pose proof (enc_ext_len e He) as Hl. pose proof (len_nonneg (snd e)). pose proof (len_nonneg (enc_exts es)). pose proof (len_nonneg pre) as Hp.
    replace (len pre <? len pre + (len (enc_ext e) + len (enc_exts es))) with true by (symmetry; apply Z.ltb_lt; lia).
    destruct He as [Ht Hd].
    (* the pieces of this extension *)
    set (bin := pre ++ (enc_ext e ++ enc_exts es) ++ post).
    set (lb := to_be_total (len (snd e)) 2).
    assert (L2 : len lb = 2) by (apply len_to_be_total; lia).
    assert (Ebin : bin = pre ++ fst e ++ lb ++ snd e ++ (enc_exts es ++ post)) by (unfold bin, enc_ext, lb; rewrite <- !app_assoc; reflexivity).
    assert (Hk : slice bin (len pre) (len pre + 2) = fst e).
    { rewrite Ebin, slice_skip by lia. replace (len pre - len pre) with 0 by lia. replace (len pre + 2 - len pre) with 2 by lia. apply slice_head. symmetry. exact Ht. }
    assert (Hel : from_be (slice bin (len pre + 2) (len pre + 4)) = len (snd e)).
    { rewrite Ebin, slice_skip by lia. rewrite slice_skip by lia. rewrite Ht.
      replace (len pre + 2 - len pre - 2) with 0 by lia. replace (len pre + 4 - len pre - 2) with 2 by lia. rewrite slice_head by (symmetry; exact L2).
      apply from_be_to_be_total; [lia|]. change (256 ^ 2) with 65536. lia. }
    assert (Hv : slice bin (len pre + 4) (len pre + 4 + len (snd e)) = snd e).
    { rewrite Ebin, slice_skip by lia. rewrite slice_skip by lia. rewrite slice_skip by lia. rewrite Ht, L2.
      replace (len pre + 4 - len pre - 2 - 2) with 0 by lia. replace (len pre + 4 + len (snd e) - len pre - 2 - 2) with (len (snd e)) by lia. apply slice_head. reflexivity. }
    cbv zeta. rewrite Hel, Hk, Hv.
    replace (len pre + len (snd e) + 4) with (len (pre ++ enc_ext e)) by (rewrite len_app, Hl; lia).
    replace (len pre + (len (enc_ext e) + len (enc_exts es))) with (len (pre ++ enc_ext e) + len (enc_exts es)) by (rewrite len_app; lia).
    replace bin with ((pre ++ enc_ext e) ++ enc_exts es ++ post) by (unfold bin; rewrite <- !app_assoc; reflexivity).
    rewrite IH by lia. destruct e as [k v]. reflexivity.
Qed.

Lemma exts_count es : Forall ext_ok es -> Z.of_nat (length es) <= len (enc_exts es).
Proof.
  induction 1 as [|e es He _ IH]; [cbn; lia|]. unfold enc_exts. cbn [map concat length]. fold (enc_exts es). rewrite len_app, (enc_ext_len e He).
  pose proof (len_nonneg (snd e)). lia.
Qed.

Lemma ext_walk_whole es fuel : Forall ext_ok es -> (length es <= fuel)%nat -> ext_walk fuel (enc_exts es) 0 (len (enc_exts es)) [] = fold_left dict_add es [].
Proof.
  intros Hok Hf. pose proof (ext_walk_spec es Hok fuel [] [] [] Hf) as H. cbn [app] in H. rewrite app_nil_r in H. change (len []) with 0 in H. rewrite Z.add_0_l in H. exact H.
Qed.

Section ServerHello.
Variable C : Crypto.
Variable tbl : list (Z * String.string).
Variable parts : SuiteTypes.parts.
Variable keylog : list secret.

(* the optional extensions field *)
Definition ext_field (es : option (list (bytes * bytes))) : bytes :=
  match es with None => [] | Some l => to_be_total (len (enc_exts l)) 2 ++ enc_exts l end.
Definition sh_message (hv random sid suite : bytes) (comp : Z) (es : option (list (bytes * bytes))) : bytes :=
  let body := hv ++ random ++ [len sid] ++ sid ++ suite ++ [comp] ++ ext_field es in
  [2] ++ to_be_total (len body) 3 ++ body.
Definition exts_dict (es : option (list (bytes * bytes))) : list (bytes * bytes) :=
  match es with None => [] | Some l => fold_left dict_add l [] end.

Theorem server_hello_parsed s r hv random sid suite comp es more :
  ts_client_hello_seen s = true ->
  r_body r = sh_message hv random sid suite comp es ++ more ->
  len hv = 2 -> len random = 32 -> len sid < 256 -> len suite = 2 -> 0 <= comp < 256 ->
  match es with None => True | Some l => Forall ext_ok l /\ len (enc_exts l) < 65536 end ->
  handle_tls_server_hello C tbl parts keylog s r =
    let exts := exts_dict es in
    let is13 := match ext_get [0; 43] exts with Some v => bytes_eqb v [3; 4] | None => false end in
    let s1 := upd s true true (ts_server_cc s) (ts_client_cc s) (ts_client_random s) (ts_version s) exts comp (ts_decryptor s) in
    let rv := from_be (r_version r) in
    let hvn := from_be hv in
    match (if rv =? 0x0300 then Some SSL30 else if rv =? 0x0302 then Some TLS11
           else if hvn =? 0x0301 then Some TLS10 else if hvn =? 0x0303 then Some (if is13 then TLS13 else TLS12) else None) with
    | None => Ok (set_can s1 false)
    | Some v => generate_keys C tbl parts keylog (upd s1 (ts_can_decrypt s1) true (ts_server_cc s1) (ts_client_cc s1) (ts_client_random s1) (VSet v) exts comp (ts_decryptor s1)) v suite random
    end.
Proof.
  intros Hch Hb Hhv Hrnd Hsid Hsu Hcomp Hes.
  pose proof (len_nonneg sid) as Hs0.
  set (ef := ext_field es).
  assert (Hef : 0 <= len ef) by apply len_nonneg.
  set (body := hv ++ random ++ [len sid] ++ sid ++ suite ++ [comp] ++ ef).
  assert (Lbody : len body = 38 + len sid + len ef) by (unfold body; cbn [app]; len_norm; lia).
  assert (Lbody3 : len body < 256 ^ 3).
  { rewrite Lbody. change (256 ^ 3) with 16777216. unfold ef, ext_field. destruct es as [l|]; [|change (len []) with 0; lia].
    destruct Hes as [_ Hl]. rewrite len_app, len_to_be_total by lia. lia. }
  set (l3 := to_be_total (len body) 3).
  assert (Ll3 : len l3 = 3) by (apply len_to_be_total; lia).
  (* the record body as a list of parts *)
  set (ps := [[2]; l3; hv; random; [len sid]; sid; suite; [comp]; ef; more]).
  assert (Eb : r_body r = concat ps).
  { rewrite Hb. unfold sh_message. fold ef. fold body. fold l3. unfold ps, body. cbn [concat]. rewrite app_nil_r, <- !app_assoc. reflexivity. }
  assert (Ltot : len (concat ps) = 42 + len sid + len ef + len more) by (unfold ps; cbn [concat app]; len_norm; lia).
  pose proof (len_nonneg more) as Hm0.
  unfold handle_tls_server_hello. rewrite Hch. cbn [negb]. rewrite Eb.
  replace (len (concat ps) <? 39) with false by (symmetry; apply Z.ltb_ge; lia).
  assert (Hsidx : nth 38 (concat ps) 0 = len sid).
  { assert (Hi : index (concat ps) 38 = Ok (len sid)) by (apply (index_part ps 4); [unfold ps; cbn [length]; lia|unfold ps; cbn [firstn concat app]; len_norm; lia|reflexivity]).
    unfold index in Hi. change (38 <? 0) with false in Hi. cbv iota in Hi. destruct ((38 <? 0) || (len (concat ps) <=? 38)); [discriminate|]. injection Hi as Hi. exact Hi. }
  cbv zeta. rewrite Hsidx. set (idx := 38 + len sid + 1).
  replace (len (concat ps) <? idx + 3) with false by (symmetry; apply Z.ltb_ge; unfold idx; lia).
  assert (Hrandom : slice (concat ps) 6 38 = random).
  { pose proof (slice_part ps 3 ltac:(unfold ps; cbn [length]; lia)) as P. unfold ps in P at 2 3 4 5. cbn [firstn concat nth app] in P. revert P. len_norm. rewrite Ll3, Hhv, Hrnd. intros P. exact P. }
  assert (Hsuite : slice (concat ps) idx (idx + 2) = suite).
  { pose proof (slice_part ps 6 ltac:(unfold ps; cbn [length]; lia)) as P. unfold ps in P at 2 3 4 5. cbn [firstn concat nth app] in P. revert P. len_norm. rewrite Ll3, Hhv, Hrnd, Hsu. intros P.
    replace (1 + (3 + (2 + (32 + (1 + (len sid + 0)))))) with idx in P by (unfold idx; lia). exact P. }
  assert (Hcompx : nth (Z.to_nat (idx + 2)) (concat ps) 0 = comp).
  { assert (Hi : index (concat ps) (idx + 2) = Ok comp) by (apply (index_part ps 7); [unfold ps; cbn [length]; lia|unfold ps; cbn [firstn concat app]; len_norm; unfold idx; lia|reflexivity]).
    unfold index in Hi. replace (idx + 2 <? 0) with false in Hi by (symmetry; apply Z.ltb_ge; unfold idx; lia). cbv iota in Hi.
    destruct ((idx + 2 <? 0) || (len (concat ps) <=? idx + 2)); [discriminate|]. injection Hi as Hi. exact Hi. }
  assert (Hlen3 : from_be (slice (concat ps) 1 4) = len body).
  { pose proof (slice_part ps 1 ltac:(unfold ps; cbn [length]; lia)) as P. unfold ps in P at 2 3 4 5. cbn [firstn concat nth app] in P. revert P. len_norm. rewrite Ll3. intros P.
    replace (1 + 0) with 1 in P by lia. replace (1 + 3) with 4 in P by lia. rewrite P. apply from_be_to_be_total; lia. }
  assert (Hhvx : slice (concat ps) 4 6 = hv).
  { pose proof (slice_part ps 2 ltac:(unfold ps; cbn [length]; lia)) as P. unfold ps in P at 2 3 4 5. cbn [firstn concat nth app] in P. revert P. len_norm. rewrite Ll3, Hhv. intros P. exact P. }
  rewrite Hrandom, Hsuite, Hcompx, Hlen3, Hhvx.
  set (message_end := 4 + len body).
  assert (Hme : message_end = idx + 3 + len ef) by (unfold message_end, idx; lia).
  (* the extensions *)
  assert (Hexts : (let has_ext := idx + 5 <=? message_end in
                   let extensions_length := if has_ext then from_be (slice (concat ps) (idx + 3) (idx + 5)) else 0 in
                   let extensions_bin := if has_ext then slice (concat ps) (idx + 5) (Z.min (idx + 5 + extensions_length) message_end) else [] in
                   ext_walk (S (Z.to_nat extensions_length)) extensions_bin 0 extensions_length []) = exts_dict es).
  { cbv zeta. unfold ef, ext_field in Hme. destruct es as [l|].
    - destruct Hes as [Hok Hl]. pose proof (len_nonneg (enc_exts l)) as Hl0.
      rewrite len_app, len_to_be_total in Hme by lia.
      replace (idx + 5 <=? message_end) with true by (symmetry; apply Z.leb_le; lia).
      assert (Hef2 : exists efrest, concat ps = concat [[2]; l3; hv; random; [len sid]; sid; suite; [comp]; to_be_total (len (enc_exts l)) 2; enc_exts l; efrest]).
      { exists more. unfold ps, ef, ext_field. cbn [concat]. rewrite <- !app_assoc. reflexivity. }
      destruct Hef2 as (efrest & Eps). rewrite Eps.
      set (ps2 := [[2]; l3; hv; random; [len sid]; sid; suite; [comp]; to_be_total (len (enc_exts l)) 2; enc_exts l; efrest]).
      assert (L2 : len (to_be_total (len (enc_exts l)) 2) = 2) by (apply len_to_be_total; lia).
      assert (Hel : from_be (slice (concat ps2) (idx + 3) (idx + 5)) = len (enc_exts l)).
      { pose proof (slice_part ps2 8 ltac:(unfold ps2; cbn [length]; lia)) as P. unfold ps2 in P at 2 3 4 5. cbn [firstn concat nth app] in P. revert P. len_norm. rewrite Ll3, Hhv, Hrnd, Hsu, L2. intros P.
        replace (1 + (3 + (2 + (32 + (1 + (len sid + (2 + (1 + 0)))))))) with (idx + 3) in P by (unfold idx; lia). replace (idx + 3 + 2) with (idx + 5) in P by lia. rewrite P.
        apply from_be_to_be_total; [lia|]. change (256 ^ 2) with 65536. lia. }
      rewrite Hel. replace (Z.min (idx + 5 + len (enc_exts l)) message_end) with (idx + 5 + len (enc_exts l)) by lia.
      assert (Hbin : slice (concat ps2) (idx + 5) (idx + 5 + len (enc_exts l)) = enc_exts l).
      { pose proof (slice_part ps2 9 ltac:(unfold ps2; cbn [length]; lia)) as P. unfold ps2 in P at 2 3 4 5. cbn [firstn concat nth app] in P. revert P. len_norm. rewrite Ll3, Hhv, Hrnd, Hsu, L2. intros P.
        replace (1 + (3 + (2 + (32 + (1 + (len sid + (2 + (1 + (2 + 0))))))))) with (idx + 5) in P by (unfold idx; lia). exact P. }
      rewrite Hbin. cbn [exts_dict]. apply ext_walk_whole; [exact Hok|]. pose proof (exts_count l Hok). lia.
    - change (len []) with 0 in Hme. replace (idx + 5 <=? message_end) with false by (symmetry; apply Z.leb_gt; lia).
      cbn [exts_dict ext_walk Z.to_nat]. rewrite Z.ltb_irrefl. reflexivity. }
  cbv zeta in Hexts. fold message_end. rewrite Hexts. reflexivity.
Qed.
End ServerHello.

(* ---------------- from the ServerHello to the decryptor, TLS 1.3 ---------------- *)
Require Import C01P C01SessionP TlsRecords.
Section Keys13.
Variable C : Crypto.
Variable tbl : list (Z * String.string).
Variable parts : SuiteTypes.parts.
Variable keylog : list secret.

(* generate_keys for TLS 1.3: the suite resolves to an AEAD algorithm, the key log has lines for this client random, and the
   derivation yields all eight values (C15_tls13: each is HKDF-Expand-Label of the last line with its label): the session gets the
   decryptor of C01_fresh_decryptor -- both directions on their handshake keys, sequence numbers 0, application keys in store *)
Theorem tls13_keys_installed s suite sr cs a kl k x xs chk chi shk shi cak cai sak sai :
  split_cipher_suite tbl parts (from_be suite) = Some cs -> algo_of cs = Some a -> (a = AESGCM \/ a = AESCCM \/ a = ChaCha20Poly1305) ->
  s_keylen cs = Some kl -> find_session_secrets keylog s = x :: xs -> dev_tls_13_keys C (x :: xs) kl (s_mac cs) = Ok k ->
  client_hs_key k = Some chk -> client_hs_iv k = Some chi -> server_hs_key k = Some shk -> server_hs_iv k = Some shi ->
  client_app_key k = Some cak -> client_app_iv k = Some cai -> server_app_key k = Some sak -> server_app_iv k = Some sai ->
  exists d, generate_keys C tbl parts keylog s TLS13 suite sr = Ok (set_dec s (Some d)) /\ class13 a d /\ d_tag_length d = s_tag cs /\
            cur_key d true = Some shk /\ cur_iv d true = Some shi /\ cur_seq d true = 0 /\
            cur_key d false = Some chk /\ cur_iv d false = Some chi /\ cur_seq d false = 0 /\
            switch_ready d true sak sai /\ switch_ready d false cak cai.
Proof.
  intros Hs Ha Haa Hkl Hf Hk H1 H2 H3 H4 H5 H6 H7 H8.
  unfold generate_keys. rewrite Hs, Hf. unfold derive_session_keys. rewrite Hkl, Hk. cbn [rmap]. rewrite Ha.
  match goal with |- context [new_decryptor (Some a) (K13 k) TLS13 ?ml (s_tag cs) ?bl ?ex ?cm] =>
    destruct (fresh_decryptor a (s_tag cs) k ml bl ex cm chk chi shk shi cak cai sak sai Haa H1 H2 H3 H4 H5 H6 H7 H8) as (d & Hd & Hrest) end.
  rewrite Hd. exists d. split; [reflexivity|exact Hrest].
Qed.
End Keys13.

(* the premises about the suite hold for the TLS 1.3 suites of the table regenerated from the source *)
Require SuiteTable.
Example tls13_suites_resolve :
  forallb (fun code => match split_cipher_suite SuiteTable.table SuiteTable.parts code with
                       | Some cs => match algo_of cs, s_keylen cs with
                                    | Some AESGCM, Some _ | Some AESCCM, Some _ | Some ChaCha20Poly1305, Some _ => true | _, _ => false end
                       | None => false end) [0x1301; 0x1302; 0x1303; 0x1304; 0x1305] = true.
Proof. vm_compute. reflexivity. Qed.
