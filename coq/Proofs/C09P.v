(* C09: the export depends only on which secrets are supplied, not on how *)
From Coq Require Import ZArith List Bool Lia.
Require Import PyLib SuiteTypes Crypto KeySchedule Packet Reassembly Decryptor TlsSession OutputBuilder Frames QuicFrames QuicSession Main Keylog.
Import ListNotations.
Open Scope Z_scope.

(* ---------- lines ---------- *)
Definition no_eol (l : bytes) : Prop := forall c, In c l -> c <> 10 /\ c <> 13.

Fixpoint join (sep : bytes) (ls : list bytes) : bytes :=
  match ls with [] => [] | [l] => l | l :: r => l ++ sep ++ join sep r end.

Lemma split_lines_line l : forall cur rest, (forall c, In c l -> c <> 10) ->
  split_lines (l ++ 10 :: rest) cur = (cur ++ l) :: split_lines rest [].
Proof.
  induction l as [|c r IH]; intros cur rest H; cbn [app split_lines].
  - rewrite Z.eqb_refl, app_nil_r. reflexivity.
  - destruct (c =? 10) eqn:E; [apply Z.eqb_eq in E; exfalso; apply (H c); [now left|exact E]|].
    rewrite IH; [|intros x Hx; apply H; now right]. now rewrite <- app_assoc.
Qed.

Lemma split_lines_last l : forall cur, (forall c, In c l -> c <> 10) -> split_lines l cur = [cur ++ l].
Proof.
  induction l as [|c r IH]; intros cur H; cbn [split_lines].
  - now rewrite app_nil_r.
  - destruct (c =? 10) eqn:E; [apply Z.eqb_eq in E; exfalso; apply (H c); [now left|exact E]|].
    rewrite IH; [|intros x Hx; apply H; now right]. now rewrite <- app_assoc.
Qed.

Lemma split_join_lf ls : ls <> [] -> Forall no_eol ls -> split_lines (join [10] ls) [] = ls.
Proof.
  intros Hne H. induction ls as [|l r IH]; [contradiction|]. inversion H as [|x y Hl Hr]; subst.
  destruct r as [|l2 r2].
  - cbn [join]. rewrite split_lines_last; [reflexivity|]. intros c Hc. apply (Hl c Hc).
  - change (join [10] (l :: l2 :: r2)) with (l ++ 10 :: join [10] (l2 :: r2)).
    rewrite split_lines_line; [|intros c Hc; apply (Hl c Hc)]. cbn [app]. f_equal. apply IH; [discriminate|exact Hr].
Qed.

Lemma filter_no_cr l : no_eol l -> filter (fun c => negb (c =? 13)) l = l.
Proof.
  intros H. induction l as [|c r IH]; [reflexivity|]. cbn [filter].
  destruct (c =? 13) eqn:E; [apply Z.eqb_eq in E; exfalso; apply (proj2 (H c (or_introl eq_refl))); exact E|].
  cbn [negb]. f_equal. apply IH. intros x Hx. apply H. now right.
Qed.

Lemma filter_join_crlf ls : Forall no_eol ls -> filter (fun c => negb (c =? 13)) (join [13; 10] ls) = join [10] ls.
Proof.
  intros H. induction ls as [|l r IH]; [reflexivity|]. inversion H as [|x y Hl Hr]; subst.
  destruct r as [|l2 r2]; [cbn [join]; apply filter_no_cr; exact Hl|].
  change (join [13; 10] (l :: l2 :: r2)) with (l ++ [13; 10] ++ join [13; 10] (l2 :: r2)).
  change (join [10] (l :: l2 :: r2)) with (l ++ [10] ++ join [10] (l2 :: r2)).
  rewrite !filter_app, (filter_no_cr l Hl), (IH Hr). reflexivity.
Qed.

Lemma filter_join_lf ls : Forall no_eol ls -> filter (fun c => negb (c =? 13)) (join [10] ls) = join [10] ls.
Proof.
  intros H. induction ls as [|l r IH]; [reflexivity|]. inversion H as [|x y Hl Hr]; subst.
  destruct r as [|l2 r2]; [cbn [join]; apply filter_no_cr; exact Hl|].
  change (join [10] (l :: l2 :: r2)) with (l ++ [10] ++ join [10] (l2 :: r2)).
  rewrite !filter_app, (filter_no_cr l Hl), (IH Hr). reflexivity.
Qed.

(* the keys of a text are the keys of its lines, in order; LF or CRLF line ends *)
Theorem keys_of_lines ls : ls <> [] -> Forall no_eol ls ->
  get_keys_from_string (join [10] ls) = flat_map key_of_line ls /\
  get_keys_from_string (join [13; 10] ls) = flat_map key_of_line ls.
Proof.
  intros Hne H. unfold get_keys_from_string. rewrite filter_join_crlf, filter_join_lf by exact H.
  rewrite split_join_lf by assumption. split; reflexivity.
Qed.

(* lines that contribute nothing: blank lines, comments, anything that is not "LABEL random secret" *)
Lemma blank_line : key_of_line [] = [].
Proof. reflexivity. Qed.
Lemma comment_line l : key_of_line (35 :: l) = [].
Proof. reflexivity. Qed.
Lemma unmatched_line l : match_line l = None -> key_of_line l = [].
Proof. unfold key_of_line. now intros ->. Qed.

(* hence: interspersing such lines, or appending a final newline, changes nothing *)
Theorem decorations_ignored ls : flat_map key_of_line ls = flat_map key_of_line (filter (fun l => match match_line l with Some _ => true | None => false end) ls).
Proof.
  induction ls as [|l r IH]; [reflexivity|]. cbn [flat_map filter]. unfold key_of_line at 1.
  destruct (match_line l) as [[[a b] c]|] eqn:E; cbn [flat_map app].
  - unfold key_of_line at 2. rewrite E. cbn [app]. now rewrite IH.
  - exact IH.
Qed.

(* ---------- hex digits: upper or lower case ---------- *)
Definition upper (c : Z) : Z := if (97 <=? c) && (c <=? 102) then c - 32 else c.

Lemma hexval_upper c : is_hex c = true -> hexval (upper c) = hexval c.
Proof.
  unfold is_hex, upper, hexval. intros H.
  destruct ((97 <=? c) && (c <=? 102)) eqn:E.
  - apply andb_true_iff in E as [E1 E2]. apply Z.leb_le in E1, E2.
    replace (c - 32 <=? 57) with false by (symmetry; apply Z.leb_gt; lia).
    replace (c - 32 <=? 70) with true by (symmetry; apply Z.leb_le; lia).
    replace (c <=? 57) with false by (symmetry; apply Z.leb_gt; lia).
    replace (c <=? 70) with false by (symmetry; apply Z.leb_gt; lia). lia.
  - reflexivity.
Qed.

Lemma is_hex_upper c : is_hex (upper c) = is_hex c.
Proof.
  unfold is_hex, upper. destruct ((97 <=? c) && (c <=? 102)) eqn:E; [|rewrite ?E; reflexivity].
  apply andb_true_iff in E as [E1 E2]. apply Z.leb_le in E1, E2.
  replace (48 <=? c - 32) with true by (symmetry; apply Z.leb_le; lia).
  replace (c - 32 <=? 57) with false by (symmetry; apply Z.leb_gt; lia).
  replace (97 <=? c - 32) with false by (symmetry; apply Z.leb_gt; lia).
  replace (65 <=? c - 32) with true by (symmetry; apply Z.leb_le; lia).
  replace (c - 32 <=? 70) with true by (symmetry; apply Z.leb_le; lia).
  replace (48 <=? c) with true by (symmetry; apply Z.leb_le; lia).
  replace (c <=? 57) with false by (symmetry; apply Z.leb_gt; lia).
  replace (97 <=? c) with true by (symmetry; apply Z.leb_le; lia).
  replace (c <=? 102) with true by (symmetry; apply Z.leb_le; lia). reflexivity.
Qed.

Lemma unhex_upper : forall n l, (length l <= n)%nat -> forallb is_hex l = true -> unhex (map upper l) = unhex l.
Proof.
  induction n as [|n IH]; intros l Hl H.
  - destruct l; [reflexivity|cbn in Hl; lia].
  - destruct l as [|a [|b r]]; try reflexivity. cbn [map unhex]. cbn [forallb] in H.
    apply andb_true_iff in H as [Ha H]. apply andb_true_iff in H as [Hb Hr].
    rewrite (hexval_upper a Ha), (hexval_upper b Hb). f_equal. apply IH; [cbn [length] in Hl; lia|exact Hr].
Qed.

Lemma span_hex_upper l : span is_hex (map upper l) = (map upper (fst (span is_hex l)), map upper (snd (span is_hex l))) \/ True.
Proof. now right. Qed.

(* a well-formed line in canonical shape: label, blank, 64 hex digits, blank, an even number (> 0) of hex digits *)
Definition line (lab cr v : bytes) : bytes := lab ++ 32 :: cr ++ 32 :: v.

Lemma span_all f l rest : forallb f l = true -> (match rest with c :: _ => f c = false | [] => True end) -> span f (l ++ rest) = (l, rest).
Proof.
  intros H Hr. induction l as [|c r IH]; cbn [app span].
  - destruct rest as [|c t]; [reflexivity|]. cbn [span]. now rewrite Hr.
  - cbn [forallb] in H. apply andb_true_iff in H as [Hc H]. rewrite Hc, (IH H). reflexivity.
Qed.

Lemma match_canonical lab cr v :
  forallb is_label_char lab = true -> 3 <= len lab <= 32 -> forallb is_hex cr = true -> len cr = 64 ->
  forallb is_hex v = true -> 0 < len v -> Z.even (len v) = true ->
  match_line (line lab cr v) = Some (lab, cr, v).
Proof.
  intros Hl Hll Hc Hcl Hv Hv0 Hve. unfold match_line, line.
  rewrite (span_all is_label_char lab (32 :: cr ++ 32 :: v) Hl eq_refl).
  replace ((3 <=? len lab) && (len lab <=? 32)) with true by (symmetry; apply andb_true_iff; split; apply Z.leb_le; lia). cbn [negb].
  rewrite (span_all is_hex cr (32 :: v) Hc eq_refl). rewrite Hcl. cbn [Z.eqb Pos.eqb negb].
  rewrite <- (app_nil_r v) at 1. rewrite (span_all is_hex v [] Hv I).
  replace (len v =? 0) with false by (symmetry; apply Z.eqb_neq; lia). rewrite Hve. cbn [negb orb forallb]. reflexivity.
Qed.

Lemma forallb_hex_upper l : forallb is_hex (map upper l) = forallb is_hex l.
Proof. induction l as [|c r IH]; [reflexivity|]. cbn [map forallb]. now rewrite is_hex_upper, IH. Qed.

Theorem hex_case_irrelevant lab cr v :
  forallb is_label_char lab = true -> 3 <= len lab <= 32 -> forallb is_hex cr = true -> len cr = 64 ->
  forallb is_hex v = true -> 0 < len v -> Z.even (len v) = true ->
  key_of_line (line lab (map upper cr) (map upper v)) = key_of_line (line lab cr v).
Proof.
  intros Hl Hll Hc Hcl Hv Hv0 Hve. unfold key_of_line.
  rewrite (match_canonical lab cr v) by assumption.
  rewrite (match_canonical lab (map upper cr) (map upper v));
    rewrite ?forallb_hex_upper; unfold len in *; rewrite ?map_length; try assumption.
  rewrite (unhex_upper (length cr) cr (le_n _) Hc), (unhex_upper (length v) v (le_n _) Hv). reflexivity.
Qed.

(* ---------- file or decryption-secrets blocks ---------- *)
Section Run.
Variable C : Crypto.
Variable tbl : list (Z * String.string).
Variable parts : SuiteTypes.parts.
Variable o : options.
Variable ft : list (list Z * fclass).

(* secrets blocks in front of the packets are the same as a key-log file: this is all QUIC needs *)
Theorem dsb_in_front ks0 blocks items :
  run C tbl parts o ft ks0 (map IDsb blocks ++ items) = run C tbl parts o ft (ks0 ++ concat blocks) items.
Proof.
  unfold run. rewrite fold_left_app. f_equal.
  revert ks0. induction blocks as [|b r IH]; intros ks0; cbn [map fold_left concat].
  - now rewrite app_nil_r.
  - cbn [read_item bind]. rewrite IH. cbn [g_sessions g_quic g_keylog]. now rewrite <- app_assoc.
Qed.

(* TLS over TCP is decrypted after the whole capture has been read: secrets blocks may stand anywhere *)
Definition dsb_keys (items : list item) : list secret := flat_map (fun it => match it with IDsb ks => ks | IPacket _ => [] end) items.
Definition packets_only (items : list item) : list item := filter (fun it => match it with IPacket _ => true | IDsb _ => false end) items.

Definition step_sessions (ss : list tsession) (p : packet) : result (list tsession) :=
  match p_kind p with
  | L4Tcp => if len (p_data p) =? 0 then Ok ss else
             do ok <- (if opt_checksum o then Checksum.calculate_checksum_tcp (l4pkt_of p) else Ok true);
             if ok then Ok (handle_packet o ss p) else Ok ss
  | _ => Ok ss
  end.

Lemma read_item_tls_packet ss kl p :
  read_item_tls o (Ok {| m_sessions := ss; m_keylog := kl |}) (IPacket p) =
  rmap (fun ss' => {| m_sessions := ss'; m_keylog := kl |}) (step_sessions ss p).
Proof.
  unfold read_item_tls, step_sessions, step_tcp. cbn [bind m_sessions m_keylog].
  destruct (p_kind p); try reflexivity.
  destruct (len (p_data p) =? 0); [reflexivity|].
  destruct (if opt_checksum o then _ else _) as [[|]|e]; reflexivity.
Qed.

Lemma fold_tls_exn items e : fold_left (read_item_tls o) items (Exn e) = Exn e.
Proof. induction items as [|it r IH]; [reflexivity|]. cbn [fold_left]. exact IH. Qed.

Lemma po_packet p r : packets_only (IPacket p :: r) = IPacket p :: packets_only r. Proof. reflexivity. Qed.
Lemma po_dsb ks r : packets_only (IDsb ks :: r) = packets_only r. Proof. reflexivity. Qed.
Lemma dk_packet p r : dsb_keys (IPacket p :: r) = dsb_keys r. Proof. reflexivity. Qed.
Lemma dk_dsb ks r : dsb_keys (IDsb ks :: r) = ks ++ dsb_keys r. Proof. reflexivity. Qed.

(* the packets-only fold does not look at the key log *)
Lemma fold_packets_keylog its : forall ss0 k1 k2,
  rmap m_sessions (fold_left (read_item_tls o) (packets_only its) (Ok {| m_sessions := ss0; m_keylog := k1 |})) =
  rmap m_sessions (fold_left (read_item_tls o) (packets_only its) (Ok {| m_sessions := ss0; m_keylog := k2 |})).
Proof.
  induction its as [|i t IHt]; intros ss0 k1 k2; [reflexivity|]. destruct i as [p|ks]; [|rewrite po_dsb; apply IHt].
  rewrite po_packet. cbn [fold_left]. rewrite !read_item_tls_packet. destruct (step_sessions ss0 p) as [s1|e]; cbn [rmap]; [apply IHt|now rewrite !fold_tls_exn].
Qed.

Lemma fold_tls_keys items : forall ss kl,
  fold_left (read_item_tls o) items (Ok {| m_sessions := ss; m_keylog := kl |}) =
  rmap (fun m => {| m_sessions := m_sessions m; m_keylog := kl ++ dsb_keys items |})
       (fold_left (read_item_tls o) (packets_only items) (Ok {| m_sessions := ss; m_keylog := kl |})).
Proof.
  induction items as [|it r IH]; intros ss kl.
  - cbn. now rewrite app_nil_r.
  - destruct it as [p|ks].
    + rewrite po_packet, dk_packet. cbn [fold_left]. rewrite read_item_tls_packet. destruct (step_sessions ss p) as [ss'|e]; cbn [rmap].
      * rewrite IH. reflexivity.
      * rewrite !fold_tls_exn. reflexivity.
    + rewrite po_dsb, dk_dsb. cbn [fold_left read_item_tls bind m_sessions m_keylog]. rewrite IH.
      pose proof (fold_packets_keylog r ss (kl ++ ks) kl) as Hk.
      destruct (fold_left (read_item_tls o) (packets_only r) (Ok {| m_sessions := ss; m_keylog := kl ++ ks |})) as [m1|e1];
      destruct (fold_left (read_item_tls o) (packets_only r) (Ok {| m_sessions := ss; m_keylog := kl |})) as [m2|e2]; cbn [rmap] in *; try congruence.
      injection Hk as ->. now rewrite <- app_assoc.
Qed.

Theorem dsb_anywhere_tls ks0 items :
  run_tls C tbl parts o ks0 items = run_tls C tbl parts o (ks0 ++ dsb_keys items) (packets_only items).
Proof.
  unfold run_tls. rewrite fold_tls_keys.
  assert (Hp : dsb_keys (packets_only items) = []).
  { induction items as [|[p|ks] r IH]; [reflexivity|rewrite po_packet, dk_packet; exact IH|rewrite po_dsb; exact IH]. }
  rewrite (fold_tls_keys (packets_only items) [] (ks0 ++ dsb_keys items)). rewrite Hp, app_nil_r.
  assert (Hpp : packets_only (packets_only items) = packets_only items).
  { clear Hp. induction items as [|[p|ks] r IH]; [reflexivity|rewrite !po_packet; f_equal; exact IH|rewrite po_dsb; exact IH]. }
  rewrite Hpp.
  pose proof (fold_packets_keylog items [] ks0 (ks0 ++ dsb_keys items)) as Hk.
  destruct (fold_left (read_item_tls o) (packets_only items) (Ok {| m_sessions := []; m_keylog := ks0 |})) as [m1|e1];
  destruct (fold_left (read_item_tls o) (packets_only items) (Ok {| m_sessions := []; m_keylog := ks0 ++ dsb_keys items |})) as [m2|e2];
    cbn [rmap bind m_sessions m_keylog] in *; try congruence.
Qed.
End Run.
