(* C09: a key log split, at line boundaries, over any number of texts (secrets blocks) -- each with or without a final line terminator,
   LF or CRLF -- gives, text by text, the keys of the whole log. *)
From Coq Require Import ZArith List Bool Lia.
Require Import PyLib Keylog C09P.
Import ListNotations.
Open Scope Z_scope.

Lemma flat_map_concat {A B} (f : A -> list B) (ll : list (list A)) : flat_map f (concat ll) = concat (map (flat_map f) ll).
Proof. induction ll as [|l ll IH]; [reflexivity|]. cbn [concat map]. rewrite flat_map_app, IH. reflexivity. Qed.

Theorem split_over_texts lss : Forall (fun ls => ls <> [] /\ Forall no_eol ls) lss -> concat lss <> [] ->
  concat (map (fun ls => get_keys_from_string (join [10] ls)) lss) = get_keys_from_string (join [10] (concat lss)) /\
  concat (map (fun ls => get_keys_from_string (join [13; 10] ls)) lss) = get_keys_from_string (join [10] (concat lss)).
Proof.
  intros H Hne.
  assert (Hall : Forall no_eol (concat lss)).
  { clear Hne. induction H as [|ls lss (_ & Hl) _ IH]; [constructor|]. cbn [concat]. apply Forall_app. split; [exact Hl|exact IH]. }
  destruct (keys_of_lines (concat lss) Hne Hall) as [-> _]. rewrite flat_map_concat.
  split; f_equal; apply map_ext_in; intros ls Hin; rewrite Forall_forall in H; destruct (H ls Hin) as (Hn & Hl);
    destruct (keys_of_lines ls Hn Hl) as [H1 H2]; [exact H1|exact H2].
Qed.
