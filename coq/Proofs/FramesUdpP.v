(* C06, the QUIC side of the writer: every UDP datagram written (field values in range) has the right length field and a checksum that
   verifies against its pseudo-header -- also when the computed checksum is 0 and 0xFFFF is sent instead (RFC 768) -- and the IPv6
   header carries the payload length. *)
From Coq Require Import ZArith List Bool Lia.
Require Import PyLib PyLibP Checksum Frames Rfc1071 C11P FramesP.
Import ListNotations.
Open Scope Z_scope.

Lemma slice_skip' {A} (x y : list A) a b : len x <= a -> slice (x ++ y) a b = slice y (a - len x) (b - len x).
Proof.
  intros H. rewrite !slice_eq. pose proof (len_nonneg x). unfold len in *.
  replace (Z.to_nat (b - Z.of_nat (length x) - (a - Z.of_nat (length x)))) with (Z.to_nat (b - a)) by lia.
  f_equal. rewrite skipn_app. rewrite skipn_all2 by lia. cbn [app]. f_equal. lia.
Qed.
Lemma slice_head' {A} (x y : list A) k : k = len x -> slice (x ++ y) 0 k = x.
Proof.
  intros ->. rewrite slice_eq. rewrite Z.sub_0_r. cbn [Z.to_nat skipn]. unfold len. rewrite Nat2Z.id, firstn_app, firstn_all, Nat.sub_diag. cbn. now rewrite app_nil_r.
Qed.

(* inserting the complemented sum -- or 0xFFFF when that is 0 -- at an even offset makes the one's-complement sum all ones *)
Lemma checksum_inserted_udp a rest c : bytes_ok a -> bytes_ok rest -> Z.even (len a) = true ->
  c = 65535 - R (total (words (a ++ [0; 0] ++ rest))) ->
  let c' := if c =? 0 then 65535 else c in
  oc_sum (words (a ++ [c' / 256; c' mod 256] ++ rest)) = 65535.
Proof.
  intros Ha Hr Hev Hc c'.
  assert (Hr0: 0 <= R (total (words (a ++ [0; 0] ++ rest))) <= 65535).
  { apply R_range. apply total_nonneg. apply words_ok_words. apply bytes_ok_app; [assumption|]. apply bytes_ok_app; [repeat constructor; lia|assumption]. }
  assert (Hcr: 0 <= c <= 65535) by lia.
  assert (Hcr': 0 <= c' <= 65535) by (unfold c'; destruct (c =? 0); lia).
  assert (Hcb: bytes_ok [c' / 256; c' mod 256]) by (repeat constructor; lia).
  rewrite oc_sum_R by (apply words_ok_words; apply bytes_ok_app; [assumption|apply bytes_ok_app; assumption]).
  rewrite words_app_even in * by assumption. rewrite total_app in *.
  cbn [app words total fold_right] in *. fold (total (words rest)) in *.
  replace (c' / 256 * 256 + c' mod 256) with c' by lia.
  set (A := total (words a)) in *. set (B := total (words rest)) in *.
  assert (0 <= A) by (apply total_nonneg, words_ok_words; assumption).
  assert (0 <= B) by (apply total_nonneg, words_ok_words; assumption).
  replace (0 * 256 + 0 + B) with B in * by lia.
  unfold R in *. unfold c' in *. clearbody A B. clear - Hc Hcr H H0.
  destruct (c =? 0) eqn:E0; destruct (A + B =? 0) eqn:E1.
  - lia.
  - destruct (A + (65535 + B) =? 0) eqn:E2; [lia|]. apply Z.eqb_eq in E0. apply Z.eqb_neq in E1.
    assert (Hm : (A + B - 1) mod 65535 = 65534) by lia.
    replace (A + (65535 + B) - 1) with (A + B - 1 + 1 * 65535) by lia. rewrite Z.mod_add by lia. lia.
  - destruct (A + (c + B) =? 0) eqn:E2; lia.
  - destruct (A + (c + B) =? 0) eqn:E2; lia.
Qed.

Theorem udp_datagram_valid src dst sport dport payload :
  ip_ok src dst -> bytes_ok payload -> len payload < 65528 -> 0 <= sport < 65536 -> 0 <= dport < 65536 ->
  exists dg, udp_datagram src dst sport dport payload = Ok dg /\ len dg = 8 + len payload /\
             slice dg 0 2 = to_be_total sport 2 /\ slice dg 2 4 = to_be_total dport 2 /\ slice dg 4 6 = to_be_total (8 + len payload) 2 /\
             slice_from dg 8 = payload /\
             checksum_valid (spec_pseudo' src dst 17 (len dg)) dg = true.
Proof.
  intros Hip Hpl Hlen Hsp Hdp. unfold udp_datagram. pose proof (len_nonneg payload) as Hpn.
  rewrite !pack_eq by (try change (256 ^ 2) with 65536; lia). cbn [bind].
  destruct (pseudo_eq src dst 17 (8 + len payload) Hip ltac:(lia) ltac:(lia)) as (Eph & Oph & Evph). rewrite Eph. cbn [bind].
  set (ph := spec_pseudo' src dst 17 (8 + len payload)) in *.
  set (h1 := to_be_total sport 2 ++ to_be_total dport 2 ++ to_be_total (8 + len payload) 2).
  assert (Oh1: bytes_ok h1) by (unfold h1; repeat (apply bytes_ok_app; [apply to_be_total_ok|]); apply to_be_total_ok).
  assert (Lh1: len h1 = 6) by (unfold h1; rewrite !len_app, !len_to_be_total by lia; reflexivity).
  replace (ph ++ to_be_total sport 2 ++ to_be_total dport 2 ++ to_be_total (8 + len payload) 2 ++ [0; 0] ++ payload)
    with (ph ++ h1 ++ [0; 0] ++ payload) by (unfold h1; rewrite <- !app_assoc; reflexivity).
  assert (Odata: bytes_ok (ph ++ h1 ++ [0; 0] ++ payload)).
  { apply bytes_ok_app; [assumption|]. apply bytes_ok_app; [assumption|]. apply bytes_ok_app; [repeat constructor; lia|assumption]. }
  assert (Lph: len ph <= 40).
  { unfold ph, spec_pseudo'. destruct Hip as [_ _ [[L1 L2]|[L1 L2]]]; destruct (len src =? 4); unfold pseudo4, pseudo6; rewrite !len_app, L1, L2; cbn; lia. }
  assert (Ldata: len (ph ++ h1 ++ [0; 0] ++ payload) < 2 ^ 32).
  { rewrite !len_app, Lh1. change (len [0; 0]) with 2. change (2^32) with 4294967296. lia. }
  rewrite (inet_checksum_eq _ Odata Ldata). cbn [bind].
  pose proof (R_range (total (words (ph ++ h1 ++ [0; 0] ++ payload))) ltac:(apply total_nonneg, words_ok_words; exact Odata)) as HR.
  set (c := 65535 - R (total (words (ph ++ h1 ++ [0; 0] ++ payload)))) in *.
  set (c' := if c =? 0 then 65535 else c).
  assert (Hc' : 0 <= c' <= 65535) by (unfold c'; destruct (c =? 0); lia).
  rewrite pack_eq by (change (256 ^ 2) with 65536; lia). cbn [bind]. rewrite (to_be_total_2 c') by lia.
  eexists. split; [reflexivity|].
  set (dg := to_be_total sport 2 ++ to_be_total dport 2 ++ to_be_total (8 + len payload) 2 ++ [c' / 256; c' mod 256] ++ payload).
  assert (Hdg : dg = h1 ++ [c' / 256; c' mod 256] ++ payload) by (unfold dg, h1; rewrite <- !app_assoc; reflexivity).
  assert (Hlensg: len dg = 8 + len payload).
  { rewrite Hdg, !len_app, Lh1. change (len [c' / 256; c' mod 256]) with 2. lia. }
  split; [exact Hlensg|].
  assert (L2 : forall n, len (to_be_total n 2) = 2) by (intros; apply len_to_be_total; lia).
  split; [unfold dg; apply slice_head'; rewrite L2; reflexivity|].
  split.
  { unfold dg. rewrite slice_skip' by (rewrite L2; lia). rewrite L2. apply slice_head'. rewrite L2. reflexivity. }
  split.
  { unfold dg. rewrite slice_skip' by (rewrite L2; lia). rewrite L2. rewrite slice_skip' by (rewrite L2; lia). rewrite L2. apply slice_head'. rewrite L2. reflexivity. }
  split.
  { rewrite Hdg. replace (h1 ++ [c' / 256; c' mod 256] ++ payload) with ((h1 ++ [c' / 256; c' mod 256]) ++ payload) by (now rewrite <- app_assoc).
    rewrite slice_from_eq. change (Z.to_nat 8) with 8%nat. rewrite skipn_app. 
    assert (Hl8 : length (h1 ++ [c' / 256; c' mod 256]) = 8%nat) by (rewrite app_length; unfold len in Lh1; cbn [length]; lia).
    rewrite skipn_all2 by lia. rewrite Hl8. reflexivity. }
  rewrite Hlensg. fold ph. unfold checksum_valid. apply Z.eqb_eq. rewrite Hdg.
  replace (ph ++ h1 ++ [c' / 256; c' mod 256] ++ payload) with ((ph ++ h1) ++ [c' / 256; c' mod 256] ++ payload) by (rewrite <- !app_assoc; reflexivity).
  apply (checksum_inserted_udp (ph ++ h1) payload c).
  - apply bytes_ok_app; assumption.
  - assumption.
  - rewrite len_app, Lh1, Z.even_add, Evph. reflexivity.
  - unfold c. do 3 f_equal. rewrite <- !app_assoc. reflexivity.
Qed.

(* the IPv6 header written: version 6, payload length, next header, hop limit 64, addresses, then the payload *)
Theorem ipv6_valid src dst nxt payload : len payload < 65536 ->
  ipv6 src dst nxt payload = Ok ([0x60; 0; 0; 0] ++ to_be_total (len payload) 2 ++ [nxt; 64] ++ src ++ dst ++ payload).
Proof. intros H. unfold ipv6. pose proof (len_nonneg payload). rewrite pack_eq by (change (256 ^ 2) with 65536; lia). reflexivity. Qed.
