(* C08, QUIC, at the level of the whole run: cut the capture after any item; every QUIC session of the cut run is a session of the
   full run, at the same position, with the same identity; the frames it has collected are a prefix of the frames collected in the
   full run, and so is, per direction, the byte stream of the datagrams built from them. *)
From Coq Require Import ZArith List Bool Lia.
From Coq Require String.
Require Import PyLib SuiteTypes SuiteParser Crypto KeySchedule QuicKeys Packet TlsSession QuicFrames QuicDissector QuicSession Main C08P QuicAppendP QuicIdP QuicBuildP.
Import ListNotations.
Open Scope Z_scope.

Section Cut.
Variable C : Crypto.
Variable o : options.
Variable ftable : list (list Z * fclass).

(* one session, before and after *)
Definition grows (s1 s2 : qsession) : Prop := qid s2 = qid s1 /\ prefix (qs_output s1) (qs_output s2).
Lemma grows_refl s : grows s s. Proof. split; [reflexivity|apply prefix_refl]. Qed.
Lemma grows_trans a b c : grows a b -> grows b c -> grows a c.
Proof. intros [H1 H2] [H3 H4]. split; [congruence|eapply prefix_trans; eassumption]. Qed.

(* the session list: same sessions in the same places, possibly more behind them *)
Definition qext (a b : list qsession) : Prop := exists l extra, b = l ++ extra /\ Forall2 grows a l.

Lemma Forall2_grows_refl l : Forall2 grows l l.
Proof. induction l; constructor; [apply grows_refl|assumption]. Qed.
Lemma qext_refl a : qext a a.
Proof. exists a, []. split; [now rewrite app_nil_r|apply Forall2_grows_refl]. Qed.

Lemma Forall2_grows_trans a : forall b c, Forall2 grows a b -> Forall2 grows b c -> Forall2 grows a c.
Proof.
  induction a as [|x a IH]; intros b c H1 H2; inversion H1; subst; inversion H2; subst; constructor.
  - eapply grows_trans; eassumption.
  - eapply IH; eassumption.
Qed.

Lemma qext_trans a b c : qext a b -> qext b c -> qext a c.
Proof.
  intros (l1 & e1 & -> & H1) (l2 & e2 & -> & H2).
  apply Forall2_app_inv_l in H2 as (l2a & l2b & H2a & H2b & ->).
  exists l2a, (l2b ++ e2). split; [now rewrite app_assoc|]. eapply Forall2_grows_trans; eassumption.
Qed.

Lemma step_grows kl s p cid ver s' : quic_handle_packet C kl ftable s p cid ver = Ok s' -> grows s s'.
Proof. intros H. split; [exact (quic_session_identity _ _ _ _ _ _ _ _ H)|exact (quic_session_appends _ _ _ _ _ _ _ _ H)]. Qed.

Lemma addr_pass_ext kl p long dcid ver : forall ss r, dispatch_by_addr C ftable kl ss p long dcid ver = Ok (Some r) -> Forall2 grows ss r.
Proof.
  induction ss as [|s t IH]; intros r H; cbn [dispatch_by_addr] in H; [discriminate|].
  destruct (matches_session_dgram s p).
  - match type of H with bind ?F _ = _ => destruct F as [s'|] eqn:E; [|discriminate] end. cbn [bind] in H. injection H as <-.
    constructor; [exact (step_grows _ _ _ _ _ _ E)|apply Forall2_grows_refl].
  - destruct (dispatch_by_addr C ftable kl t p long dcid ver) as [[l|]|]; try discriminate. cbn [bind] in H. injection H as <-.
    constructor; [apply grows_refl|apply IH; reflexivity].
Qed.

Lemma cid_pass_ext kl p long dcid ver : forall ss r, dispatch_by_cid C ftable kl ss p long dcid ver = Ok (Some r) -> Forall2 grows ss r.
Proof.
  induction ss as [|s t IH]; intros r H; cbn [dispatch_by_cid] in H; [discriminate|].
  destruct (known_cid s p long dcid) as [cid|].
  - match type of H with bind ?F _ = _ => destruct F as [s'|] eqn:E; [|discriminate] end. cbn [bind] in H. injection H as <-.
    constructor; [exact (step_grows _ _ _ _ _ _ E)|apply Forall2_grows_refl].
  - destruct (dispatch_by_cid C ftable kl t p long dcid ver) as [[l|]|]; try discriminate. cbn [bind] in H. injection H as <-.
    constructor; [apply grows_refl|apply IH; reflexivity].
Qed.

(* one datagram handed to the demultiplexer *)
Lemma handle_quic_ext kl ss p ss' : handle_quic_packet C o ftable kl ss p = Ok ss' -> qext ss ss'.
Proof.
  unfold handle_quic_packet.
  destruct (get_header_type_long (p_data p)) as [long|]; [|discriminate]. cbn [bind].
  destruct (long && (len (p_data p) <? 6)); [intros H; injection H as <-; apply qext_refl|].
  match goal with |- bind ?F _ = _ -> _ => destruct F as [r|] eqn:E; [|discriminate] end. cbn [bind].
  destruct r as [l|].
  - intros H. injection H as <-. exists l, []. split; [now rewrite app_nil_r|].
    unfold dispatch_quic in E.
    match type of E with bind ?F _ = _ => destruct F as [[l1|]|] eqn:E1; [| |discriminate] end; cbn [bind] in E.
    + injection E as <-. exact (addr_pass_ext _ _ _ _ _ _ _ E1).
    + exact (cid_pass_ext _ _ _ _ _ _ _ E).
  - destruct long; [|intros H; injection H as <-; apply qext_refl].
    match goal with |- bind ?F _ = _ -> _ => destruct F as [s'|]; [|discriminate] end. cbn [bind]. intros H. injection H as <-.
    exists ss, [s']. split; [reflexivity|apply Forall2_grows_refl].
Qed.

Lemma read_item_ext g it g' : read_item C o ftable (Ok g) it = Ok g' -> qext (g_quic g) (g_quic g').
Proof.
  unfold read_item. cbn [bind]. destruct it as [p|ks].
  - destruct (p_kind p).
    + match goal with |- bind ?F _ = _ -> _ => destruct F as [m|]; [|discriminate] end. cbn [bind]. intros H. injection H as <-. apply qext_refl.
    + destruct (len (p_data p) =? 0); [intros H; injection H as <-; apply qext_refl|].
      match goal with |- bind ?F _ = _ -> _ => destruct F as [ok|]; [|discriminate] end. cbn [bind].
      destruct (negb ok); [intros H; injection H as <-; apply qext_refl|].
      destruct (_ || _); [|intros H; injection H as <-; apply qext_refl].
      match goal with |- bind ?F _ = _ -> _ => destruct F as [qs|] eqn:E; [|discriminate] end. cbn [bind]. intros H. injection H as <-.
      exact (handle_quic_ext _ _ _ _ E).
    + intros H. injection H as <-. apply qext_refl.
  - intros H. injection H as <-. apply qext_refl.
Qed.

Lemma read_item_exn e it : read_item C o ftable (Exn e) it = Exn e.
Proof. reflexivity. Qed.
Lemma fold_exn e items : fold_left (read_item C o ftable) items (Exn e) = Exn e.
Proof. induction items as [|it r IH]; [reflexivity|]. cbn [fold_left]. rewrite read_item_exn. exact IH. Qed.

Lemma fold_ext items : forall g g', fold_left (read_item C o ftable) items (Ok g) = Ok g' -> qext (g_quic g) (g_quic g').
Proof.
  induction items as [|it r IH]; intros g g' H; cbn [fold_left] in H; [injection H as <-; apply qext_refl|].
  destruct (read_item C o ftable (Ok g) it) as [g1|e] eqn:E; [|rewrite fold_exn in H; discriminate].
  eapply qext_trans; [exact (read_item_ext _ _ _ E)|exact (IH _ _ H)].
Qed.

(* per direction, the bytes of the datagrams built from a session's frames *)
Definition qstream (m b : bool) (s : qsession) : bytes := concat (map od_payload (dir_dgrams b (quic_build m (qs_output s)))).

Lemma qstream_prefix m b s1 s2 : grows s1 s2 -> prefix (qstream m b s1) (qstream m b s2).
Proof.
  intros [_ [t Ht]]. unfold qstream. rewrite !build_per_direction, Ht. unfold dir_frames, all_data.
  rewrite filter_app, flat_map_app. eexists. reflexivity.
Qed.

(* cut after any item: TLS and QUIC traffic, key-log blocks anywhere *)
Theorem quic_capture_cut init items1 items2 g2 :
  fold_left (read_item C o ftable) (items1 ++ items2) (Ok init) = Ok g2 ->
  exists g1, fold_left (read_item C o ftable) items1 (Ok init) = Ok g1 /\
    exists l extra, g_quic g2 = l ++ extra /\
      Forall2 (fun s1 s2 => qid s2 = qid s1 /\ prefix (qs_output s1) (qs_output s2) /\ forall m b, prefix (qstream m b s1) (qstream m b s2)) (g_quic g1) l.
Proof.
  rewrite fold_left_app. intros H.
  destruct (fold_left (read_item C o ftable) items1 (Ok init)) as [g1|e] eqn:E1; [|rewrite fold_exn in H; discriminate].
  exists g1. split; [reflexivity|]. destruct (fold_ext _ _ _ H) as (l & extra & Hl & HF). exists l, extra. split; [exact Hl|].
  clear Hl. induction HF as [|a b la lb Hg _ IH]; constructor; [|exact IH].
  destruct Hg as [Hi Hp]. repeat split; try assumption. intros m d. apply qstream_prefix. split; assumption.
Qed.
End Cut.
