(* C04: a session looks at the key log only through the lines that carry its own client random.  Two key logs whose lines with that
   client random are the same (same lines, same order) -- whatever other connections' lines are added, removed or shuffled around
   them -- make the session behave identically. *)
From Coq Require Import ZArith List Bool.
From Coq Require String.
Require Import PyLib SuiteTypes SuiteParser Crypto KeySchedule QuicKeys Packet Reassembly Decryptor TlsSession QuicFrames QuicDissector QuicTls QuicSession.
Import ListNotations.
Open Scope Z_scope.

Definition own_lines (cr : bytes) (kl : list secret) : list secret := filter (fun k => bytes_eqb (s_random k) cr) kl.

Section Tls.
Variable C : Crypto.
Variable tbl : list (Z * String.string).
Variable parts : SuiteTypes.parts.

Lemma generate_keys_own kl1 kl2 s v cs sr : own_lines (ts_client_random s) kl1 = own_lines (ts_client_random s) kl2 ->
  generate_keys C tbl parts kl1 s v cs sr = generate_keys C tbl parts kl2 s v cs sr.
Proof. intros H. unfold generate_keys, find_session_secrets. unfold own_lines in H. rewrite H. reflexivity. Qed.

(* one record: the ServerHello is the only place where the key log is read, with the client random the session holds at that point *)
Theorem tls_record_own_lines kl1 kl2 s r srv : own_lines (ts_client_random s) kl1 = own_lines (ts_client_random s) kl2 ->
  handle_tls_record C tbl parts kl1 s r srv = handle_tls_record C tbl parts kl2 s r srv.
Proof.
  intros H. unfold handle_tls_record, handle_tls_handshake_record, handle_tls_server_hello.
  destruct (r_type r =? 22); [|reflexivity].
  destruct (ts_server_cc s || ts_client_cc s); [reflexivity|].
  destruct (r_body r) as [|t b]; [reflexivity|].
  match goal with |- context [if ?c then Ok (?s', []) else _] => destruct c end; [reflexivity|].
  destruct (t =? 1); [reflexivity|]. destruct (t =? 2); [|reflexivity].
  repeat match goal with |- context [if ?c then _ else _] => destruct c; try reflexivity end.
  all: try (rewrite (generate_keys_own kl1 kl2) by (cbn [upd set_pending set_can ts_client_random]; try destruct srv; exact H); reflexivity).
Qed.
End Tls.

Section Quic.
Variable C : Crypto.

(* QuicSession.set_tls_decryptors: the keys installed depend on the key log only through the lines with the connection's client random *)
Theorem quic_keys_own_lines kl1 kl2 s cr cs : own_lines cr kl1 = own_lines cr kl2 ->
  set_tls_decryptors C kl1 s cr cs = set_tls_decryptors C kl2 s cr cs.
Proof. intros H. unfold set_tls_decryptors. unfold own_lines in H. rewrite H. reflexivity. Qed.
End Quic.

(* lines of other connections -- any client random but cr -- can be added anywhere, removed or reordered without changing own_lines *)
Lemma own_lines_app cr a b : own_lines cr (a ++ b) = own_lines cr a ++ own_lines cr b.
Proof. apply filter_app. Qed.
Lemma own_lines_foreign cr kl : Forall (fun k => bytes_eqb (s_random k) cr = false) kl -> own_lines cr kl = [].
Proof. induction 1 as [|k l Hk _ IH]; [reflexivity|]. cbn [own_lines filter]. rewrite Hk. exact IH. Qed.
Theorem own_lines_insert cr a foreign b : Forall (fun k => bytes_eqb (s_random k) cr = false) foreign ->
  own_lines cr (a ++ foreign ++ b) = own_lines cr (a ++ b).
Proof. intros H. rewrite !own_lines_app, (own_lines_foreign cr foreign H). reflexivity. Qed.
