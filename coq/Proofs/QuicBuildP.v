(* QUICOutputbuilder.build (model: QuicSession.quic_build / group): nothing is lost, added or reordered; each direction gets
   exactly the data of its own frames; one output datagram per input datagram that carried data. *)
From Coq Require Import ZArith List Bool Lia.
Require Import PyLib QuicSession.
Import ListNotations.
Open Scope Z_scope.

Definition fdata (m : bool) (f : oframe) : bytes := match frame_data m f with Some d => d | None => [] end.
Definition all_data (m : bool) (fs : list oframe) : bytes := flat_map (fdata m) fs.

Lemma all_data_cons m f r : all_data m (f :: r) = fdata m f ++ all_data m r.
Proof. reflexivity. Qed.
Lemma fdata_some m f d : frame_data m f = Some d -> fdata m f = d.
Proof. unfold fdata. now intros ->. Qed.
Lemma fdata_none m f : frame_data m f = None -> fdata m f = [].
Proof. unfold fdata. now intros ->. Qed.

Lemma group_concat m fs : forall ts srv cur,
  concat (map od_payload (group m fs ts srv cur)) = cur ++ all_data m fs.
Proof.
  induction fs as [|f r IH]; intros ts srv cur; cbn [group].
  - cbn. now rewrite app_nil_r.
  - rewrite all_data_cons. destruct (frame_data m f) as [d|] eqn:Ed.
    + rewrite (fdata_some _ _ _ Ed). destruct ((snd (of_ts f) =? snd ts) && Bool.eqb (of_isserver f) srv).
      * rewrite IH. now rewrite app_assoc.
      * cbn [map concat od_payload]. rewrite IH. reflexivity.
    + rewrite (fdata_none _ _ Ed). rewrite IH. reflexivity.
Qed.

Theorem build_concat m out : concat (map od_payload (quic_build m out)) = all_data m out.
Proof. destruct out as [|f r]; [reflexivity|]. unfold quic_build. now rewrite group_concat. Qed.

(* per direction *)
Definition dir_frames (b : bool) (fs : list oframe) := filter (fun f => Bool.eqb (of_isserver f) b) fs.
Definition dir_dgrams (b : bool) (ds : list odgram) := filter (fun d => Bool.eqb (od_isserver d) b) ds.

Lemma group_dir m b fs : forall ts srv cur,
  concat (map od_payload (dir_dgrams b (group m fs ts srv cur))) = (if Bool.eqb srv b then cur else []) ++ all_data m (dir_frames b fs).
Proof.
  induction fs as [|f r IH]; intros ts srv cur; cbn [group].
  - cbn [dir_dgrams filter od_isserver dir_frames all_data flat_map]. destruct (Bool.eqb srv b); cbn; now rewrite ?app_nil_r.
  - assert (Hdf : all_data m (dir_frames b (f :: r)) = (if Bool.eqb (of_isserver f) b then fdata m f else []) ++ all_data m (dir_frames b r)).
    { cbn [dir_frames filter]. destruct (Bool.eqb (of_isserver f) b); [apply all_data_cons|reflexivity]. }
    rewrite Hdf. destruct (frame_data m f) as [d|] eqn:Ed.
    + rewrite (fdata_some _ _ _ Ed).
      destruct ((snd (of_ts f) =? snd ts) && Bool.eqb (of_isserver f) srv) eqn:Ec.
      * apply andb_true_iff in Ec as [_ Es]. apply eqb_prop in Es. rewrite IH, Es.
        destruct (Bool.eqb srv b); [now rewrite app_assoc|reflexivity].
      * cbn [dir_dgrams filter od_isserver]. fold (dir_dgrams b (group m r (of_ts f) (of_isserver f) d)).
        destruct (Bool.eqb srv b); cbn [map concat od_payload]; rewrite IH; reflexivity.
    + rewrite (fdata_none _ _ Ed). rewrite IH. destruct (Bool.eqb (of_isserver f) b); reflexivity.
Qed.

Theorem build_per_direction m b out :
  concat (map od_payload (dir_dgrams b (quic_build m out))) = all_data m (dir_frames b out).
Proof.
  destruct out as [|f r]; [reflexivity|]. unfold quic_build. rewrite group_dir.
  cbn [dir_frames filter]. destruct (Bool.eqb (of_isserver f) b); reflexivity.
Qed.

(* ---- one output datagram per input datagram ---- *)
(* the frames decrypted from one input datagram: same time, same direction *)
Record run := { r_ts : Z * Z; r_srv : bool; r_items : list (okind * bytes) }.
Definition run_frames (r : run) : list oframe :=
  map (fun kd => {| of_kind := fst kd; of_data := snd kd; of_ts := r_ts r; of_isserver := r_srv r |}) (r_items r).
Definition run_data (m : bool) (r : run) : bytes := all_data m (run_frames r).
Definition run_dgram (m : bool) (r : run) : odgram := {| od_ts := fst (r_ts r); od_isserver := r_srv r; od_payload := run_data m r |}.
Definition has_data (m : bool) (r : run) : bool := existsb (fun f => match frame_data m f with Some _ => true | None => false end) (run_frames r).
Definition nonempty (d : odgram) : bool := match od_payload d with [] => false | _ => true end.

(* frames of a run whose key is the current one are appended to the current datagram *)
Lemma group_same_key m items : forall ts srv cur rest t,
  snd t = snd ts ->
  group m (map (fun kd => {| of_kind := fst kd; of_data := snd kd; of_ts := t; of_isserver := srv |}) items ++ rest) ts srv cur =
  group m rest ts srv (cur ++ all_data m (map (fun kd => {| of_kind := fst kd; of_data := snd kd; of_ts := t; of_isserver := srv |}) items)).
Proof.
  induction items as [|kd r IH]; intros ts srv cur rest t Ht; cbn [map app].
  - cbn. now rewrite app_nil_r.
  - cbn [group]. rewrite all_data_cons.
    destruct (frame_data m _) as [d|] eqn:Ed.
    + rewrite (fdata_some _ _ _ Ed). cbn [of_ts of_isserver]. rewrite Ht, Z.eqb_refl, eqb_reflx. cbn [andb]. rewrite (IH ts srv (cur ++ d) rest t Ht).
      now rewrite app_assoc.
    + rewrite (fdata_none _ _ Ed). rewrite (IH ts srv cur rest t Ht). reflexivity.
Qed.

(* a run with another time stamp: nothing happens until its first frame with data, which flushes the current datagram *)
Lemma group_other_key m items : forall ts srv cur rest t s,
  snd t <> snd ts ->
  let fr := map (fun kd => {| of_kind := fst kd; of_data := snd kd; of_ts := t; of_isserver := s |}) items in
  group m (fr ++ rest) ts srv cur =
  if existsb (fun f => match frame_data m f with Some _ => true | None => false end) fr
  then {| od_ts := fst ts; od_isserver := srv; od_payload := cur |} :: group m rest t s (all_data m fr)
  else group m rest ts srv cur.
Proof.
  induction items as [|kd r IH]; intros ts srv cur rest t s Ht; cbn [map app existsb].
  - reflexivity.
  - cbn zeta in IH. cbn [group]. destruct (frame_data m _) as [d|] eqn:Ed.
    + cbn [of_ts of_isserver orb]. apply Z.eqb_neq in Ht. rewrite Ht. cbn [andb].
      f_equal. rewrite (group_same_key m r t s d rest t eq_refl).
      rewrite all_data_cons, (fdata_some _ _ _ Ed). reflexivity.
    + cbn [orb]. rewrite (IH ts srv cur rest t s Ht). rewrite all_data_cons, (fdata_none _ _ Ed). reflexivity.
Qed.

Definition tsid (r : run) : Z := snd (r_ts r).

Lemma has_data_false m r : has_data m r = false -> run_data m r = [].
Proof.
  unfold has_data, run_data. induction (run_frames r) as [|f l IH]; [reflexivity|].
  cbn [existsb]. rewrite all_data_cons. destruct (frame_data m f) eqn:Ed; [discriminate|]. cbn [orb]. rewrite (fdata_none _ _ Ed). exact IH.
Qed.

Lemma group_runs m runs : forall ts srv cur,
  ~ In (snd ts) (map tsid runs) -> NoDup (map tsid runs) ->
  filter nonempty (group m (flat_map run_frames runs) ts srv cur) =
  filter nonempty ({| od_ts := fst ts; od_isserver := srv; od_payload := cur |} :: map (run_dgram m) runs).
Proof.
  induction runs as [|r rs IH]; intros ts srv cur Hnin Hnd; cbn [flat_map].
  - reflexivity.
  - cbn [map] in Hnin, Hnd. inversion Hnd as [|x l Hr Hnd']; subst.
    assert (Hne : snd (r_ts r) <> snd ts) by (intro E; apply Hnin; left; exact E).
    unfold run_frames at 1. rewrite (group_other_key m (r_items r) ts srv cur (flat_map run_frames rs) (r_ts r) (r_srv r) Hne).
    fold (run_frames r). fold (has_data m r). destruct (has_data m r) eqn:Hd.
    + fold (run_data m r). cbn [filter]. rewrite (IH (r_ts r) (r_srv r) (run_data m r) Hr Hnd'). cbn [map filter]. reflexivity.
    + rewrite IH; [|intro Hin; apply Hnin; right; exact Hin|exact Hnd'].
      assert (Hn : nonempty (run_dgram m r) = false) by (unfold nonempty, run_dgram; cbn [od_payload]; now rewrite (has_data_false m r Hd)).
      cbn [map filter]. rewrite Hn. reflexivity.
Qed.

(* capture times pairwise distinct: the non-empty output datagrams are exactly the input datagrams that carried data, in order,
   each with its own time, direction and data *)
Theorem build_one_per_datagram m runs : NoDup (map tsid runs) ->
  filter nonempty (quic_build m (flat_map run_frames runs)) = filter nonempty (map (run_dgram m) runs).
Proof.
  intros Hnd. destruct runs as [|r rs]; [reflexivity|].
  destruct (flat_map run_frames (r :: rs)) as [|f fs] eqn:E.
  - (* no frame at all: every run is empty *)
    cbn [quic_build filter]. symmetry. clear Hnd. revert E. generalize (r :: rs). intros l. induction l as [|x l IH]; [reflexivity|].
    cbn [flat_map]. intros E. apply app_eq_nil in E as [E1 E2]. cbn [map filter]. rewrite (IH E2).
    unfold nonempty, run_dgram, run_data. cbn [od_payload]. rewrite E1. reflexivity.
  - unfold quic_build. rewrite <- E.
    (* the first frame belongs to the first run that has items; runs before it are empty *)
    revert f fs E. induction (r :: rs) as [|x l IH]; intros f fs E; [discriminate|].
    cbn [flat_map] in E. destruct (r_items x) as [|kd its] eqn:Ei.
    + (* x has no items *)
      unfold run_frames at 1 in E. rewrite Ei in E. cbn [map app] in E.
      cbn [flat_map]. unfold run_frames at 1. rewrite Ei. cbn [map app].
      cbn [map] in Hnd. inversion Hnd; subst. rewrite (IH H2 f fs E).
      cbn [map filter]. unfold nonempty at 2, run_dgram, run_data, run_frames. cbn [od_payload]. rewrite Ei. reflexivity.
    + unfold run_frames at 1 in E. rewrite Ei in E. cbn [map app] in E. injection E as Ef _. subst f. cbn [of_ts of_isserver].
      cbn [map] in Hnd. inversion Hnd as [|y l' Hr Hnd']; subst.
      cbn [flat_map]. unfold run_frames at 1.
      rewrite (group_same_key m (r_items x) (r_ts x) (r_srv x) [] (flat_map run_frames l) (r_ts x) eq_refl).
      fold (run_frames x). fold (run_data m x). cbn [app].
      rewrite (group_runs m l (r_ts x) (r_srv x) (run_data m x) Hr Hnd'). reflexivity.
Qed.

(* ---- -a only adds (C13, QUIC): the data exported without -a is the data exported with -a minus the frames only -a exports ---- *)
Definition is_stream (f : oframe) : bool := match of_kind f with OStream => true | _ => false end.

Lemma all_data_without_meta out : all_data false out = all_data true (filter is_stream out).
Proof.
  induction out as [|f r IH]; [reflexivity|]. rewrite all_data_cons. cbn [filter]. unfold is_stream at 1.
  unfold fdata at 1, frame_data. destruct (of_kind f); cbn [app]; rewrite ?all_data_cons; rewrite IH; try reflexivity.
  unfold fdata, frame_data. destruct (of_kind f) eqn:E; try reflexivity.
Qed.

Lemma filter_dir_stream b out : filter is_stream (dir_frames b out) = dir_frames b (filter is_stream out).
Proof.
  unfold dir_frames. induction out as [|f r IH]; [reflexivity|]. cbn [filter].
  destruct (Bool.eqb (of_isserver f) b) eqn:E1; destruct (is_stream f) eqn:E2; cbn [filter]; rewrite ?E1, ?E2, IH; reflexivity.
Qed.

Theorem meta_only_adds_quic b out :
  concat (map od_payload (dir_dgrams b (quic_build false out))) = all_data true (filter is_stream (dir_frames b out)) /\
  concat (map od_payload (dir_dgrams b (quic_build true out))) = all_data true (dir_frames b out).
Proof.
  split; [|apply build_per_direction]. rewrite build_per_direction. apply all_data_without_meta.
Qed.
