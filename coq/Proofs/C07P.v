(* C07 (TLS): exported packets keep the endpoints, the direction and a capture time of their origin. *)
From Coq Require Import ZArith List Bool Lia.
From Coq Require String.
Require Import PyLib PyLibP SuiteTypes Crypto KeySchedule Packet Reassembly Decryptor TlsSession OutputBuilder Frames Main BuilderP C13P.
Import ListNotations.
Open Scope Z_scope.

(* ---------- provenance: a record's metadata is exactly the buffered packets whose byte range meets the record's ---------- *)
Theorem metadata_is_overlap rs i rl p :
  In p (overlapping rs i rl) <-> exists a b, In (a, b, p) rs /\ i < b /\ a < i + rl.
Proof.
  unfold overlapping. rewrite in_map_iff. split.
  - intros ([[a b] q] & Hq & Hin). cbn [snd] in Hq. subst q. apply filter_In in Hin as [Hin Hc].
    apply andb_prop in Hc as [H1 H2]. apply Z.ltb_lt in H1. apply Z.gtb_lt in H2. exists a, b. auto.
  - intros (a & b & Hin & H1 & H2). exists (a, b, p). split; [reflexivity|]. apply filter_In. split; [exact Hin|].
    apply andb_true_intro. split; [apply Z.ltb_lt; exact H1|apply Z.gtb_lt; exact H2].
Qed.

(* the ranges are the consecutive byte ranges of the buffered packets, in buffer order *)
Lemma ranges_spec b : forall off a e p, In (a, e, p) (ranges b off) -> In p b /\ e = a + len (p_data p) /\ off <= a.
Proof.
  induction b as [|q b IH]; intros off a e p Hin; cbn [ranges] in Hin; [destruct Hin|].
  destruct Hin as [Heq|Hin].
  - injection Heq as <- <- <-. split; [left; reflexivity|]. split; lia.
  - destruct (IH _ _ _ _ Hin) as (H1 & H2 & H3). split; [right; exact H1|]. split; [exact H2|]. pose proof (len_nonneg (p_data q)). lia.
Qed.

(* ---------- time: every segment written for an entry carries the capture time of one of the record's carriers ---------- *)
Definition stamped (tss : list Z) (segs : list out_seg) : Prop := Forall (fun g => In (o_ts g) tss) segs.

Lemma emit_new st d p t : exists a b, b_out (emit st d p t) = b_out st ++ [a; b] /\ o_ts a = t /\ o_ts b = t /\
  o_from_server a = d /\ o_payload a = p /\ o_from_server b = negb d /\ o_payload b = [].
Proof. unfold emit. destruct d; cbn [b_out]; eexists _, _; (split; [reflexivity|]); cbn; repeat split; reflexivity. Qed.

Lemma emit_parts_stamped ps : forall st d ts st', emit_parts st d ps ts = Ok st' ->
  exists new, b_out st' = b_out st ++ new /\ stamped ts new /\
              Forall (fun g => o_payload g = [] \/ o_from_server g = d) new.
Proof.
  induction ps as [|p ps IH]; intros st d ts st' H; cbn [emit_parts] in H.
  - injection H as <-. exists []. rewrite app_nil_r. repeat split; constructor.
  - destruct ts as [|t ts]; [discriminate|]. destruct (IH _ _ _ _ H) as (new & Hn & Hs & Hd).
    destruct (emit_new st d p t) as (a & b & He & Ta & Tb & Da & _ & _ & Pb). exists ([a; b] ++ new). split; [rewrite Hn, He, <- app_assoc; reflexivity|]. split.
    + unfold stamped in *. apply Forall_app. split.
      * constructor; [left; symmetry; exact Ta|]. constructor; [left; symmetry; exact Tb|constructor].
      * eapply Forall_impl; [|exact Hs]. intros g Hg. right. exact Hg.
    + apply Forall_app. split; [|exact Hd]. constructor; [right; exact Da|]. constructor; [left; exact Pb|constructor].
Qed.

Theorem build_entry_stamped st e st' : build_entry st e = Ok st' ->
  exists new, b_out st' = b_out st ++ new /\ stamped (map p_ts (r_meta (te_record e))) new /\
              Forall (fun g => o_payload g = [] \/ o_from_server g = te_isserver e) new.
Proof. unfold build_entry. destruct (split_parts _ _); [|discriminate]. cbn [bind]. apply emit_parts_stamped. Qed.

(* the whole conversation: three handshake segments stamped with the first carrier of the first exported record, then, entry by
   entry, segments stamped with carriers of that entry's record; data flows in the entry's direction *)
Inductive conversation_of : list traffic_entry -> list out_seg -> Prop :=
| conv_nil : conversation_of [] []
| conv_entry e t new rest : stamped (map p_ts (r_meta (te_record e))) new ->
    Forall (fun g => o_payload g = [] \/ o_from_server g = te_isserver e) new ->
    conversation_of t rest -> conversation_of (e :: t) (new ++ rest).

Lemma build_entries_conv es : forall st st', build_entries st es = Ok st' -> exists tail, b_out st' = b_out st ++ tail /\ conversation_of es tail.
Proof.
  induction es as [|e es IH]; intros st st' H; cbn [build_entries] in H.
  - injection H as <-. exists []. rewrite app_nil_r. split; [reflexivity|constructor].
  - destruct (build_entry st e) as [st1|] eqn:E; [|discriminate]. cbn [bind] in H.
    destruct (build_entry_stamped _ _ _ E) as (new & Hn & Hs & Hd). destruct (IH _ _ H) as (tail & Ht & Hc).
    exists (new ++ tail). split; [rewrite Ht, Hn, <- app_assoc; reflexivity|]. constructor; assumption.
Qed.

Theorem build_provenance e t segs : build (e :: t) = Ok segs ->
  exists p0 tail, hd_error (r_meta (te_record e)) = Some p0 /\ segs = handshake (p_ts p0) ++ tail /\ conversation_of (e :: t) tail.
Proof.
  cbn [build]. destruct (r_meta (te_record e)) as [|p0 ps] eqn:Em; [discriminate|].
  destruct (build_entries _ (e :: t)) as [st|] eqn:E; [|discriminate]. cbn [bind]. intros H; injection H as <-.
  destruct (build_entries_conv _ _ _ E) as (tail & Ht & Hc). exists p0, tail. cbn [hd_error b_out] in *. auto.
Qed.

(* ---------- addressing: a frame goes from the sender's MAC/IP/port to the receiver's; the client port is the flow's ---------- *)
Record party := { pa_mac : bytes; pa_ip : bytes; pa_port : Z }.
Definition server_of (e : endpoints) : party := {| pa_mac := e_server_mac e; pa_ip := e_server_ip e; pa_port := e_server_port e |}.
Definition client_of (e : endpoints) : party := {| pa_mac := e_client_mac e; pa_ip := e_client_ip e; pa_port := e_client_port e |}.

(* a TCP frame from one party to another, direction-agnostic *)
Definition frame_from_to (v6 : bool) (snd rcv : party) (flags seq ack : Z) (payload : bytes) : result bytes :=
  do sg <- tcp_segment (pa_ip snd) (pa_ip rcv) (pa_port snd) (pa_port rcv) seq ack flags payload;
  do ip <- (if v6 then ipv6 (pa_ip snd) (pa_ip rcv) 6 sg else ipv4 (pa_ip snd) (pa_ip rcv) 6 sg);
  Ok (pa_mac rcv ++ pa_mac snd ++ (if v6 then [0x86; 0xDD] else [0x08; 0x00]) ++ ip).

Theorem frame_addressing e from_server flags seq ack payload :
  tcp_frame e from_server flags seq ack payload =
  frame_from_to (e_v6 e) (if from_server then server_of e else client_of e) (if from_server then client_of e else server_of e) flags seq ack payload.
Proof. unfold tcp_frame, frame_from_to, ether. destruct from_server; reflexivity. Qed.

(* roles are fixed by the first packet of the flow, and every later packet of the flow is attributed by comparing with them *)
Theorem session_roles p ports : let s := new_session p ports in
  (mem_Z (p_sport p) ports = true -> ts_server_ip s = p_src p /\ ts_server_port s = p_sport p /\ ts_server_mac s = p_smac p /\
                                     ts_client_ip s = p_dst p /\ ts_client_port s = p_dport p /\ ts_client_mac s = p_dmac p) /\
  (mem_Z (p_sport p) ports = false -> ts_server_ip s = p_dst p /\ ts_server_port s = p_dport p /\ ts_server_mac s = p_dmac p /\
                                      ts_client_ip s = p_src p /\ ts_client_port s = p_sport p /\ ts_client_mac s = p_smac p) /\
  ts_ipv6 s = p_v6 p.
Proof.
  cbv zeta. unfold new_session, session_handle_packet.
  destruct (mem_Z (p_sport p) ports) eqn:E;
    match goal with |- context [from_server ?s p] => destruct (from_server s p) end; cbn;
    repeat split; intros; try discriminate; reflexivity.
Qed.
