(* C05: what the record handler is given depends only on the byte stream each endpoint sent -- not on segmentation,
   nor on retransmitted duplicates, nor on how the two directions interleave. *)
From Coq Require Import ZArith List Bool Lia.
From Coq Require String.
Require Import PyLib PyLibP SuiteTypes Crypto KeySchedule Packet Reassembly Decryptor TlsSession ReasmP SessionP.
Import ListNotations.
Open Scope Z_scope.

Section T.
Variable C : Crypto.
Variable suite_table : list (Z * String.string).
Variable suite_parts : parts.
Variable keylog : list secret.
Variable sip : bytes.
Variable sport : Z.

Definition dir (d : bool) (ps : list packet) : list packet := filter (fun p => Bool.eqb (from_server_id sip sport p) d) ps.

(* the extraction side of get_tls_records alone: the records in the order they are handed to the handler *)
Record xstate := { x_sb : list packet; x_cb : list packet; x_sn : option Z; x_cn : option Z }.

Fixpoint gtr_trace (x : xstate) (ps : list packet) : result (xstate * list (bool * tls_record)) :=
  match ps with
  | [] => Ok (x, [])
  | p :: t =>
      if from_server_id sip sport p then
        do r <- extract (x_sn x) (x_sb x ++ [p]); let '(nx, buf, recs) := r in
        do y <- gtr_trace {| x_sb := buf; x_cb := x_cb x; x_sn := nx; x_cn := x_cn x |} t;
        Ok (fst y, map (pair true) recs ++ snd y)
      else
        do r <- extract (x_cn x) (x_cb x ++ [p]); let '(nx, buf, recs) := r in
        do y <- gtr_trace {| x_sb := x_sb x; x_cb := buf; x_sn := x_sn x; x_cn := nx |} t;
        Ok (fst y, map (pair false) recs ++ snd y)
  end.

Definition xof (st : rstate) : xstate := {| x_sb := rs_server_pbuf st; x_cb := rs_client_pbuf st; x_sn := rs_server_next st; x_cn := rs_client_next st |}.

Fixpoint handle_trace (c : tcore) (tr : list (bool * tls_record)) : result (tcore * list traffic_entry) :=
  match tr with
  | [] => Ok (c, [])
  | (d, r) :: t => do x <- handle_tls_record C suite_table suite_parts keylog c r d; do y <- handle_trace (fst x) t; Ok (fst y, snd x ++ snd y)
  end.

Lemma handle_trace_app a : forall b c, handle_trace c (a ++ b) =
  (do x <- handle_trace c a; do y <- handle_trace (fst x) b; Ok (fst y, snd x ++ snd y)).
Proof.
  induction a as [|[d r] a IH]; intros b c; cbn [app handle_trace bind].
  - cbn [fst snd app]. destruct (handle_trace c b) as [[c' e]|]; reflexivity.
  - destruct (handle_tls_record _ _ _ _ _ _ _) as [x|]; cbn [bind]; [|reflexivity]. rewrite IH.
    destruct (handle_trace (fst x) a) as [y|]; cbn [bind]; [|reflexivity].
    cbn [fst snd]. destruct (handle_trace (fst y) b) as [z|]; cbn [bind fst snd]; [|reflexivity]. rewrite app_assoc. reflexivity.
Qed.
Lemma handle_records_trace rs : forall c d, handle_records C suite_table suite_parts keylog c rs d = handle_trace c (map (pair d) rs).
Proof.
  induction rs as [|r rs IH]; intros c d; cbn [handle_records map handle_trace]; [reflexivity|].
  destruct (handle_tls_record _ _ _ _ _ _ _) as [x|]; cbn [bind]; [|reflexivity]. rewrite IH. reflexivity.
Qed.

(* get_tls_records hands the handler exactly the trace, in order, and collects what the handler emits *)
Theorem gtr_is_trace ps : forall st st', get_tls_records C suite_table suite_parts keylog sip sport st ps = Ok st' ->
  exists tr em, gtr_trace (xof st) ps = Ok (xof st', tr) /\
             handle_trace (rs_core st) tr = Ok (rs_core st', em) /\ rs_traffic st' = rs_traffic st ++ em.
Proof.
  induction ps as [|p ps IH]; intros st st' H; cbn [get_tls_records gtr_trace] in *.
  - injection H as <-. exists [], []. rewrite app_nil_r. repeat split; reflexivity.
  - destruct (feed_packet _ _ _ _ _ _ st p) as [st1|] eqn:E; [|discriminate]. cbn [bind] in H.
    destruct (IH _ _ H) as (tr & em & Ht & Hh & Hm). unfold feed_packet in E. cbn [xof x_sb x_cb x_sn x_cn].
    destruct (from_server_id sip sport p).
    + destruct (extract _ _) as [[[nx buf] recs]|]; [|discriminate]. cbn [bind] in E.
      destruct (handle_records _ _ _ _ _ _ _) as [x|] eqn:Ec; [|discriminate]. cbn [bind] in E. injection E as <-.
      unfold xof in Ht. cbn [rs_server_pbuf rs_client_pbuf rs_server_next rs_client_next rs_core rs_traffic bind] in *. rewrite Ht. cbn [bind fst snd].
      eexists _, (snd x ++ em). split; [reflexivity|]. split.
      * rewrite handle_trace_app. rewrite <- handle_records_trace, Ec. cbn [bind]. rewrite Hh. reflexivity.
      * rewrite Hm, app_assoc. reflexivity.
    + destruct (extract _ _) as [[[nx buf] recs]|]; [|discriminate]. cbn [bind] in E.
      destruct (handle_records _ _ _ _ _ _ _) as [x|] eqn:Ec; [|discriminate]. cbn [bind] in E. injection E as <-.
      unfold xof in Ht. cbn [rs_server_pbuf rs_client_pbuf rs_server_next rs_client_next rs_core rs_traffic bind] in *. rewrite Ht. cbn [bind fst snd].
      eexists _, (snd x ++ em). split; [reflexivity|]. split.
      * rewrite handle_trace_app. rewrite <- handle_records_trace, Ec. cbn [bind]. rewrite Hh. reflexivity.
      * rewrite Hm, app_assoc. reflexivity.
Qed.

Definition side (d : bool) (tr : list (bool * tls_record)) : list tls_record := map snd (filter (fun x => Bool.eqb (fst x) d) tr).
Lemma side_app d a b : side d (a ++ b) = side d a ++ side d b.
Proof. unfold side. rewrite filter_app, map_app. reflexivity. Qed.
Lemma side_same d rs : side d (map (pair d) rs) = rs.
Proof. unfold side. induction rs as [|r rs IH]; cbn [map filter fst]; [reflexivity|]. rewrite eqb_reflx. cbn [map snd]. f_equal. exact IH. Qed.
Lemma side_other d rs : side (negb d) (map (pair d) rs) = [].
Proof. unfold side. induction rs as [|r rs IH]; cbn [map filter fst]; [reflexivity|]. destruct d; cbn [Bool.eqb negb]; exact IH. Qed.

(* each direction is an independent reassembly machine fed its own packets: interleaving does not matter *)
Theorem trace_per_direction ps : forall x x' tr, gtr_trace x ps = Ok (x', tr) ->
  feed (x_sn x) (x_sb x) (dir true ps) = Ok (x_sn x', x_sb x', side true tr) /\
  feed (x_cn x) (x_cb x) (dir false ps) = Ok (x_cn x', x_cb x', side false tr).
Proof.
  induction ps as [|p ps IH]; intros x x' tr H; cbn [gtr_trace dir filter] in *.
  - injection H as <- <-. split; reflexivity.
  - fold (dir true ps) (dir false ps). destruct (from_server_id sip sport p) eqn:Ed; cbn [Bool.eqb feed].
    + destruct (extract (x_sn x) (x_sb x ++ [p])) as [[[nx buf] recs]|]; [|discriminate]. cbn [bind] in H.
      destruct (gtr_trace _ ps) as [[x1 tr1]|] eqn:E; [|discriminate]. cbn [bind fst snd] in H. injection H as <- <-.
      destruct (IH _ _ _ E) as [H1 H2]. cbn [x_sb x_cb x_sn x_cn] in *. cbn [bind]. rewrite H1. cbn [bind]. split.
      * rewrite side_app, side_same. reflexivity.
      * rewrite side_app. rewrite (side_other true). exact H2.
    + destruct (extract (x_cn x) (x_cb x ++ [p])) as [[[nx buf] recs]|]; [|discriminate]. cbn [bind] in H.
      destruct (gtr_trace _ ps) as [[x1 tr1]|] eqn:E; [|discriminate]. cbn [bind fst snd] in H. injection H as <- <-.
      destruct (IH _ _ _ E) as [H1 H2]. cbn [x_sb x_cb x_sn x_cn] in *. cbn [bind]. rewrite H2. cbn [bind]. split.
      * rewrite side_app. rewrite (side_other false). exact H1.
      * rewrite side_app, side_same. reflexivity.
Qed.
End T.

(* ---------- duplicate suppression inside the session object ---------- *)
Definition dirs (s : tsession) (d : bool) (ps : list packet) : list packet := filter (fun p => Bool.eqb (from_server s p) d) ps.
Definition seen (s : tsession) (d : bool) : list Z := if d then ts_seen_server s else ts_seen_client s.

Lemma handle_packet_id s p : ts_server_ip (session_handle_packet s p) = ts_server_ip s /\ ts_server_port (session_handle_packet s p) = ts_server_port s.
Proof. unfold session_handle_packet. destruct (mem_Z _ _); split; reflexivity. Qed.

Lemma from_server_stable s p q : from_server (session_handle_packet s p) q = from_server s q.
Proof. unfold from_server. destruct (handle_packet_id s p) as [-> ->]. reflexivity. Qed.

Lemma dirs_stable s p d ps : dirs (session_handle_packet s p) d ps = dirs s d ps.
Proof. unfold dirs. apply filter_ext. intros q. rewrite from_server_stable. reflexivity. Qed.

(* the session's per-direction view (seen sequence numbers, buffered packets of that direction) evolves by `accept` *)
Lemma handle_packet_accept s p d :
  (seen (session_handle_packet s p) d, dirs s d (ts_packet_buffer (session_handle_packet s p))) =
  if Bool.eqb (from_server s p) d then accept (seen s d, dirs s d (ts_packet_buffer s)) p else (seen s d, dirs s d (ts_packet_buffer s)).
Proof.
  unfold session_handle_packet, accept, seen, dirs. cbn [fst snd].
  destruct (from_server s p) eqn:Ef, d; cbn [Bool.eqb];
    destruct (mem_Z (p_seq p) _) eqn:Em; cbn [ts_seen_server ts_seen_client ts_packet_buffer]; try reflexivity;
    rewrite filter_app; cbn [filter]; rewrite Ef; cbn [Bool.eqb]; rewrite ?app_nil_r; reflexivity.
Qed.

Theorem session_buffer_is_accept ps : forall s d,
  (seen (fold_left session_handle_packet ps s) d, dirs s d (ts_packet_buffer (fold_left session_handle_packet ps s))) =
  fold_left accept (dirs s d ps) (seen s d, dirs s d (ts_packet_buffer s)).
Proof.
  induction ps as [|p ps IH]; intros s d; cbn [fold_left]; [reflexivity|].
  specialize (IH (session_handle_packet s p) d). rewrite !dirs_stable in IH. rewrite IH. rewrite handle_packet_accept.
  change (dirs s d (p :: ps)) with (if Bool.eqb (from_server s p) d then p :: dirs s d ps else dirs s d ps).
  destruct (Bool.eqb (from_server s p) d); reflexivity.
Qed.
