(* C01, from the ServerHello to the decryptor for SSL 3.0 - TLS 1.2: generate_keys hands the derived key block (C15: what it is) to
   Decryptor.__init__, and the session gets the decryptor that the session theorems of each protection class start from. *)
From Coq Require Import ZArith List Bool Lia.
From Coq Require String.
Require Import PyLib PyLibP SuiteTypes SuiteParser Crypto KeySchedule Packet Reassembly Decryptor TlsSession TlsRecords C01P C01SessionP C01Session12P C01SessionLegacyP Fresh12P.
Import ListNotations.
Open Scope Z_scope.

Section Keys12.
Variable C : Crypto.
Variable tbl : list (Z * String.string).
Variable parts : SuiteTypes.parts.
Variable keylog : list secret.

Definition block_size_of (cs : suite) : Z :=
  match algo_of cs with Some AES | Some AESCCM | Some AESGCM | Some Camellia => 128 | Some TripleDES | Some IDEA => 64 | _ => 0 end.

(* with a suite of the table, at least one key-log line for the client random and a successful derivation, generate_keys is the constructor call *)
Lemma generate_keys_constructs s v suite sr cs x xs keys :
  split_cipher_suite tbl parts (from_be suite) = Some cs -> find_session_secrets keylog s = x :: xs ->
  derive_session_keys C v cs (x :: xs) (ts_client_random s) sr = Ok keys ->
  generate_keys C tbl parts keylog s v suite sr =
  match new_decryptor (algo_of cs) keys v (digest_size (s_mac cs)) (s_tag cs) (block_size_of cs) (ts_extensions s) (ts_compression s) with
  | Ok d => Ok (set_dec s (Some d)) | Exn _ => Ok (set_can s false) end.
Proof. intros Hs Hf Hk. unfold generate_keys. rewrite Hs, Hf, Hk. reflexivity. Qed.

Theorem keys_installed_aead s v suite sr cs a x xs k stc sts n :
  split_cipher_suite tbl parts (from_be suite) = Some cs -> find_session_secrets keylog s = x :: xs ->
  derive_session_keys C v cs (x :: xs) (ts_client_random s) sr = Ok (K12 k) ->
  algo_of cs = Some a -> a = AESGCM \/ a = AESCCM -> v <> TLS13 -> ts_compression s = 0 -> ss_seq stc = 0 -> ss_seq sts = 0 -> Z.of_nat n <= 2 ^ 64 ->
  exists d, generate_keys C tbl parts keylog s v suite sr = Ok (set_dec s (Some d)) /\ C01Session12P.class12 a d /\
            P12 false (client_key k) (client_iv k) (s_tag cs) n d stc /\ P12 true (server_key k) (server_iv k) (s_tag cs) n d sts.
Proof.
  intros Hs Hf Hk Ha Haa Hv Hc H1 H2 Hn. rewrite (generate_keys_constructs _ _ _ _ _ _ _ _ Hs Hf Hk), Ha.
  destruct (fresh12_aead k (digest_size (s_mac cs)) (s_tag cs) (block_size_of cs) (ts_compression s) (ts_extensions s) a v stc sts n Haa Hv Hc H1 H2 Hn) as (d & Hd & Hrest).
  rewrite Hd. exists d. split; [reflexivity|exact Hrest].
Qed.

Theorem keys_installed_chacha s suite sr cs x xs k stc sts n :
  split_cipher_suite tbl parts (from_be suite) = Some cs -> find_session_secrets keylog s = x :: xs ->
  derive_session_keys C TLS12 cs (x :: xs) (ts_client_random s) sr = Ok (K12 k) ->
  algo_of cs = Some ChaCha20Poly1305 -> ts_compression s = 0 -> ss_seq stc = 0 -> ss_seq sts = 0 -> Z.of_nat n <= 2 ^ 64 ->
  exists d, generate_keys C tbl parts keylog s TLS12 suite sr = Ok (set_dec s (Some d)) /\ Chacha.class12 d /\
            P12 false (client_key k) (client_iv k) (s_tag cs) n d stc /\ P12 true (server_key k) (server_iv k) (s_tag cs) n d sts.
Proof.
  intros Hs Hf Hk Ha Hc H1 H2 Hn. rewrite (generate_keys_constructs _ _ _ _ _ _ _ _ Hs Hf Hk), Ha.
  destruct (fresh12_chacha k (digest_size (s_mac cs)) (s_tag cs) (block_size_of cs) (ts_compression s) (ts_extensions s) stc sts n Hc H1 H2 Hn) as (d & Hd & Hrest).
  rewrite Hd. exists d. split; [reflexivity|exact Hrest].
Qed.

Theorem keys_installed_rc4 s v suite sr cs x xs k stc sts n :
  split_cipher_suite tbl parts (from_be suite) = Some cs -> find_session_secrets keylog s = x :: xs ->
  derive_session_keys C v cs (x :: xs) (ts_client_random s) sr = Ok (K12 k) ->
  algo_of cs = Some ARC4 -> v <> TLS13 -> 5 <= len (client_key k) <= 32 -> 5 <= len (server_key k) <= 32 -> 0 < digest_size (s_mac cs) -> ss_off stc = 0 -> ss_off sts = 0 ->
  exists d, generate_keys C tbl parts keylog s v suite sr = Ok (set_dec s (Some d)) /\ Qrc4 (client_key k) (server_key k) (digest_size (s_mac cs)) n d stc sts.
Proof.
  intros Hs Hf Hk Ha Hv L1 L2 Hm H1 H2. rewrite (generate_keys_constructs _ _ _ _ _ _ _ _ Hs Hf Hk), Ha.
  destruct (fresh12_rc4 k (digest_size (s_mac cs)) (s_tag cs) (block_size_of cs) (ts_compression s) (ts_extensions s) v stc sts n Hv L1 L2 Hm H1 H2) as (d & Hd & Hrest).
  rewrite Hd. exists d. split; [reflexivity|exact Hrest].
Qed.

Theorem keys_installed_cbc_explicit s v suite sr cs a x xs k stc sts n :
  split_cipher_suite tbl parts (from_be suite) = Some cs -> find_session_secrets keylog s = x :: xs ->
  derive_session_keys C v cs (x :: xs) (ts_client_random s) sr = Ok (K12 k) ->
  algo_of cs = Some a -> get_cipher_type (Some a) = CT_Block -> v = TLS12 \/ v = TLS11 -> ts_compression s = 0 -> 0 < digest_size (s_mac cs) ->
  exists d, generate_keys C tbl parts keylog s v suite sr = Ok (set_dec s (Some d)) /\
            Qcbce (client_key k) (server_key k) a (existsb (fun e => bytes_eqb (fst e) [0; 22]) (ts_extensions s)) (digest_size (s_mac cs)) n d stc sts.
Proof.
  intros Hs Hf Hk Ha Hb Hv Hc Hm. rewrite (generate_keys_constructs _ _ _ _ _ _ _ _ Hs Hf Hk), Ha.
  destruct (fresh12_cbc_explicit k (digest_size (s_mac cs)) (s_tag cs) (block_size_of cs) (ts_compression s) (ts_extensions s) a v stc sts n Hb Hv Hc Hm) as (d & Hd & Hrest).
  rewrite Hd. exists d. split; [reflexivity|exact Hrest].
Qed.

Theorem keys_installed_cbc_chained s v suite sr cs a x xs k stc sts n :
  split_cipher_suite tbl parts (from_be suite) = Some cs -> find_session_secrets keylog s = x :: xs ->
  derive_session_keys C v cs (x :: xs) (ts_client_random s) sr = Ok (K12 k) ->
  algo_of cs = Some a -> get_cipher_type (Some a) = CT_Block -> v = TLS10 \/ v = SSL30 -> ts_compression s = 0 -> 0 < digest_size (s_mac cs) ->
  ss_last stc = client_iv k -> ss_last sts = server_iv k ->
  exists d, generate_keys C tbl parts keylog s v suite sr = Ok (set_dec s (Some d)) /\
            Qcbcc (client_key k) (server_key k) a (existsb (fun e => bytes_eqb (fst e) [0; 22]) (ts_extensions s)) (digest_size (s_mac cs)) (block_size_of cs) n d stc sts.
Proof.
  intros Hs Hf Hk Ha Hb Hv Hc Hm L1 L2. rewrite (generate_keys_constructs _ _ _ _ _ _ _ _ Hs Hf Hk), Ha.
  destruct (fresh12_cbc_chained k (digest_size (s_mac cs)) (s_tag cs) (block_size_of cs) (ts_compression s) (ts_extensions s) a v stc sts n Hb Hv Hc Hm L1 L2) as (d & Hd & Hrest).
  rewrite Hd. exists d. split; [reflexivity|exact Hrest].
Qed.
End Keys12.

(* the premises about the suite hold on the table regenerated from the source: every suite that resolves to RC4 or a block cipher has a
   MAC with a positive digest size, and every class is inhabited *)
Require SuiteTable.
Example table_suites_have_macs :
  forallb (fun e => match split_cipher_suite SuiteTable.table SuiteTable.parts (fst e) with
                    | Some cs => match algo_of cs with
                                 | Some ARC4 => 0 <? digest_size (s_mac cs)
                                 | Some a => match get_cipher_type (Some a) with CT_Block => 0 <? digest_size (s_mac cs) | _ => true end
                                 | None => true end
                    | None => true end) SuiteTable.table = true.
Proof. vm_compute. reflexivity. Qed.
Example classes_inhabited :
  map (fun code => match split_cipher_suite SuiteTable.table SuiteTable.parts code with Some cs => algo_of cs | None => None end) [0xC02F; 0xC0AC; 0xCCA8; 0x0005; 0x002F; 0x000A]
  = [Some AESGCM; Some AESCCM; Some ChaCha20Poly1305; Some ARC4; Some AES; Some TripleDES].
Proof. vm_compute. reflexivity. Qed.
