(* C02, Initial packets: the receiving side of an Initial packet protected per RFC 9001 (token, always the AES mask). *)
From Coq Require Import ZArith List Bool Lia.
Require Import PyLib PyLibP SuiteTypes Crypto KeySchedule QuicKeys Varint QuicPn QuicDissector TlsRecords C17RoundP QuicShortP QuicLongPackets QuicLongP.
Import ListNotations.
Open Scope Z_scope.

Lemma take_first_of_part (ps : list bytes) i o : (i < length ps)%nat -> o = len (concat (firstn i ps)) -> forall part, nth i ps [] = part -> 1 <= len part ->
  take (concat ps) o 1 = Ok (slice part 0 1).
Proof.
  intros Hi -> part Hp Hl. pose proof (len_concat_le ps i) as Hle. rewrite Hp in Hle. pose proof (len_nonneg (concat (firstn i ps))) as H0.
  unfold take. replace ((1 <? 0) || (len (concat ps) <? len (concat (firstn i ps)) + 1)) with false by (symmetry; apply orb_false_iff; split; [reflexivity|apply Z.ltb_ge; lia]).
  f_equal. pose proof (slice_part ps i Hi) as H. rewrite Hp in H.
  rewrite !slice_eq in *. set (o := len (concat (firstn i ps))) in *.
  replace (Z.to_nat (o + 1 - o)) with 1%nat by lia. replace (Z.to_nat (o + len part - o)) with (length part) in H by (unfold len; lia).
  change (Z.to_nat (1 - 0)) with 1%nat. change (Z.to_nat 0) with 0%nat. cbn [skipn].
  rewrite <- H. rewrite firstn_firstn. f_equal. unfold len in Hl. lia.
Qed.

Definition initial_ok (f x : Z) : bool :=
  let p := Z.lxor f x in
  (0 <? p) && (p <? 256) && (Z.lxor p x =? f) && (Z.land (Z.shiftr p 7) 1 =? 1) && (Z.shiftr (Z.land p 48) 4 =? 0).
Lemma initial_sweep : forallb (fun f => forallb (fun x => initial_ok (192 + f) x) (map Z.of_nat (seq 0 16))) (map Z.of_nat (seq 0 16)) = true.
Proof. vm_compute. reflexivity. Qed.
Lemma initial_facts f x : 192 <= f < 208 -> 0 <= x < 16 -> initial_ok f x = true.
Proof.
  intros Hf Hx. pose proof (range_forall _ 16 initial_sweep (f - 192) ltac:(lia)) as H. cbv beta in H. replace (192 + (f - 192)) with f in H by lia.
  exact (range_forall _ 16 H x ltac:(lia)).
Qed.

Section Initial.
Variable C : Crypto.
Hypothesis L : CryptoLaws C.

Theorem extract_initial a (hp key iv : bytes) first (version dcid scid token pnb pn8 payload d rest g : bytes) w wt ts (srv chacha : bool) keys :
  192 <= first < 208 -> len pnb = Z.land first 3 + 1 -> len version = 4 -> from_be version <> 0 -> bytes_ok version ->
  len dcid < 256 -> len scid < 64 -> bytes_ok dcid -> bytes_ok scid -> bytes_ok pnb -> bytes_ok rest ->
  wok w -> len pnb + len payload + 16 < 2 ^ (8 * w - 2) -> 4 <= len pnb + len payload -> wok wt -> len token < 2 ^ (8 * wt - 2) -> bytes_ok token ->
  (if srv then hp_server_initial keys else hp_client_initial keys) = Some hp ->
  protect_initial C a hp key iv first version dcid scid token pnb pn8 payload w wt = Ok d ->
  (forall sample mask, c_ecb_enc C hp sample = Ok mask -> 5 <= len mask /\ bytes_ok mask) ->
  (forall nonce pt aad ct, c_aead_enc C a 16 key nonce pt aad = Ok ct -> bytes_ok ct) ->
  let plb := enc_var (len pnb + len payload + 16) w in let tlb := enc_var (len token) wt in
  exists ct, c_aead_enc C a 16 key (quic_nonce iv pn8) payload (([first] ++ version ++ [len dcid] ++ dcid ++ [len scid] ++ scid ++ tlb ++ token ++ plb) ++ pnb) = Ok ct /\
  extract_inner C (d ++ rest) ts srv g keys chacha =
    Ok ([ mk_long QInitial srv ts [first] version [len dcid] dcid [len scid] scid tlb token plb pnb ct [] ], rest).
Proof.
  intros Hf Hpl Hvl Hvz Hvok Hdl Hsl Hdok Hsok Hpok Hrok Hw HL Hroom Hwt HT Htok Hhp Hprot Hmask Hct plb tlb.
  unfold protect_initial in Hprot. fold plb in Hprot. fold tlb in Hprot.
  set (pre := [first] ++ version ++ [len dcid] ++ dcid ++ [len scid] ++ scid ++ tlb ++ token ++ plb) in *.
  destruct (c_aead_enc C a 16 key (quic_nonce iv pn8) payload (pre ++ pnb)) as [ct|] eqn:Ect; [|discriminate]. cbn [bind] in Hprot.
  set (sample := slice ((pre ++ pnb) ++ ct) (len pre + 4) (len pre + 20)) in *.
  destruct (c_ecb_enc C hp sample) as [mask|] eqn:Em; [|discriminate]. cbn [bind] in Hprot.
  destruct (Hmask sample mask Em) as [Hml Hmok]. pose proof (Hct _ _ _ _ Ect) as Hctok.
  destruct (aead_rt C L _ _ _ _ _ _ _ Ect) as [_ Hctl].
  destruct mask as [|m0 mrest]; [unfold len in Hml; cbn in Hml; lia|].
  assert (Hidx : index (m0 :: mrest) 0 = Ok m0).
  { unfold index. change (0 <? 0) with false. cbv iota. change (0 <? 0) with false. replace (len (m0 :: mrest) <=? 0) with false by (symmetry; apply Z.leb_gt; lia). reflexivity. }
  rewrite Hidx in Hprot. cbn [bind] in Hprot. injection Hprot as <-.
  exists ct. split; [reflexivity|].
  set (x := Z.land m0 15). pose proof (land15 m0) as Hx. fold x in Hx.
  pose proof (initial_facts first x Hf Hx) as Hff. unfold initial_ok in Hff. cbv zeta in Hff. set (pf := Z.lxor first x) in *.
  apply andb_true_iff in Hff as [Hff Hty]. apply andb_true_iff in Hff as [Hff Hlong]. apply andb_true_iff in Hff as [Hff Hback]. apply andb_true_iff in Hff as [Hp0 Hp1].
  apply Z.ltb_lt in Hp0, Hp1. apply Z.eqb_eq in Hback, Hty.
  pose proof (len_nonneg dcid) as Hd0. pose proof (len_nonneg scid) as Hs0. pose proof (len_nonneg payload) as Hy0. pose proof (len_nonneg ct) as Hc0.
  assert (Hpl4 : 1 <= len pnb <= 4).
  { rewrite Hpl. change 3 with (Z.ones 2). rewrite Z.land_ones by lia. change (2 ^ 2) with 4. pose proof (Z.mod_pos_bound first 4 ltac:(lia)). lia. }
  destruct (varint_roundtrip (len pnb + len payload + 16) w Hw ltac:(lia)) as (Hvlen & Hvdec & Hvl' & Hvok'). fold plb in Hvlen, Hvdec, Hvl', Hvok'.
  pose proof (len_nonneg token) as Ht0.
  destruct (varint_roundtrip (len token) wt Hwt ltac:(lia)) as (Htlen & Htdec & Htl' & Htok'). fold tlb in Htlen, Htdec, Htl', Htok'.
  assert (Hwt1 : 1 <= wt <= 8) by (destruct Hwt as [->|[->|[->| ->]]]; lia).
  assert (Hw1 : 1 <= w <= 8) by (destruct Hw as [->|[->|[->| ->]]]; lia).
  set (mk := slice (m0 :: mrest) 1 (len pnb + 1)).
  assert (Hmk : (length pnb <= length mk)%nat).
  { unfold mk. rewrite slice_eq. replace (Z.to_nat (len pnb + 1 - 1)) with (length pnb) by (unfold len; lia). change (Z.to_nat 1) with 1%nat. cbn [skipn].
    rewrite firstn_length. unfold len in Hml, Hpl4. cbn [length] in Hml. lia. }
  set (ppn := xor_zip pnb mk).
  assert (Hppl : len ppn = len pnb) by (apply xor_zip_len; exact Hmk).
  (* the datagram as a list of parts *)
  set (ps := [[pf]; version; [len dcid]; dcid; [len scid]; scid; tlb; token; plb; ppn; ct; rest]).
  assert (Hd : ([pf] ++ version ++ [len dcid] ++ dcid ++ [len scid] ++ scid ++ tlb ++ token ++ plb ++ ppn ++ ct) ++ rest = concat ps).
  { unfold ps. cbn [concat]. rewrite app_nil_r, <- !app_assoc. reflexivity. }
  fold mk. fold ppn.
  change ((pf :: version ++ len dcid :: dcid ++ len scid :: scid ++ tlb ++ token ++ plb ++ ppn ++ ct) ++ rest) with (([pf] ++ version ++ [len dcid] ++ dcid ++ [len scid] ++ scid ++ tlb ++ token ++ plb ++ ppn ++ ct) ++ rest).
  rewrite Hd.
  assert (Hn : length ps = 12%nat) by reflexivity.
  assert (Lpre : len pre = 7 + len dcid + len scid + wt + len token + w) by (unfold pre; cbn [app]; len_norm; lia).
  assert (Ltot : len (concat ps) = 7 + len dcid + len scid + wt + len token + w + len pnb + len ct + len rest).
  { unfold ps. cbn [concat app]. len_norm. lia. }
  pose proof (len_nonneg rest) as Hr0.
  (* what extract_inner reads *)
  assert (Hi0 : index (concat ps) 0 = Ok pf) by (apply (index_part ps 0); [unfold ps; cbn [length]; lia|reflexivity|reflexivity]).
  assert (Hlong' : get_header_type_long (concat ps) = Ok true) by (unfold get_header_type_long; rewrite Hi0; cbn [bind]; rewrite Hlong; reflexivity).
  assert (Hnz : (from_be (concat ps) =? 0) = false).
  { apply Z.eqb_neq. unfold ps. cbn [concat app]. 
    assert (Hbok : bytes_ok ppn).
    { unfold ppn. assert (Hm' : bytes_ok mk) by (apply bytes_ok_slice; exact Hmok). clear -Hpok Hm'. revert Hm'. generalize mk. induction pnb as [|p1 pr IH]; intros mm Hmm; [constructor|].
      destruct mm as [|q mm]; [constructor|]. cbn [xor_zip]. inversion Hpok; inversion Hmm; subst. constructor; [|apply IH; assumption].
      split; [apply Z.lxor_nonneg; lia|].
      destruct (Z.eq_dec (Z.lxor p1 q) 0) as [->|Hne]; [lia|]. assert (0 <= Z.lxor p1 q) by (apply Z.lxor_nonneg; lia). apply Z.log2_lt_cancel. change (Z.log2 256) with 8.
      pose proof (Z.log2_lxor p1 q ltac:(lia) ltac:(lia)).
      assert (Z.log2 p1 < 8) by (destruct (Z.eq_dec p1 0) as [->|]; [cbn; lia|apply Z.log2_lt_pow2; lia]).
      assert (Z.log2 q < 8) by (destruct (Z.eq_dec q 0) as [->|]; [cbn; lia|apply Z.log2_lt_pow2; lia]). lia. }
    match goal with |- from_be (pf :: ?l) <> 0 =>
      assert (Hlok : bytes_ok l) by (repeat first [assumption | apply Forall_nil | (apply bytes_ok_app; [assumption|]) | (apply Forall_cons; [lia|])]);
      pose proof (from_be_pos pf l ltac:(lia) Hlok) end. lia. }
  assert (Ht6 : exists h6, take (concat ps) 0 6 = Ok h6).
  { unfold take. replace ((6 <? 0) || (len (concat ps) <? 0 + 6)) with false; [eexists; reflexivity|]. symmetry. apply orb_false_iff. split; [reflexivity|apply Z.ltb_ge; lia]. }
  destruct Ht6 as [h6 Ht6].
  assert (Hver : slice (concat ps) 1 5 = version).
  { pose proof (slice_part ps 1 ltac:(unfold ps; cbn [length]; lia)) as H. unfold ps in H. cbn [firstn concat nth app] in H. change (len [pf]) with 1 in H. rewrite Hvl in H. exact H. }
  assert (Hdlx : index (concat ps) 5 = Ok (len dcid)) by (apply (index_part ps 2); [unfold ps; cbn [length]; lia|unfold ps; cbn [firstn concat app]; len_norm; lia|reflexivity]).
  assert (Hdc : take (concat ps) 6 (len dcid) = Ok dcid).
  { apply (take_part ps 3); [unfold ps; cbn [length]; lia| |reflexivity]. unfold ps; cbn [firstn concat app]; len_norm; lia. }
  assert (Hslb : take (concat ps) (6 + len dcid) 1 = Ok [len scid]).
  { apply (take_part ps 4); [unfold ps; cbn [length]; lia| |reflexivity]. unfold ps; cbn [firstn concat app]; len_norm; lia. }
  assert (Hsc : take (concat ps) (7 + len dcid) (len scid) = Ok scid).
  { apply (take_part ps 5); [unfold ps; cbn [length]; lia| |reflexivity]. unfold ps; cbn [firstn concat app]; len_norm; lia. }
  set (o := 7 + len dcid + len scid).
  assert (Ho : o = len (concat (firstn 6 ps))).
  { unfold ps; cbn [firstn concat app]; len_norm; unfold o; lia. }
  assert (Htlb : take (concat ps) o wt = Ok tlb) by (apply (take_part ps 6); [unfold ps; cbn [length]; lia|exact Ho|symmetry; exact Htl']).
  assert (Hb1 : take (concat ps) o 1 = Ok (slice tlb 0 1)) by (apply (take_first_of_part ps 6); [unfold ps; cbn [length]; lia|exact Ho|reflexivity|lia]).
  assert (Htokn : take (concat ps) (o + wt) (len token) = Ok token).
  { apply (take_part ps 7); [unfold ps; cbn [length]; lia| |reflexivity]. unfold ps; cbn [firstn concat app]; len_norm; unfold o; lia. }
  set (o2 := o + wt + len token).
  assert (Ho2 : o2 = len (concat (firstn 8 ps))).
  { unfold ps; cbn [firstn concat app]; len_norm; unfold o2, o; lia. }
  assert (Hplb : take (concat ps) o2 w = Ok plb) by (apply (take_part ps 8); [unfold ps; cbn [length]; lia|exact Ho2|symmetry; exact Hvl']).
  assert (Hb2 : take (concat ps) o2 1 = Ok (slice plb 0 1)) by (apply (take_first_of_part ps 8); [unfold ps; cbn [length]; lia|exact Ho2|reflexivity|lia]).
  set (pn_off := o2 + w).
  assert (Hpo : pn_off = len (concat (firstn 9 ps))).
  { unfold ps; cbn [firstn concat app]; len_norm; unfold pn_off, o2, o; lia. }
  assert (Hsample : slice (concat ps) (pn_off + 4) (pn_off + 20) = sample).
  { unfold sample. rewrite Lpre. fold o. fold o2. fold pn_off.
    assert (E1 : concat ps = (([pf] ++ version ++ [len dcid] ++ dcid ++ [len scid] ++ scid ++ tlb ++ token ++ plb ++ ppn) ++ ct) ++ rest).
    { unfold ps. cbn [concat]. rewrite app_nil_r, <- !app_assoc. reflexivity. }
    rewrite E1.
    assert (LA : len ([pf] ++ version ++ [len dcid] ++ dcid ++ [len scid] ++ scid ++ tlb ++ token ++ plb ++ ppn) = pn_off + len pnb) by (cbn [app]; len_norm; unfold pn_off, o2, o; lia).
    assert (LA' : len (pre ++ pnb) = pn_off + len pnb) by (rewrite len_app, Lpre; unfold pn_off, o2, o; lia).
    rewrite slice_app_l by (first [unfold pn_off, o2, o; lia | (rewrite len_app, LA; lia)]).
    rewrite slice_skip by (rewrite LA; lia). rewrite (slice_skip (pre ++ pnb)) by (rewrite LA'; lia). rewrite LA, LA'. reflexivity. }
  assert (Hpnslice : slice (concat ps) pn_off (pn_off + len pnb) = ppn).
  { rewrite Hpo, <- Hppl. exact (slice_part ps 9 ltac:(unfold ps; cbn [length]; lia)). }
  assert (Htk2 : take (concat ps) pn_off (len pnb) = Ok ppn) by (apply (take_part ps 9); [unfold ps; cbn [length]; lia|exact Hpo|symmetry; exact Hppl]).
  assert (Hpay : take (concat ps) (pn_off + len pnb) (len pnb + len payload + 16 - len pnb) = Ok ct).
  { apply (take_part ps 10); [unfold ps; cbn [length]; lia| |unfold ps; cbn [nth]; lia]. unfold ps; cbn [firstn concat app]; len_norm; unfold pn_off, o2, o; lia. }
  assert (Hrest : slice_from (concat ps) (pn_off + len pnb + len ct) = rest).
  { replace (pn_off + len pnb + len ct) with (len (concat (firstn 11 ps))) by (unfold ps; cbn [firstn concat app]; len_norm; unfold pn_off, o2, o; lia).
    rewrite slice_from_part. unfold ps. cbn [skipn concat]. apply app_nil_r. }
  (* run extract_inner *)
  unfold extract_inner. rewrite Hlong'. cbn [bind]. rewrite Hnz. cbv iota. rewrite Ht6. cbn [bind]. rewrite Hi0. cbn [bind]. cbv zeta.
  rewrite Hdlx. cbn [bind]. rewrite Hdc. cbn [bind]. rewrite Hslb. cbn [bind]. rewrite (varint_one (len scid)) by lia. cbn [bind].
  rewrite Hsc. cbn [bind]. rewrite (to_be_one (len dcid)) by lia. cbn [bind]. rewrite (to_be_one (len scid)) by lia. cbn [bind].
  rewrite Hver. replace (from_be version =? 0) with false by (symmetry; apply Z.eqb_neq; exact Hvz). rewrite Hty.
  change (0 =? 0) with true. cbv iota.
  fold o. rewrite Hb1. cbn [bind]. rewrite Htlen. cbn [bind]. rewrite Htlb. cbn [bind]. rewrite Htdec. cbn [bind]. rewrite Htokn. cbn [bind].
  fold o2. rewrite Hb2. cbn [bind]. rewrite Hvlen. cbn [bind]. rewrite Hplb. cbn [bind]. rewrite Hvdec. cbn [bind].
  assert (Hchk : exists cb, to_be (len pnb + len payload + 16) w = Ok cb).
  { rewrite to_be_ok; [eexists; reflexivity|lia|]. split; [lia|]. eapply Z.lt_trans; [exact HL|]. rewrite <- pow256 by lia. apply Z.pow_lt_mono_r; lia. }
  destruct Hchk as [cb ->]. cbn [bind].
  fold pn_off. rewrite Hsample, Hhp. cbn [key_of bind].
  unfold remove_header_protection. cbv iota. rewrite Em. cbn [bind]. rewrite Hidx. cbn [bind]. fold x. fold pf. rewrite Hback. cbv zeta.
  rewrite <- Hpl. rewrite Hpnslice. fold mk. unfold ppn at 1. rewrite (xor_zip_involutive pnb mk Hmk).
  rewrite Htk2. cbn [bind]. rewrite Hpay. cbn [bind]. rewrite Hrest. reflexivity.
Qed.
End Initial.
