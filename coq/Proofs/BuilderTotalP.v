(* C03, the output phase: OutputBuilder.build never raises on what a session hands it -- every exported entry's record was carried by
   at least one input packet (zero-length segments never reach a session), so the split never divides by zero and never runs out of
   time stamps.  (The serialisation of the segments built -- scapy -- raises only for 2^32 bytes in a direction or a plaintext beyond
   65 495 bytes: the hypotheses of C06_conversation / C06_tcp_checksum.) *)
From Coq Require Import ZArith List Bool Lia.
Require Import PyLib PyLibP Packet Reassembly TlsSession OutputBuilder BuilderP C01SessionP.
Import ListNotations.
Open Scope Z_scope.

Lemma split_parts_total d k : 1 <= k -> exists parts, split_parts d k = Ok parts /\ (length parts <= Z.to_nat k)%nat.
Proof.
  intros Hk. destruct (split_parts d k) as [parts|e] eqn:E.
  - exists parts. split; [reflexivity|]. exact (proj2 (split_parts_spec d k parts Hk E)).
  - exfalso. unfold split_parts in E. replace (k =? 0) with false in E by (symmetry; apply Z.eqb_neq; lia). discriminate.
Qed.

Lemma emit_parts_total parts : forall st srv ts, (length parts <= length ts)%nat -> exists st', emit_parts st srv parts ts = Ok st'.
Proof.
  induction parts as [|p pr IH]; intros st srv ts H; [exists st; destruct ts; reflexivity|].
  destruct ts as [|t tr]; [cbn in H; lia|]. cbn [emit_parts]. apply IH. cbn [length] in H. lia.
Qed.

Lemma build_entry_total st e : r_meta (te_record e) <> [] -> exists st', build_entry st e = Ok st'.
Proof.
  intros Hm. unfold build_entry. set (ts := map p_ts (r_meta (te_record e))).
  assert (Hk : 1 <= len ts) by (unfold ts, len; rewrite map_length; destruct (r_meta (te_record e)); [contradiction|cbn [length]; lia]).
  destruct (split_parts_total (match te_data e with Some d => d | None => placeholder end) (len ts) Hk) as (parts & Hs & Hl).
  rewrite Hs. cbn [bind]. apply emit_parts_total. unfold len in Hl. rewrite Nat2Z.id in Hl. exact Hl.
Qed.

Lemma build_entries_total es : forall st, has_meta es -> exists st', build_entries st es = Ok st'.
Proof.
  induction es as [|e r IH]; intros st H; [exists st; reflexivity|]. inversion H as [|? ? He Hr]. subst.
  cbn [build_entries]. destruct (build_entry_total st e He) as (st1 & E). rewrite E. cbn [bind]. apply IH. exact Hr.
Qed.

Theorem build_total t : has_meta t -> exists segs, build t = Ok segs.
Proof.
  intros H. unfold build. destruct t as [|e r]; [exists []; reflexivity|]. inversion H as [|? ? He Hr]. subst.
  destruct (r_meta (te_record e)) as [|p0 ps] eqn:Em; [contradiction|].
  destruct (build_entries_total (e :: r) {| b_server_seq := 1; b_client_seq := 1; b_out := handshake (p_ts p0) |} H) as (st & E).
  rewrite E. cbn [bind]. eexists. reflexivity.
Qed.

(* ---- every record cut from a direction's buffer has at least one carrier ---- *)
Lemma ranges_cover b : forall off i, off <= i < off + len (concat (map p_data b)) ->
  exists a e p, In (a, e, p) (ranges b off) /\ a <= i < e.
Proof.
  induction b as [|p r IH]; intros off i H; cbn [map concat ranges] in *.
  - change (len (@nil Z)) with 0 in H. lia.
  - rewrite len_app in H. destruct (Z_lt_ge_dec i (off + len (p_data p))) as [L|G].
    + exists off, (off + len (p_data p)), p. split; [left; reflexivity|lia].
    + destruct (IH (off + len (p_data p)) i ltac:(lia)) as (a & e & q & Hin & Hr). exists a, e, q. split; [right; exact Hin|exact Hr].
Qed.

Lemma rec_len_ge d i : bytes_ok d -> 5 <= rec_len d i.
Proof. intros H. unfold rec_len. pose proof (from_be_bound (slice d (i + 3) (i + 5)) (bytes_ok_slice d _ _ H)). lia. Qed.

Lemma cut_beyond fuel d rs : bytes_ok d -> forall i, len d < i -> exists e, cut fuel d rs i = Exn e.
Proof.
  intros Hd. induction fuel as [|f IH]; intros i Hi; cbn [cut]; replace (i =? len d) with false by (symmetry; apply Z.eqb_neq; lia).
  - eexists. reflexivity.
  - pose proof (rec_len_ge d i Hd). destruct (IH (i + rec_len d i) ltac:(lia)) as (e & E). rewrite E. eexists. reflexivity.
Qed.

Theorem cut_records_have_carriers b : let d := concat (map p_data b) in bytes_ok d ->
  forall fuel i recs, 0 <= i -> cut fuel d (ranges b 0) i = Ok recs -> Forall (fun r => r_meta r <> []) recs.
Proof.
  intros d Hd. induction fuel as [|f IH]; intros i recs Hi H; cbn [cut] in H.
  - destruct (i =? len d); [injection H as <-; constructor|discriminate].
  - destruct (Z.eqb_spec i (len d)) as [E|E]; [injection H as <-; constructor|].
    pose proof (rec_len_ge d i Hd) as Hrl.
    destruct (cut f d (ranges b 0) (i + rec_len d i)) as [rest|] eqn:Ec; [|discriminate]. cbn [bind] in H. injection H as <-.
    constructor; [|apply (IH (i + rec_len d i) rest); [lia|exact Ec]].
    assert (Hlt : i < len d).
    { destruct (Z_lt_ge_dec i (len d)) as [L|G]; [exact L|]. exfalso. destruct (cut_beyond f d (ranges b 0) Hd (i + rec_len d i) ltac:(lia)) as (e & Ee). rewrite Ee in Ec. discriminate. }
    destruct (ranges_cover b 0 i ltac:(fold d; lia)) as (a & e & p & Hin & Hr).
    cbn [mk_record r_meta]. unfold overlapping. intros Hnil.
    assert (Hf : In (a, e, p) (filter (fun t : Z * Z * packet => let '(a0, b0, _) := t in (i <? b0) && (i + rec_len d i >? a0)) (ranges b 0))).
    { apply filter_In. split; [exact Hin|]. apply andb_true_iff. split; [apply Z.ltb_lt; lia|]. rewrite Z.gtb_ltb. apply Z.ltb_lt. lia. }
    apply (in_map (fun t : Z * Z * packet => snd t)) in Hf. rewrite Hnil in Hf. exact Hf.
Qed.

(* ---- the entries a record produces carry that record ---- *)
Section Entries.
Variable C : Crypto.Crypto.
Variable tbl : list (Z * String.string).
Variable parts : SuiteTypes.parts.
Variable keylog : list KeySchedule.secret.

Lemma entries_keep_record s r srv s' out : handle_tls_record C tbl parts keylog s r srv = Ok (s', out) -> Forall (fun e => te_record e = r) out.
Proof.
  unfold handle_tls_record. intros H.
  destruct (r_type r =? 22).
  - destruct (handle_tls_handshake_record C tbl parts keylog s r srv) as [[s1 o1]|] eqn:E; [|discriminate]. cbn [bind fst snd] in H. injection H as <- <-.
    apply Forall_app. split; [|constructor; [reflexivity|constructor]].
    unfold handle_tls_handshake_record in E.
    assert (Hfin : forall s0, Forall (fun e => te_record e = r) (snd (handle_handshake_finished C s0 r srv))).
    { intros s0. unfold handle_handshake_finished. destruct (ts_decryptor s0) as [d|]; [|constructor].
      match goal with |- context [if ?c then _ else _] => destruct c end; [|constructor].
      destruct (Decryptor.decrypt C d r srv) as [[d' pt]|]; [|constructor]. cbn [snd].
      match goal with |- context [if ?c then _ else _] => destruct c end; [constructor; [reflexivity|constructor]|constructor]. }
    destruct (ts_server_cc s || ts_client_cc s).
    + injection E as E. pose proof (Hfin s) as F. rewrite E in F. exact F.
    + destruct (r_body r) as [|t x']; [injection E as <- <-; constructor|].
      match type of E with (if ?c then _ else _) = _ => destruct c end; [injection E as <- <-; constructor|].
      destruct (t =? 1); [injection E as <- <-; constructor|].
      destruct (t =? 2).
      * match type of E with rmap _ ?X = _ => destruct X end; [|discriminate]. cbn [rmap] in E. injection E as <- <-. constructor.
      * injection E as E. match type of E with handle_handshake_finished C ?s0 r srv = _ => pose proof (Hfin s0) as F end. rewrite E in F. exact F.
  - destruct (r_type r =? 23).
    + destruct (ts_can_decrypt s); [|injection H as <- <-; constructor].
      destruct (ts_decryptor s) as [d|]; [|injection H as <- <-; constructor].
      destruct (ts_version s) as [|v].
      { inversion H. constructor. }
      assert (H12 : forall X : tcore * list traffic_entry, Ok X = Ok (s', out) -> out = snd X) by (intros X HX; injection HX as HX; rewrite HX; reflexivity).
      destruct v; rewrite (H12 _ H);
        try (unfold handle_tls_application_record; destruct (Decryptor.decrypt C d r srv) as [[d' pt]|]; cbn [snd]; [constructor; [reflexivity|constructor]|constructor]).
      unfold handle_tls_13_application_record. destruct (Decryptor.decrypt C d r srv) as [[d' [pt0|]]|]; cbn [snd]; try constructor.
      destruct (rev (strip_padding pt0)) as [|t body_rev]; cbn [snd]; [constructor|].
      destruct (t =? 22); [destruct (hs13_consume _ _ _ _); cbn [snd]; constructor|].
      destruct (t =? 23); cbn [snd]; [constructor; [reflexivity|constructor]|constructor].
    + destruct (r_type r =? 21); [injection H as <- <-; constructor; [reflexivity|constructor]|].
      destruct (r_type r =? 20); injection H as <- <-; [constructor; [reflexivity|constructor]|constructor].
Qed.

(* hence: what a session makes of records that have carriers can always be built into a conversation *)
Lemma session_run_has_meta rs : forall s s' out, Forall (fun x : bool * tls_record => r_meta (snd x) <> []) rs ->
  C01SessionP.session_run C tbl parts keylog s rs = Ok (s', out) -> has_meta out.
Proof.
  induction rs as [|[srv r] t IH]; intros s s' out Hm H; cbn [C01SessionP.session_run] in H.
  - injection H as <- <-. constructor.
  - inversion Hm as [|? ? Hr Ht]. subst. cbn [snd] in Hr.
    destruct (handle_tls_record C tbl parts keylog s r srv) as [[s1 o1]|] eqn:E1; [|discriminate]. cbn [bind fst snd] in H.
    destruct (C01SessionP.session_run C tbl parts keylog s1 t) as [[s2 o2]|] eqn:E2; [|discriminate]. cbn [bind fst snd] in H. injection H as <- <-.
    unfold has_meta. apply Forall_app. split; [|exact (IH _ _ _ Ht E2)].
    pose proof (entries_keep_record _ _ _ _ _ E1) as K. rewrite Forall_forall in K |- *. intros e He. rewrite (K e He). exact Hr.
Qed.

Theorem session_output_builds rs s s' out : Forall (fun x : bool * tls_record => r_meta (snd x) <> []) rs ->
  C01SessionP.session_run C tbl parts keylog s rs = Ok (s', out) -> exists segs, build out = Ok segs.
Proof. intros Hm H. apply build_total. exact (session_run_has_meta rs s s' out Hm H). Qed.

(* ... and the conversation built reads back: C06_conversation with its premise has_meta discharged for what a session exports *)
Theorem session_conversation rs s s' out : out <> [] -> Forall (fun x : bool * tls_record => r_meta (snd x) <> []) rs ->
  C01SessionP.session_run C tbl parts keylog s rs = Ok (s', out) ->
  exists segs, build out = Ok segs /\ Reader.std_reassemble segs = Some (side_stream false out, side_stream true out).
Proof.
  intros Hne Hm H. pose proof (session_run_has_meta rs s s' out Hm H) as Hh. destruct (build_total out Hh) as (segs & Hb).
  exists segs. split; [exact Hb|]. exact (build_reassembles out segs Hne Hh Hb).
Qed.
End Entries.
