(* C01, the cipher-state half: for each protection class, decrypting what the sender of Spec/TlsRecords.v produced from a
   synchronised state returns the content and leaves the states synchronised; by induction, any history of records. *)
From Coq Require Import ZArith List Bool Lia.
Require Import PyLib PyLibP SuiteTypes Crypto KeySchedule Packet Reassembly Decryptor TlsRecords.
Import ListNotations.
Open Scope Z_scope.

Lemma to_be_1 n : 0 <= n < 256 -> to_be n 1 = Ok [n].
Proof. intros H. rewrite to_be_ok by lia. f_equal. unfold to_be_total. change (Z.to_nat 1) with 1%nat. cbn [to_be_fuel]. f_equal. apply Z.mod_small. lia. Qed.

Lemma slice_prefix {A} (a b : list A) k : k = len a -> slice (a ++ b) 0 k = a.
Proof.
  intros ->. rewrite slice_eq. rewrite Z.sub_0_r. cbn [Z.to_nat skipn]. unfold len. rewrite Nat2Z.id, firstn_app, firstn_all, Nat.sub_diag. cbn. now rewrite app_nil_r.
Qed.
Lemma slice_from_prefix {A} (a b : list A) k : k = len a -> slice_from (a ++ b) k = b.
Proof. intros ->. rewrite slice_from_eq. unfold len. rewrite Nat2Z.id, skipn_app, skipn_all, Nat.sub_diag. reflexivity. Qed.
Lemma drop_last_suffix {A} (a b : list A) k : k = len b -> 0 < k -> slice_drop_last (a ++ b) k = a.
Proof.
  intros -> Hk. unfold slice_drop_last. replace (len b =? 0) with false by (symmetry; apply Z.eqb_neq; lia).
  rewrite len_app. replace (len a + len b - len b) with (len a) by lia. unfold len. rewrite Nat2Z.id, firstn_app, firstn_all, Nat.sub_diag. cbn. now rewrite app_nil_r.
Qed.
Lemma index_last_app a x : index (a ++ [x]) (-1) = Ok x.
Proof.
  unfold index. cbn [Z.ltb Z.compare]. rewrite len_app. change (len [x]) with 1.
  pose proof (len_nonneg a). replace (len a + 1 + -1) with (len a) by lia.
  replace (len a <? 0) with false by (symmetry; apply Z.ltb_ge; lia). replace (len a + 1 <=? len a) with false by (symmetry; apply Z.leb_gt; lia).
  cbn [orb]. unfold len. rewrite Nat2Z.id, app_nth2, Nat.sub_diag by lia. reflexivity.
Qed.

Section Sync.
Variable C : Crypto.
Hypothesis L : CryptoLaws C.

(* ---- TLS 1.3 ---- *)
Lemma tls13_record d srv a key iv version st content ctype pad st' r :
  cur_key d srv = Some key -> cur_iv d srv = Some iv -> 8 <= len iv -> cur_seq d srv = ss_seq st -> 0 <= ss_seq st < 2 ^ 64 ->
  len version = 2 -> len (content ++ [ctype] ++ repeat 0 pad) + d_tag_length d < 65536 -> 0 <= d_tag_length d ->
  send13 C a (d_tag_length d) key iv version st content ctype pad = Ok (st', r) ->
  decrypt_tls13 C d r srv a = Ok (set_seq d srv (ss_seq st + 1), content ++ [ctype] ++ repeat 0 pad) /\ ss_seq st' = ss_seq st + 1.
Proof.
  intros Hk Hi Hil Hs Hsb Hv Hlen Htag H. unfold send13 in H.
  destruct (c_aead_enc C a _ key _ _ _) as [ct|] eqn:E; [|discriminate]. cbn [bind] in H. injection H as <- <-.
  destruct (aead_rt C L _ _ _ _ _ _ _ E) as [Hdec Hl]. split; [|reflexivity].
  unfold decrypt_tls13, mk_record. cbn [r_type r_version r_length r_body].
  rewrite (to_be_1 23) by lia. cbn [bind]. rewrite Hi, Hk. cbn [byte_of bind]. rewrite Hs.
  rewrite to_be_ok by lia. cbn [bind]. unfold byte_xor. rewrite len_to_be_total by lia.
  replace (len iv - 8 <? 0) with false by (symmetry; apply Z.ltb_ge; lia). cbn [bind].
  rewrite Hl. rewrite Hdec. reflexivity.
Qed.

(* ---- TLS 1.2 AEAD with explicit nonce ---- *)
Lemma tls12_aead_record_t rt d srv a key salt version st explicit content st' r : 0 <= rt < 256 ->
  cur_key d srv = Some key -> cur_iv d srv = Some salt -> cur_seq d srv = ss_seq st -> 0 <= ss_seq st < 2 ^ 64 ->
  len version = 2 -> len explicit = 8 -> len content < 65536 -> 0 <= d_tag_length d -> d_compression d = 0 ->
  send12_aead_t C rt a (d_tag_length d) key salt version st explicit content = Ok (st', r) ->
  decrypt_tls12_aead C d r srv a = Ok (set_seq d srv (ss_seq st + 1), content) /\ ss_seq st' = ss_seq st + 1 /\ r_type r = rt.
Proof.
  intros Hrt Hk Hi Hs Hsb Hv He Hlen Htag Hz H. unfold send12_aead_t in H.
  destruct (c_aead_enc C a _ key _ _ _) as [ct|] eqn:E; [|discriminate]. cbn [bind] in H. injection H as <- <-.
  destruct (aead_rt C L _ _ _ _ _ _ _ E) as [Hdec Hl]. split; [|split; reflexivity].
  unfold decrypt_tls12_aead, mk_record. cbn [r_body r_raw].
  rewrite Hk, Hi. cbn [byte_of bind]. rewrite Hs. rewrite to_be_ok by lia. cbn [bind].
  rewrite len_app, He, Hl. replace (8 + (len content + d_tag_length d) - 8 - d_tag_length d) with (len content) by lia.
  pose proof (len_nonneg content). rewrite to_be_ok by lia. cbn [bind].
  rewrite (slice_prefix explicit ct 8) by (symmetry; exact He). rewrite (slice_from_prefix explicit ct 8) by (symmetry; exact He).
  assert (Hraw : forall x, slice ([rt] ++ version ++ x) 0 3 = [rt] ++ version).
  { intros x. rewrite app_assoc. apply slice_prefix. rewrite len_app, Hv. reflexivity. }
  rewrite Hraw. rewrite <- app_assoc. rewrite Hdec. cbn [bind]. unfold inflate_if. cbn [set_seq d_compression]. rewrite Hz. reflexivity.
Qed.

Lemma tls12_aead_record d srv a key salt version st explicit content st' r :
  cur_key d srv = Some key -> cur_iv d srv = Some salt -> cur_seq d srv = ss_seq st -> 0 <= ss_seq st < 2 ^ 64 ->
  len version = 2 -> len explicit = 8 -> len content < 65536 -> 0 <= d_tag_length d -> d_compression d = 0 ->
  send12_aead C a (d_tag_length d) key salt version st explicit content = Ok (st', r) ->
  decrypt_tls12_aead C d r srv a = Ok (set_seq d srv (ss_seq st + 1), content) /\ ss_seq st' = ss_seq st + 1.
Proof.
  intros Hk Hi Hs Hsb Hv He Hlen Htag Hz H.
  destruct (tls12_aead_record_t 23 d srv a key salt version st explicit content st' r ltac:(lia) Hk Hi Hs Hsb Hv He Hlen Htag Hz H) as (H1 & H2 & _). split; assumption.
Qed.

(* ---- TLS 1.2 ChaCha20-Poly1305 ---- *)
Lemma tls12_chacha_record_t rt d srv key iv version st content st' r : 0 <= rt < 256 ->
  cur_key d srv = Some key -> cur_iv d srv = Some iv -> 8 <= len iv -> cur_seq d srv = ss_seq st -> 0 <= ss_seq st < 2 ^ 64 ->
  len version = 2 -> len content < 65536 -> d_compression d = 0 ->
  send12_chacha_t C rt key iv version st content = Ok (st', r) ->
  decrypt_tls12_chacha20 C d r srv = Ok (set_seq d srv (ss_seq st + 1), content) /\ ss_seq st' = ss_seq st + 1 /\ r_type r = rt.
Proof.
  intros Hrt Hk Hi Hil Hs Hsb Hv Hlen Hz H. unfold send12_chacha_t in H.
  destruct (c_aead_enc C _ _ key _ _ _) as [ct|] eqn:E; [|discriminate]. cbn [bind] in H. injection H as <- <-.
  destruct (aead_rt C L _ _ _ _ _ _ _ E) as [Hdec Hl]. split; [|split; reflexivity].
  unfold decrypt_tls12_chacha20, mk_record. cbn [r_body r_type r_version].
  rewrite Hk, Hi. cbn [byte_of bind]. rewrite Hs. rewrite to_be_ok by lia. cbn [bind]. rewrite (to_be_1 rt) by lia. cbn [bind].
  rewrite Hl. replace (len content + 16 - 16) with (len content) by lia. pose proof (len_nonneg content). rewrite to_be_ok by lia. cbn [bind].
  unfold byte_xor. rewrite len_to_be_total by lia. replace (len iv - 8 <? 0) with false by (symmetry; apply Z.ltb_ge; lia). cbn [bind].
  rewrite Hdec. cbn [bind]. unfold inflate_if. cbn [set_seq d_compression]. rewrite Hz. reflexivity.
Qed.

Lemma tls12_chacha_record d srv key iv version st content st' r :
  cur_key d srv = Some key -> cur_iv d srv = Some iv -> 8 <= len iv -> cur_seq d srv = ss_seq st -> 0 <= ss_seq st < 2 ^ 64 ->
  len version = 2 -> len content < 65536 -> d_compression d = 0 ->
  send12_chacha C key iv version st content = Ok (st', r) ->
  decrypt_tls12_chacha20 C d r srv = Ok (set_seq d srv (ss_seq st + 1), content) /\ ss_seq st' = ss_seq st + 1.
Proof.
  intros Hk Hi Hil Hs Hsb Hv Hlen Hz H.
  destruct (tls12_chacha_record_t 23 d srv key iv version st content st' r ltac:(lia) Hk Hi Hil Hs Hsb Hv Hlen Hz H) as (H1 & H2 & _). split; assumption.
Qed.

(* ---- RC4 ---- *)
Lemma rc4_record_t rt d srv key version st content mac st' r :
  d_has_stream d = true -> cur_key d srv = Some key -> (if srv then d_rc4_server d else d_rc4_client d) = ss_off st ->
  len mac = d_mac_length d -> 0 < d_mac_length d ->
  send_rc4_t C rt key version st content mac = Ok (st', r) ->
  decrypt_generic_stream C d r srv = Ok (add_rc4 d srv (len (r_body r)), content) /\ ss_off st' = ss_off st + len (r_body r).
Proof.
  intros Hst Hk Ho Hm Hm0 H. unfold send_rc4_t in H.
  destruct (c_rc4 C key _ _) as [ct|] eqn:E; [|discriminate]. cbn [bind] in H. injection H as <- <-.
  destruct (rc4_rt C L _ _ _ _ E) as [Hdec Hl]. split; [|reflexivity].
  unfold decrypt_generic_stream, mk_record. cbn [r_body]. rewrite Hst. cbn [negb]. rewrite Hk. cbn [byte_of bind]. rewrite Ho, Hdec. cbn [bind].
  rewrite (drop_last_suffix content mac) by lia. reflexivity.
Qed.

Lemma rc4_record d srv key version st content mac st' r :
  d_has_stream d = true -> cur_key d srv = Some key -> (if srv then d_rc4_server d else d_rc4_client d) = ss_off st ->
  len mac = d_mac_length d -> 0 < d_mac_length d ->
  send_rc4 C key version st content mac = Ok (st', r) ->
  decrypt_generic_stream C d r srv = Ok (add_rc4 d srv (len (r_body r)), content) /\ ss_off st' = ss_off st + len (r_body r).
Proof. exact (rc4_record_t 23 d srv key version st content mac st' r). Qed.

(* ---- CBC ---- *)
Lemma strip_mte d content mac p : d_etm d = false -> len mac = d_mac_length d -> 0 < d_mac_length d -> 0 <= p ->
  strip_cbc d (content ++ mac ++ cbc_padding p) = Ok content.
Proof.
  intros He Hm Hm0 Hp. unfold strip_cbc, cbc_padding.
  replace (Z.to_nat (p + 1)) with (S (Z.to_nat p)) by lia.
  assert (Hrep : repeat p (S (Z.to_nat p)) = repeat p (Z.to_nat p) ++ [p]).
  { clear. induction (Z.to_nat p) as [|n IH]; [reflexivity|]. cbn [repeat app] in *. now rewrite <- IH. }
  rewrite Hrep. rewrite !app_assoc. rewrite index_last_app. cbn [bind]. rewrite He.
  rewrite <- !app_assoc. rewrite (app_assoc content mac).
  rewrite (drop_last_suffix (content ++ mac) (repeat p (Z.to_nat p) ++ [p])).
  - rewrite (drop_last_suffix content mac) by lia. reflexivity.
  - rewrite len_app. unfold len at 1. rewrite repeat_length. change (len [p]) with 1. lia.
  - lia.
Qed.

Lemma strip_etm d content p : d_etm d = true -> 0 <= p -> strip_cbc d (content ++ cbc_padding p) = Ok content.
Proof.
  intros He Hp. unfold strip_cbc, cbc_padding.
  replace (Z.to_nat (p + 1)) with (S (Z.to_nat p)) by lia.
  assert (Hrep : repeat p (S (Z.to_nat p)) = repeat p (Z.to_nat p) ++ [p]).
  { clear. induction (Z.to_nat p) as [|n IH]; [reflexivity|]. cbn [repeat app] in *. now rewrite <- IH. }
  rewrite Hrep. rewrite app_assoc. rewrite index_last_app. cbn [bind]. rewrite He. rewrite <- app_assoc.
  rewrite (drop_last_suffix content (repeat p (Z.to_nat p) ++ [p])); [reflexivity| |lia].
  rewrite len_app. unfold len at 1. rewrite repeat_length. change (len [p]) with 1. lia.
Qed.

Definition blk (a : alg) : Z := match a with AES | Camellia => 16 | _ => 8 end.

Lemma cbc_explicit_record_t rt d srv a key version st iv content mac p st' r :
  cur_key d srv = Some key -> len iv = blk a -> len mac = d_mac_length d -> 0 < d_mac_length d -> 0 <= p -> d_compression d = 0 ->
  send_cbc_explicit_t C rt a key version (d_etm d) st iv content mac p = Ok (st', r) ->
  decrypt_tls12_block C d r srv a = Ok (d, content).
Proof.
  intros Hk Hiv Hm Hm0 Hp Hz H. unfold send_cbc_explicit_t in H.
  destruct (c_cbc_enc C a key iv _) as [ct|] eqn:E; [|discriminate]. cbn [bind] in H. injection H as _ <-.
  destruct (cbc_rt C L _ _ _ _ _ E) as [Hdec _].
  unfold decrypt_tls12_block, mk_record. cbn [r_body]. rewrite Hk. cbn [byte_of bind]. fold (blk a).
  rewrite (slice_prefix iv _ (blk a)) by (symmetry; exact Hiv). rewrite (slice_from_prefix iv _ (blk a)) by (symmetry; exact Hiv).
  destruct (d_etm d) eqn:Ee.
  - rewrite (drop_last_suffix ct mac) by lia. rewrite Hdec. cbn [bind]. rewrite (strip_etm d content p Ee Hp). cbn [bind].
    unfold inflate_if. rewrite Hz. reflexivity.
  - rewrite app_nil_r. rewrite Hdec. cbn [bind]. rewrite (strip_mte d content mac p Ee Hm Hm0 Hp). cbn [bind].
    unfold inflate_if. rewrite Hz. reflexivity.
Qed.

Lemma cbc_explicit_record d srv a key version st iv content mac p st' r :
  cur_key d srv = Some key -> len iv = blk a -> len mac = d_mac_length d -> 0 < d_mac_length d -> 0 <= p -> d_compression d = 0 ->
  send_cbc_explicit C a key version (d_etm d) st iv content mac p = Ok (st', r) ->
  decrypt_tls12_block C d r srv a = Ok (d, content).
Proof. exact (cbc_explicit_record_t 23 d srv a key version st iv content mac p st' r). Qed.

Lemma cbc_chained_record_t rt d srv a key version st content mac p st' r :
  cur_key d srv = Some key -> (if srv then d_last_block_server d else d_last_block_client d) = Some (ss_last st) ->
  len mac = d_mac_length d -> 0 < d_mac_length d -> 0 <= p -> d_compression d = 0 ->
  send_cbc_chained_t C rt a key version (d_etm d) (d_block_length d / 8) st content mac p = Ok (st', r) ->
  exists d', decrypt_last_block_iv_cbc C d r srv a = Ok (d', content) /\
             (if srv then d_last_block_server d' else d_last_block_client d') = Some (ss_last st') /\
             cur_key d' srv = cur_key d srv /\ d_etm d' = d_etm d /\ d_mac_length d' = d_mac_length d /\ d_compression d' = d_compression d /\
             d_block_length d' = d_block_length d.
Proof.
  intros Hk Hlb Hm Hm0 Hp Hz H. unfold send_cbc_chained_t in H.
  destruct (c_cbc_enc C a key _ _) as [ct|] eqn:E; [|discriminate]. cbn [bind] in H. injection H as <- <-.
  destruct (cbc_rt C L _ _ _ _ _ E) as [Hdec _].
  unfold decrypt_last_block_iv_cbc, mk_record. cbn [r_body]. rewrite Hk. cbn [byte_of bind]. rewrite Hlb. cbn [bind].
  destruct (d_etm d) eqn:Ee.
  - rewrite (drop_last_suffix ct mac) by lia. rewrite Hdec. cbn [bind]. rewrite (strip_etm d content p Ee Hp). cbn [bind].
    unfold inflate_if. cbn [set_last_block d_compression]. rewrite Hz. cbn [Z.eqb]. eexists. split; [reflexivity|].
    cbn [ss_last set_last_block d_last_block_server d_last_block_client cur_key d_server_key d_client_key d_etm d_mac_length d_compression d_block_length].
    destruct srv; repeat split; auto.
  - rewrite app_nil_r. rewrite Hdec. cbn [bind]. rewrite (strip_mte d content mac p Ee Hm Hm0 Hp). cbn [bind].
    unfold inflate_if. cbn [set_last_block d_compression]. rewrite Hz. cbn [Z.eqb]. eexists. split; [reflexivity|].
    cbn [ss_last set_last_block d_last_block_server d_last_block_client cur_key d_server_key d_client_key d_etm d_mac_length d_compression d_block_length].
    destruct srv; repeat split; auto.
Qed.

Lemma cbc_chained_record d srv a key version st content mac p st' r :
  cur_key d srv = Some key -> (if srv then d_last_block_server d else d_last_block_client d) = Some (ss_last st) ->
  len mac = d_mac_length d -> 0 < d_mac_length d -> 0 <= p -> d_compression d = 0 ->
  send_cbc_chained C a key version (d_etm d) (d_block_length d / 8) st content mac p = Ok (st', r) ->
  exists d', decrypt_last_block_iv_cbc C d r srv a = Ok (d', content) /\
             (if srv then d_last_block_server d' else d_last_block_client d') = Some (ss_last st') /\
             cur_key d' srv = cur_key d srv /\ d_etm d' = d_etm d /\ d_mac_length d' = d_mac_length d /\ d_compression d' = d_compression d /\
             d_block_length d' = d_block_length d.
Proof. exact (cbc_chained_record_t 23 d srv a key version st content mac p st' r). Qed.
End Sync.

(* ---------- histories: any number of records, one after the other ---------- *)
Section History.
Variable X : Type.
Variable send : sstate -> X -> result (sstate * tls_record).
Variable dec : decryptor -> tls_record -> result (decryptor * bytes).
Variable content : X -> bytes.
Variable okx : X -> Prop.
Variable P : nat -> decryptor -> sstate -> Prop.          (* the synchronisation invariant, with room for n more records *)
Hypothesis step : forall n d st x st' r, P (S n) d st -> okx x -> send st x = Ok (st', r) ->
  exists d', dec d r = Ok (d', content x) /\ P n d' st'.

Fixpoint send_all (st : sstate) (xs : list X) : result (sstate * list tls_record) :=
  match xs with
  | [] => Ok (st, [])
  | x :: t => do a <- send st x; do b <- send_all (fst a) t; Ok (fst b, snd a :: snd b)
  end.
Fixpoint dec_all (d : decryptor) (rs : list tls_record) : result (decryptor * list bytes) :=
  match rs with
  | [] => Ok (d, [])
  | r :: t => do a <- dec d r; do b <- dec_all (fst a) t; Ok (fst b, snd a :: snd b)
  end.

Theorem history xs : forall d st stN rs, P (length xs) d st -> Forall okx xs -> send_all st xs = Ok (stN, rs) ->
  exists dN, dec_all d rs = Ok (dN, map content xs) /\ P 0 dN stN.
Proof.
  induction xs as [|x t IH]; intros d st stN rs HP Hok H; cbn [send_all] in H.
  - injection H as <- <-. exists d. split; [reflexivity|exact HP].
  - inversion Hok as [|y l Hx Ht]; subst.
    destruct (send st x) as [[st1 r]|] eqn:E1; [|discriminate]. cbn [bind fst snd] in H.
    destruct (send_all st1 t) as [[st2 rs2]|] eqn:E2; [|discriminate]. cbn [bind fst snd] in H. injection H as <- <-.
    destruct (step (length t) d st x st1 r HP Hx E1) as (d1 & Hd & HP1).
    destruct (IH d1 st1 st2 rs2 HP1 Ht E2) as (dN & HdN & HPN).
    exists dN. split; [|exact HPN]. cbn [dec_all map]. rewrite Hd. cbn [bind fst snd]. rewrite HdN. reflexivity.
Qed.
End History.

Section Classes.
Variable C : Crypto.
Hypothesis L : CryptoLaws C.

(* TLS 1.3: every record of a direction, under that direction's current key: content || type || padding comes back, in order *)
Definition inner13 (x : bytes * Z * nat) : bytes := let '(c, t, p) := x in c ++ [t] ++ repeat 0 p.
Definition P13 (srv : bool) (key iv : bytes) (tag : Z) (n : nat) (d : decryptor) (st : sstate) : Prop :=
  cur_key d srv = Some key /\ cur_iv d srv = Some iv /\ d_tag_length d = tag /\ cur_seq d srv = ss_seq st /\ 0 <= ss_seq st /\ ss_seq st + Z.of_nat n <= 2 ^ 64.

Theorem tls13_history srv a key iv version tag xs d st stN rs :
  8 <= len iv -> len version = 2 -> 0 <= tag ->
  P13 srv key iv tag (length xs) d st -> Forall (fun x => len (inner13 x) + tag < 65536) xs ->
  send_all _ (fun st x => let '(c, t, p) := x in send13 C a tag key iv version st c t p) st xs = Ok (stN, rs) ->
  exists dN, dec_all (fun d r => decrypt_tls13 C d r srv a) d rs = Ok (dN, map inner13 xs) /\ P13 srv key iv tag 0 dN stN.
Proof.
  intros Hiv Hv Htag. apply history. clear xs d st stN rs. intros n d st [[c t] p] st' r (Hk & Hi & Ht & Hs & H0 & Hb) Hok Hsend.
  subst tag. destruct (tls13_record C L d srv a key iv version st c t p st' r Hk Hi Hiv Hs ltac:(lia) Hv Hok Htag Hsend) as [Hd Hs'].
  eexists. split; [exact Hd|]. unfold P13, cur_key, cur_iv, cur_seq in *. rewrite Hs'. destruct srv; cbn [set_seq d_server_key d_client_key d_server_iv d_client_iv d_tag_length d_server_seq d_client_seq]; repeat split; auto; lia.
Qed.

(* TLS 1.2 AEAD with explicit nonce (AES-GCM, AES-CCM, AES-CCM-8) *)
Definition P12 (srv : bool) (key iv : bytes) (tag : Z) (n : nat) (d : decryptor) (st : sstate) : Prop :=
  cur_key d srv = Some key /\ cur_iv d srv = Some iv /\ d_tag_length d = tag /\ d_compression d = 0 /\ cur_seq d srv = ss_seq st /\ 0 <= ss_seq st /\ ss_seq st + Z.of_nat n <= 2 ^ 64.

Theorem tls12_aead_history srv a key salt version tag xs d st stN rs :
  len version = 2 -> 0 <= tag ->
  P12 srv key salt tag (length xs) d st -> Forall (fun x : bytes * bytes => len (fst x) = 8 /\ len (snd x) < 65536) xs ->
  send_all _ (fun st x => send12_aead C a tag key salt version st (fst x) (snd x)) st xs = Ok (stN, rs) ->
  exists dN, dec_all (fun d r => decrypt_tls12_aead C d r srv a) d rs = Ok (dN, map snd xs) /\ P12 srv key salt tag 0 dN stN.
Proof.
  intros Hv Htag. apply history. clear xs d st stN rs. intros n d st [e c] st' r (Hk & Hi & Ht & Hz & Hs & H0 & Hb) [He Hc] Hsend. cbn [fst snd] in *.
  subst tag. destruct (tls12_aead_record C L d srv a key salt version st e c st' r Hk Hi Hs ltac:(lia) Hv He Hc Htag Hz Hsend) as [Hd Hs'].
  eexists. split; [exact Hd|]. unfold P12, cur_key, cur_iv, cur_seq in *. rewrite Hs'. destruct srv; cbn [set_seq d_server_key d_client_key d_server_iv d_client_iv d_tag_length d_compression d_server_seq d_client_seq]; repeat split; auto; lia.
Qed.

(* TLS 1.2 ChaCha20-Poly1305 *)
Theorem tls12_chacha_history srv key iv version xs d st stN rs :
  8 <= len iv -> len version = 2 ->
  P12 srv key iv (d_tag_length d) (length xs) d st -> Forall (fun x : bytes => len x < 65536) xs ->
  send_all _ (fun st x => send12_chacha C key iv version st x) st xs = Ok (stN, rs) ->
  exists dN, dec_all (fun d r => decrypt_tls12_chacha20 C d r srv) d rs = Ok (dN, map (fun x => x) xs) /\ P12 srv key iv (d_tag_length d) 0 dN stN.
Proof.
  intros Hiv Hv. generalize (d_tag_length d) as tag. intros tag. apply history. clear xs d st stN rs. intros n d st c st' r (Hk & Hi & Ht & Hz & Hs & H0 & Hb) Hc Hsend.
  destruct (tls12_chacha_record C L d srv key iv version st c st' r Hk Hi Hiv Hs ltac:(lia) Hv Hc Hz Hsend) as [Hd Hs'].
  eexists. split; [exact Hd|]. unfold P12, cur_key, cur_iv, cur_seq in *. rewrite Hs'. destruct srv; cbn [set_seq d_server_key d_client_key d_server_iv d_client_iv d_tag_length d_compression d_server_seq d_client_seq]; repeat split; auto; lia.
Qed.

(* RC4: the key-stream position is the sum of the lengths of all earlier records of the direction *)
Definition Prc4 (srv : bool) (key : bytes) (n : nat) (d : decryptor) (st : sstate) : Prop :=
  d_has_stream d = true /\ cur_key d srv = Some key /\ 0 < d_mac_length d /\ (if srv then d_rc4_server d else d_rc4_client d) = ss_off st.

Theorem rc4_history srv key version mlen xs d st stN rs :
  d_mac_length d = mlen ->
  Prc4 srv key (length xs) d st -> Forall (fun x : bytes * bytes => len (snd x) = mlen) xs ->
  send_all _ (fun st x => send_rc4 C key version st (fst x) (snd x)) st xs = Ok (stN, rs) ->
  exists dN, dec_all (fun d r => decrypt_generic_stream C d r srv) d rs = Ok (dN, map fst xs) /\ Prc4 srv key 0 dN stN /\ d_mac_length dN = mlen.
Proof.
  intros Hml HP Hok Hs.
  pose proof (history _ (fun st x => send_rc4 C key version st (fst x) (snd x)) (fun d r => decrypt_generic_stream C d r srv) fst
                      (fun x => len (snd x) = mlen) (fun n d st => Prc4 srv key n d st /\ d_mac_length d = mlen)) as Hh.
  destruct (Hh) with (xs := xs) (d := d) (st := st) (stN := stN) (rs := rs) as (dN & HdN & HPN & HmN); auto.
  - clear Hh HP Hok Hs Hml. intros n d0 st0 [c m] st' r [(Hst & Hk & Hm0 & Ho) Hml] Hm Hsend. cbn [fst snd] in *.
    destruct (rc4_record C L d0 srv key version st0 c m st' r Hst Hk Ho ltac:(lia) Hm0 Hsend) as [Hd Ho'].
    eexists. split; [exact Hd|]. unfold Prc4, cur_key in *. rewrite Ho'.
    destruct srv; cbn [add_rc4 d_has_stream d_server_key d_client_key d_mac_length d_rc4_server d_rc4_client]; repeat split; auto; lia.
  - exists dN. auto.
Qed.

(* CBC with chained IVs (SSL 3.0, TLS 1.0): the residue is the last ciphertext block of the previous record of the direction *)
Definition Pcbc (srv : bool) (key : bytes) (etm : bool) (mlen bl : Z) (n : nat) (d : decryptor) (st : sstate) : Prop :=
  cur_key d srv = Some key /\ d_etm d = etm /\ d_mac_length d = mlen /\ 0 < mlen /\ d_compression d = 0 /\ d_block_length d = bl /\
  (if srv then d_last_block_server d else d_last_block_client d) = Some (ss_last st).

Theorem cbc_chained_history srv a key version etm mlen bl xs d st stN rs :
  Pcbc srv key etm mlen bl (length xs) d st -> Forall (fun x : bytes * bytes * Z => len (snd (fst x)) = mlen /\ 0 <= snd x) xs ->
  send_all _ (fun st x => send_cbc_chained C a key version etm (bl / 8) st (fst (fst x)) (snd (fst x)) (snd x)) st xs = Ok (stN, rs) ->
  exists dN, dec_all (fun d r => decrypt_last_block_iv_cbc C d r srv a) d rs = Ok (dN, map (fun x => fst (fst x)) xs) /\ Pcbc srv key etm mlen bl 0 dN stN.
Proof.
  apply history. clear xs d st stN rs. intros n d st [[c m] p] st' r (Hk & He & Hm & Hm0 & Hz & Hb & Hlb) [Hml Hp] Hsend. cbn [fst snd] in *.
  subst etm bl.
  destruct (cbc_chained_record C L d srv a key version st c m p st' r Hk Hlb ltac:(lia) ltac:(lia) Hp Hz Hsend) as (d' & Hd & Hlb' & Hk' & He' & Hm' & Hz' & Hb').
  exists d'. split; [exact Hd|]. unfold Pcbc. rewrite Hk', He', Hm', Hz', Hb'. repeat split; auto.
Qed.
End Classes.

(* ---------- which path Decryptor.decrypt takes, and what the session does with the result ---------- *)
Section Dispatch.
Variable C : Crypto.

Definition some_res (x : result (decryptor * bytes)) : result (decryptor * option bytes) := rmap (fun p => (fst p, Some (snd p))) x.

Lemma dispatch_tls13_aead d r srv a : d_ctype d = CT_AEAD -> d_version d = TLS13 -> (a = AESGCM \/ a = AESCCM) -> d_bulk d = Some a ->
  decrypt C d r srv = some_res (decrypt_tls13 C d r srv a).
Proof. intros Hc Hv [->| ->] Hb; unfold decrypt; rewrite Hc, Hv, Hb; reflexivity. Qed.
Lemma dispatch_tls13_chacha d r srv : d_ctype d = CT_Stream -> d_version d = TLS13 ->
  decrypt C d r srv = some_res (decrypt_tls13 C d r srv ChaCha20Poly1305).
Proof. intros Hc Hv. unfold decrypt. rewrite Hc, Hv. reflexivity. Qed.
Lemma dispatch_tls12_aead d r srv a : d_ctype d = CT_AEAD -> d_version d <> TLS13 -> (a = AESGCM \/ a = AESCCM) -> d_bulk d = Some a ->
  decrypt C d r srv = some_res (decrypt_tls12_aead C d r srv a).
Proof. intros Hc Hv [->| ->] Hb; unfold decrypt; rewrite Hc, Hb; destruct (d_version d); try reflexivity; contradiction. Qed.
Lemma dispatch_tls12_chacha d r srv : d_ctype d = CT_Stream -> d_version d = TLS12 -> d_bulk d = Some ChaCha20Poly1305 ->
  decrypt C d r srv = some_res (decrypt_tls12_chacha20 C d r srv).
Proof. intros Hc Hv Hb. unfold decrypt. rewrite Hc, Hv, Hb. reflexivity. Qed.
Lemma dispatch_rc4 d r srv : d_ctype d = CT_Stream -> d_version d <> TLS13 -> d_bulk d = Some ARC4 ->
  decrypt C d r srv = some_res (decrypt_generic_stream C d r srv).
Proof. intros Hc Hv Hb. unfold decrypt. rewrite Hc, Hb. destruct (d_version d); try reflexivity; contradiction. Qed.
Lemma dispatch_cbc_explicit d r srv a : d_ctype d = CT_Block -> (d_version d = TLS12 \/ d_version d = TLS11) -> d_bulk d = Some a ->
  get_cipher_type (Some a) = CT_Block -> decrypt C d r srv = some_res (decrypt_tls12_block C d r srv a).
Proof.
  intros Hc [Hv|Hv] Hb Ha; unfold decrypt; rewrite Hc, Hv, Hb; cbn [version_eqb andb orb]; destruct a; try discriminate; reflexivity.
Qed.
Lemma dispatch_cbc_chained d r srv a : d_ctype d = CT_Block -> (d_version d = TLS10 \/ d_version d = SSL30) -> d_bulk d = Some a ->
  get_cipher_type (Some a) = CT_Block -> decrypt C d r srv = some_res (decrypt_last_block_iv_cbc C d r srv a).
Proof.
  intros Hc [Hv|Hv] Hb Ha; unfold decrypt; rewrite Hc, Hv, Hb; cbn [version_eqb andb orb]; destruct a; try discriminate; reflexivity.
Qed.

(* the other direction's cipher state is not touched by the three ways a decrypt path updates the decryptor *)
Lemma set_seq_other (d : decryptor) (srv : bool) (n : Z) : cur_seq (set_seq d (negb srv) n) srv = cur_seq d srv /\ cur_key (set_seq d (negb srv) n) srv = cur_key d srv /\ cur_iv (set_seq d (negb srv) n) srv = cur_iv d srv.
Proof. destruct srv; repeat split; reflexivity. Qed.
Lemma add_rc4_other (d : decryptor) (srv : bool) (n : Z) : (if srv then d_rc4_server (add_rc4 d (negb srv) n) else d_rc4_client (add_rc4 d (negb srv) n)) = (if srv then d_rc4_server d else d_rc4_client d).
Proof. destruct srv; reflexivity. Qed.
Lemma set_last_block_other (d : decryptor) (srv : bool) (b : bytes) : (if srv then d_last_block_server (set_last_block d (negb srv) b) else d_last_block_client (set_last_block d (negb srv) b)) =
                                     (if srv then d_last_block_server d else d_last_block_client d).
Proof. destruct srv; reflexivity. Qed.
End Dispatch.

Section All.
Lemma dispatch_all : forall C d r srv,
  (forall a, d_ctype d = CT_AEAD -> d_version d = TLS13 -> (a = AESGCM \/ a = AESCCM) -> d_bulk d = Some a -> decrypt C d r srv = some_res (decrypt_tls13 C d r srv a)) /\
  (d_ctype d = CT_Stream -> d_version d = TLS13 -> decrypt C d r srv = some_res (decrypt_tls13 C d r srv ChaCha20Poly1305)) /\
  (forall a, d_ctype d = CT_AEAD -> d_version d <> TLS13 -> (a = AESGCM \/ a = AESCCM) -> d_bulk d = Some a -> decrypt C d r srv = some_res (decrypt_tls12_aead C d r srv a)) /\
  (d_ctype d = CT_Stream -> d_version d = TLS12 -> d_bulk d = Some ChaCha20Poly1305 -> decrypt C d r srv = some_res (decrypt_tls12_chacha20 C d r srv)) /\
  (d_ctype d = CT_Stream -> d_version d <> TLS13 -> d_bulk d = Some ARC4 -> decrypt C d r srv = some_res (decrypt_generic_stream C d r srv)) /\
  (forall a, d_ctype d = CT_Block -> (d_version d = TLS12 \/ d_version d = TLS11) -> d_bulk d = Some a -> get_cipher_type (Some a) = CT_Block ->
             decrypt C d r srv = some_res (decrypt_tls12_block C d r srv a)) /\
  (forall a, d_ctype d = CT_Block -> (d_version d = TLS10 \/ d_version d = SSL30) -> d_bulk d = Some a -> get_cipher_type (Some a) = CT_Block ->
             decrypt C d r srv = some_res (decrypt_last_block_iv_cbc C d r srv a)).
Proof.
  intros C d r srv. repeat split; intros.
  - now apply dispatch_tls13_aead.
  - now apply dispatch_tls13_chacha.
  - now apply dispatch_tls12_aead.
  - now apply dispatch_tls12_chacha.
  - now apply dispatch_rc4.
  - now apply dispatch_cbc_explicit.
  - now apply dispatch_cbc_chained.
Qed.

Lemma directions_independent : forall (d : decryptor) (srv : bool) (n : Z) (b : bytes),
  (cur_seq (set_seq d (negb srv) n) srv = cur_seq d srv /\ cur_key (set_seq d (negb srv) n) srv = cur_key d srv /\ cur_iv (set_seq d (negb srv) n) srv = cur_iv d srv) /\
  (if srv then d_rc4_server (add_rc4 d (negb srv) n) else d_rc4_client (add_rc4 d (negb srv) n)) = (if srv then d_rc4_server d else d_rc4_client d) /\
  (if srv then d_last_block_server (set_last_block d (negb srv) b) else d_last_block_client (set_last_block d (negb srv) b)) = (if srv then d_last_block_server d else d_last_block_client d).
Proof. intros. split; [apply set_seq_other|split; [apply add_rc4_other|apply set_last_block_other]]. Qed.
End All.
