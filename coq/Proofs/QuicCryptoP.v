(* C02, CRYPTO-frame ordering: a handshake flight cut into CRYPTO frames at any points and captured in ANY order is reassembled to
   exactly the flight (QuicTlsSession.update_session: sort by offset, consume every frame that continues the stream). *)
From Coq Require Import ZArith List Bool Lia Permutation Sorted.
Require Import PyLib PyLibP QuicDissector QuicTls.
Import ListNotations.
Open Scope Z_scope.

Lemma firstn_S_nth_gen (l : list bytes) : forall i, (i < length l)%nat -> firstn (S i) l = firstn i l ++ [nth i l []].
Proof.
  induction l as [|d r IH]; intros i Hi; [cbn in Hi; lia|].
  destruct i; [reflexivity|]. cbn [firstn nth app]. f_equal. apply IH. cbn in Hi. lia.
Qed.

Section Reasm.
Variable ds : list bytes.                       (* the pieces, in stream order *)
Hypothesis nonempty : Forall (fun d => d <> []) ds.
Variable ident : nat -> Z.                      (* object identities of the frames *)
Hypothesis ident_inj : forall i j, ident i = ident j -> i = j.

Definition off (i : nat) : Z := len (concat (firstn i ds)).
Definition piece (i : nat) : bytes := nth i ds [].
Definition fr (i : nat) : cframe := {| cf_offset := off i; cf_length := len (piece i); cf_data := piece i; cf_id := ident i |}.
Definition n := length ds.

Lemma firstn_S_nth i : (i < n)%nat -> firstn (S i) ds = firstn i ds ++ [piece i].
Proof. intros Hi. apply firstn_S_nth_gen. exact Hi. Qed.

Lemma off_S i : (i < n)%nat -> off (S i) = off i + len (piece i).
Proof. intros Hi. unfold off. rewrite firstn_S_nth by exact Hi. rewrite concat_app, len_app. cbn [concat]. now rewrite app_nil_r. Qed.

Lemma piece_pos i : (i < n)%nat -> 0 < len (piece i).
Proof.
  intros Hi. unfold piece. assert (Hin : In (nth i ds []) ds) by (apply nth_In; exact Hi).
  rewrite Forall_forall in nonempty. specialize (nonempty _ Hin). destruct (nth i ds []); [contradiction|]. unfold len. cbn. lia.
Qed.

Lemma off_mono i j : (i < j)%nat -> (j <= n)%nat -> off i < off j.
Proof.
  intros Hij Hj. induction j as [|j IH]; [lia|].
  destruct (Nat.eq_dec i j) as [->|Hne].
  - rewrite off_S by lia. pose proof (piece_pos j ltac:(lia)). lia.
  - rewrite off_S by lia. pose proof (piece_pos j ltac:(lia)). specialize (IH ltac:(lia) ltac:(lia)). lia.
Qed.

Lemma off_inj i j : (i <= n)%nat -> (j <= n)%nat -> off i = off j -> i = j.
Proof.
  intros Hi Hj H. destruct (Nat.lt_trichotomy i j) as [L|[E|L]]; [|exact E|].
  - pose proof (off_mono i j L Hj). lia.
  - pose proof (off_mono j i L Hi). lia.
Qed.

(* sorted insertion of indices mirrors insert_cf on frames *)
Fixpoint ins (j : nat) (l : list nat) : list nat :=
  match l with [] => [j] | x :: r => if (j <? x)%nat then j :: x :: r else x :: ins j r end.

Lemma insert_cf_fr j l : (j < n)%nat -> Forall (fun i => (i < n)%nat /\ i <> j) l -> insert_cf (fr j) (map fr l) = map fr (ins j l).
Proof.
  intros Hj H. induction l as [|x r IH]; [reflexivity|]. inversion H as [|y z [Hx Hne] Hr]; subst.
  cbn [map insert_cf ins]. cbn [fr cf_offset].
  destruct (Nat.ltb_spec j x) as [L|L].
  - replace (off j <? off x) with true by (symmetry; apply Z.ltb_lt; apply off_mono; lia). reflexivity.
  - replace (off j <? off x) with false by (symmetry; apply Z.ltb_ge; assert (x < j)%nat by lia; pose proof (off_mono x j ltac:(lia) ltac:(lia)); lia).
    cbn [map]. f_equal. apply IH. exact Hr.
Qed.

(* removing a frame by identity removes its index *)
Fixpoint rm (j : nat) (l : list nat) : list nat := match l with [] => [] | x :: r => if Nat.eqb x j then r else x :: rm j r end.
Lemma remove_id_fr j l : remove_id (ident j) (map fr l) = map fr (rm j l).
Proof.
  induction l as [|x r IH]; [reflexivity|]. cbn [map remove_id rm fr cf_id].
  destruct (Nat.eqb_spec x j) as [->|Hne].
  - now rewrite Z.eqb_refl.
  - replace (ident x =? ident j) with false by (symmetry; apply Z.eqb_neq; intro E; apply Hne; now apply ident_inj). cbn [map]. now rewrite IH.
Qed.

(* the state of one CRYPTO stream: m pieces consumed, the indices in `pend` waiting *)
Definition st (m : nat) (pend : list nat) : cstream :=
  {| cs_offset := off m; cs_frames := map fr pend; cs_buffer := concat (firstn m ds) |}.

(* increasing index lists *)
Definition incr (l : list nat) : Prop := StronglySorted lt l.

(* draining a snapshot whose indices all lie above m+... : nothing matches *)
Lemma drain_nothing snap : forall m pend, (m <= n)%nat -> Forall (fun i => (m < i <= n)%nat) snap -> drain (map fr snap) (st m pend) = st m pend.
Proof.
  induction snap as [|x r IH]; intros m pend Hm H; [reflexivity|]. inversion H as [|y z Hx Hr]; subst.
  cbn [map drain]. cbn [fr cf_offset st cs_offset].
  replace (off x =? off m) with false by (symmetry; apply Z.eqb_neq; intro E; apply off_inj in E; lia). fold (st m pend). apply IH; assumption.
Qed.

(* the run m, m+1, ... at the head of an increasing list is consumed *)
Fixpoint consume (m : nat) (l : list nat) : nat * list nat :=
  match l with [] => (m, []) | x :: r => if Nat.eqb x m then consume (S m) r else (m, x :: r) end.

Lemma incr_tail x r : incr (x :: r) -> incr r /\ Forall (fun i => (x < i)%nat) r.
Proof. intros H. inversion H; subst. split; assumption. Qed.

Lemma consume_spec l : forall m, incr l -> Forall (fun i => (m <= i < n)%nat) l -> (m <= n)%nat ->
  (m <= fst (consume m l) <= n)%nat /\ incr (snd (consume m l)) /\ Forall (fun i => (fst (consume m l) < i < n)%nat) (snd (consume m l)) /\
  (forall i, In i l <-> (m <= i < fst (consume m l))%nat \/ In i (snd (consume m l))).
Proof.
  induction l as [|x r IH]; intros m Hs Hb Hm; cbn [consume fst snd].
  - split; [lia|]. split; [constructor|]. split; [constructor|]. intros i; split; [intros []|intros [H|[]]; lia].
  - inversion Hb as [|y z Hx Hr]; subst. destruct (incr_tail x r Hs) as [Hsr Hgt].
    destruct (Nat.eqb_spec x m) as [->|Hne].
    + assert (Hb' : Forall (fun i => (S m <= i < n)%nat) r).
      { rewrite Forall_forall in *. intros i Hi. specialize (Hr i Hi). specialize (Hgt i Hi). lia. }
      destruct (IH (S m) Hsr Hb' ltac:(lia)) as (H1 & H2 & H3 & H4). split; [lia|]. split; [exact H2|]. split; [exact H3|]. intros i; split.
      * intros [->|Hi]; [left; lia|]. apply H4 in Hi. destruct Hi as [Hi|Hi]; [left; lia|right; exact Hi].
      * intros [Hi|Hi]; [destruct (Nat.eq_dec i m) as [->|]; [now left|right; apply H4; left; lia]|right; apply H4; right; exact Hi].
    + cbn [fst snd]. split; [lia|]. split; [exact Hs|]. split.
      * constructor; [lia|]. rewrite Forall_forall in *. intros i Hi. specialize (Hr i Hi). specialize (Hgt i Hi). lia.
      * intros i; split; [intros Hi; right; exact Hi|intros [Hi|Hi]; [lia|exact Hi]].
Qed.

Lemma drain_consume l : forall m, incr l -> Forall (fun i => (m <= i < n)%nat) l -> (m <= n)%nat ->
  drain (map fr l) (st m l) = st (fst (consume m l)) (snd (consume m l)).
Proof.
  induction l as [|x r IH]; intros m Hs Hb Hm; [reflexivity|].
  inversion Hb as [|y z Hx Hr]; subst. destruct (incr_tail x r Hs) as [Hsr Hgt].
  cbn [map drain consume]. change (cf_offset (fr x)) with (off x). cbn [st cs_offset].
  destruct (Nat.eqb_spec x m) as [->|Hne].
  - rewrite Z.eqb_refl. cbn [cs_frames cs_buffer].
    change (cf_id (fr m)) with (ident m). change (cf_length (fr m)) with (len (piece m)). change (cf_data (fr m)) with (piece m).
    change (cs_frames (st m (m :: r))) with (map fr (m :: r)). change (cs_buffer (st m (m :: r))) with (concat (firstn m ds)). rewrite remove_id_fr. cbn [rm]. rewrite Nat.eqb_refl.
    assert (Hst : {| cs_offset := off m + len (piece m); cs_frames := map fr r; cs_buffer := concat (firstn m ds) ++ piece m |} = st (S m) r).
    { unfold st. rewrite off_S by lia. rewrite firstn_S_nth by lia. rewrite concat_app. cbn [concat]. now rewrite app_nil_r. }
    rewrite Hst. apply IH; [exact Hsr| |lia].
    rewrite Forall_forall in *. intros i Hi. specialize (Hr i Hi). specialize (Hgt i Hi). lia.
  - replace (off x =? off m) with false by (symmetry; apply Z.eqb_neq; intro E; apply off_inj in E; lia).
    fold (st m (x :: r)). cbn [fst snd]. apply drain_nothing; [exact Hm|].
    rewrite Forall_forall in *. intros i Hi. specialize (Hr i Hi). specialize (Hgt i Hi). lia.
Qed.

Lemma ins_spec j l : incr l -> ~ In j l -> incr (ins j l) /\ (forall i, In i (ins j l) <-> i = j \/ In i l).
Proof.
  induction l as [|x r IH]; intros Hs Hn; cbn [ins].
  - split; [repeat constructor|]. intros i. cbn. intuition.
  - destruct (incr_tail x r Hs) as [Hsr Hgt]. destruct (Nat.ltb_spec j x) as [L|L].
    + split.
      * constructor; [exact Hs|]. constructor; [exact L|]. rewrite Forall_forall in *. intros i Hi. specialize (Hgt i Hi). lia.
      * intros i. cbn. intuition.
    + assert (Hjx : j <> x) by (intro E; apply Hn; left; now symmetry).
      destruct (IH Hsr (fun H => Hn (or_intror H))) as [H1 H2]. split.
      * constructor; [exact H1|]. rewrite Forall_forall in *. intros i Hi. apply H2 in Hi. destruct Hi as [->|Hi]; [lia|exact (Hgt i Hi)].
      * intros i. cbn. rewrite H2. intuition.
Qed.

(* one CRYPTO frame arrives: QuicTlsSession.update_session up to the reassembly (what handle_buffer then reads) *)
Definition feed (s : cstream) (cf : cframe) : cstream :=
  let frames := insert_cf cf (cs_frames s) in
  drain frames {| cs_offset := cs_offset s; cs_frames := frames; cs_buffer := cs_buffer s |}.

(* invariant: the pieces 0..m-1 have been appended, the fed pieces with larger index wait, sorted, none of them is piece m *)
Definition Inv (fed : list nat) (s : cstream) : Prop :=
  exists m pend, s = st m pend /\ (m <= n)%nat /\ incr pend /\ Forall (fun i => (m < i < n)%nat) pend /\
                 (forall i, In i fed <-> (i < m)%nat \/ In i pend).

Lemma feed_inv fed s j : Inv fed s -> (j < n)%nat -> ~ In j fed -> Inv (j :: fed) (feed s (fr j)).
Proof.
  intros (m & pend & -> & Hm & Hs & Hb & Hf) Hj Hnf.
  assert (Hjm : (m <= j)%nat) by (destruct (Nat.le_gt_cases m j); [assumption|exfalso; apply Hnf; apply Hf; left; lia]).
  assert (Hnp : ~ In j pend) by (intro H; apply Hnf; apply Hf; right; exact H).
  unfold feed. cbn [st cs_frames cs_offset cs_buffer].
  rewrite insert_cf_fr; [|exact Hj|].
  2:{ rewrite Forall_forall in *. intros i Hi. split; [specialize (Hb i Hi); lia|intro E; subst; contradiction]. }
  destruct (ins_spec j pend Hs Hnp) as [Hs1 Hin1].
  fold (st m (ins j pend)).
  assert (Hb1 : Forall (fun i => (m <= i < n)%nat) (ins j pend)).
  { rewrite Forall_forall in *. intros i Hi. apply Hin1 in Hi. destruct Hi as [->|Hi]; [lia|specialize (Hb i Hi); lia]. }
  rewrite (drain_consume (ins j pend) m Hs1 Hb1 Hm).
  destruct (consume_spec (ins j pend) m Hs1 Hb1 Hm) as (H1 & H2 & H3 & H4).
  exists (fst (consume m (ins j pend))), (snd (consume m (ins j pend))). repeat split; try lia; try assumption.
  - intros [<-|Hi].
    + assert (Hx : In j (ins j pend)) by (apply Hin1; now left). apply H4 in Hx. destruct Hx as [Hx|Hx]; [left; lia|right; exact Hx].
    + apply Hf in Hi. destruct Hi as [Hi|Hi]; [left; lia|].
      assert (Hx : In i (ins j pend)) by (apply Hin1; now right). apply H4 in Hx. destruct Hx as [Hx|Hx]; [left; lia|right; exact Hx].
  - intros [Hi|Hi].
    + destruct (Nat.lt_ge_cases i m) as [L|L]; [right; apply Hf; left; exact L|].
      assert (Hx : In i (ins j pend)) by (apply H4; left; lia). apply Hin1 in Hx. destruct Hx as [->|Hx]; [now left|right; apply Hf; right; exact Hx].
    + assert (Hx : In i (ins j pend)) by (apply H4; right; exact Hi). apply Hin1 in Hx. destruct Hx as [->|Hx]; [now left|right; apply Hf; right; exact Hx].
Qed.

(* all pieces fed, in any order: the buffer holds the whole flight, nothing is left waiting *)
Theorem any_order order : Permutation order (seq 0 n) ->
  let s := fold_left (fun s j => feed s (fr j)) order cs0 in
  cs_buffer s = concat ds /\ cs_frames s = [] /\ cs_offset s = len (concat ds).
Proof.
  intros HP.
  assert (Hnd : NoDup order) by (apply (Permutation_NoDup (Permutation_sym HP)); apply seq_NoDup).
  assert (Hlt : forall j, In j order -> (j < n)%nat) by (intros j Hj; apply (Permutation_in _ HP) in Hj; apply in_seq in Hj; lia).
  assert (Hgen : forall l fed s, NoDup l -> (forall j, In j l -> (j < n)%nat /\ ~ In j fed) -> Inv fed s ->
                 Inv (rev l ++ fed) (fold_left (fun s j => feed s (fr j)) l s)).
  { induction l as [|j r IH]; intros fed s Hn Hl Hi; [exact Hi|]. inversion Hn; subst. cbn [fold_left rev]. rewrite <- app_assoc. cbn [app].
    apply IH; [assumption| |apply feed_inv; [exact Hi|apply Hl; now left|apply Hl; now left]].
    intros k Hk. split; [apply Hl; now right|]. intros [->|Hf]; [contradiction|]. exact (proj2 (Hl k (or_intror Hk)) Hf). }
  assert (H0 : Inv [] cs0).
  { exists 0%nat, []. split; [reflexivity|]. split; [lia|]. split; [constructor|]. split; [constructor|]. intros i; split; [intros []|intros [H|[]]; lia]. }
  specialize (Hgen order [] cs0 Hnd (fun j Hj => conj (Hlt j Hj) (fun H => H)) H0). rewrite app_nil_r in Hgen.
  destruct Hgen as (m & pend & Hs & Hm & Hsp & Hb & Hf). cbv zeta. rewrite Hs.
  assert (Hmn : m = n).
  { destruct (Nat.eq_dec m n) as [E|E]; [exact E|]. exfalso.
    assert (Hfed : In m (rev order)) by (apply in_rev; rewrite rev_involutive; apply (Permutation_in _ (Permutation_sym HP)); apply in_seq; lia).
    apply Hf in Hfed. destruct Hfed as [L|L]; [lia|]. rewrite Forall_forall in Hb. specialize (Hb m L). lia. }
  subst m. assert (Hpe : pend = []) by (destruct pend as [|x r]; [reflexivity|inversion Hb; lia]). subst pend.
  unfold st, off. cbn [cs_buffer cs_frames cs_offset map]. unfold n. rewrite firstn_all. repeat split; reflexivity.
Qed.
End Reasm.
