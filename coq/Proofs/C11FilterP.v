(* C11 at the level of the capture: with -c the run reads a capture exactly as it reads, without -c, the capture from which the packets
   with a wrong transport checksum have been removed. *)
From Coq Require Import ZArith List Bool Lia.
From Coq Require String.
Require Import PyLib SuiteTypes Crypto KeySchedule Packet Checksum TlsSession QuicFrames QuicSession Main.
Import ListNotations.
Open Scope Z_scope.

Definition without_c (o : options) : options :=
  {| opt_server_ports := opt_server_ports o; opt_checksum := false; opt_portmap := opt_portmap o; opt_keep_ports := opt_keep_ports o;
     opt_metadata := opt_metadata o; opt_greasy := opt_greasy o |}.

(* the verdict of -c on a packet: true = processed *)
Definition passes (it : item) : bool :=
  match it with
  | IDsb _ => true
  | IPacket p =>
      match p_kind p with
      | L4Tcp => (len (p_data p) =? 0) || match calculate_checksum_tcp (l4pkt_of p) with Ok b => b | Exn _ => true end
      | L4Udp => (len (p_data p) =? 0) || match calculate_checksum_udp (l4pkt_of p) with Ok b => b | Exn _ => true end
      | L4Other => true
      end
  end.
(* the checksum functions answer (C11_tcp / C11_udp: they do for every well-formed packet) *)
Definition answers (it : item) : Prop :=
  match it with
  | IDsb _ => True
  | IPacket p =>
      match p_kind p with
      | L4Tcp => exists b, calculate_checksum_tcp (l4pkt_of p) = Ok b
      | L4Udp => exists b, calculate_checksum_udp (l4pkt_of p) = Ok b
      | L4Other => True
      end
  end.

Section Filter.
Variable C : Crypto.
Variable o : options.
Variable ftable : list (list Z * fclass).
Hypothesis Hc : opt_checksum o = true.

Lemma read_item_passes st it : answers it -> passes it = true -> read_item C o ftable st it = read_item C (without_c o) ftable st it.
Proof.
  intros Ha Hp. destruct st as [g|e]; [|reflexivity]. unfold read_item. cbn [bind]. destruct it as [p|ks]; [|reflexivity].
  cbn [passes answers] in *. destruct (p_kind p).
  - unfold step_tcp. rewrite Hc. cbn [without_c opt_checksum]. destruct (len (p_data p) =? 0); [reflexivity|]. cbn [orb] in Hp.
    destruct Ha as [b Hb]. rewrite Hb in *. subst b. reflexivity.
  - destruct (len (p_data p) =? 0); [reflexivity|]. cbn [orb] in Hp. rewrite Hc. cbn [without_c opt_checksum].
    destruct Ha as [b Hb]. rewrite Hb in *. subst b. reflexivity.
  - reflexivity.
Qed.

Lemma read_item_fails st it : answers it -> passes it = false -> read_item C o ftable st it = st.
Proof.
  intros Ha Hp. destruct st as [g|e]; [|reflexivity]. unfold read_item. cbn [bind]. destruct it as [p|ks]; [|discriminate].
  cbn [passes answers] in *. destruct (p_kind p); [| |discriminate].
  - unfold step_tcp. rewrite Hc. destruct (len (p_data p) =? 0); [discriminate|]. cbn [orb] in Hp.
    destruct Ha as [b Hb]. rewrite Hb in *. subst b. cbn [bind]. destruct g; reflexivity.
  - destruct (len (p_data p) =? 0); [discriminate|]. cbn [orb] in Hp. rewrite Hc.
    destruct Ha as [b Hb]. rewrite Hb in *. subst b. reflexivity.
Qed.

Theorem checksum_filter items : Forall answers items -> forall st,
  fold_left (read_item C o ftable) items st = fold_left (read_item C (without_c o) ftable) (filter passes items) st.
Proof.
  induction 1 as [|it r Ha _ IH]; intros st; [reflexivity|]. cbn [fold_left filter]. destruct (passes it) eqn:Ep.
  - cbn [fold_left]. rewrite (read_item_passes st it Ha Ep). apply IH.
  - rewrite (read_item_fails st it Ha Ep). apply IH.
Qed.
End Filter.

(* the whole run: reading, decrypting, building *)
Theorem checksum_filter_run C tbl parts o ftable kl items : opt_checksum o = true -> Forall answers items ->
  run C tbl parts o ftable kl items = run C tbl parts (without_c o) ftable kl (filter passes items).
Proof. intros Hc Ha. unfold run. rewrite (checksum_filter C o ftable Hc items Ha). reflexivity. Qed.

(* well-formed packets (C11_tcp / C11_udp) are answered *)
Require Import Rfc1071 C11P.
Lemma wf_answers p : match p_kind p with L4Tcp => wf_pkt 16 (l4pkt_of p) | L4Udp => wf_pkt 6 (l4pkt_of p) | L4Other => True end -> answers (IPacket p).
Proof.
  intros H. cbn [answers]. destruct (p_kind p); [| |exact I].
  - eexists. apply check_is_rfc1071; [exact H|lia|reflexivity|lia].
  - eexists. apply check_is_rfc1071; [exact H|lia|reflexivity|lia].
Qed.
