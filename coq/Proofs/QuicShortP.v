(* C02, the receiving side of a 1-RTT packet: what extract_quic_packet makes of a packet protected by Spec/QuicPackets.v -- the
   header protection comes off, first byte, packet-number bytes, key phase and ciphertext are recovered exactly. *)
From Coq Require Import ZArith List Bool Lia.
Require Import PyLib PyLibP SuiteTypes Crypto KeySchedule QuicKeys Varint QuicPn QuicDissector QuicPackets.
Import ListNotations.
Open Scope Z_scope.

(* ---- finite sweeps over byte values, lifted ---- *)
Lemma range_forall (P : Z -> bool) n : forallb P (map Z.of_nat (seq 0 n)) = true -> forall z, 0 <= z < Z.of_nat n -> P z = true.
Proof.
  intros H z Hz. rewrite forallb_forall in H. apply H. apply in_map_iff. exists (Z.to_nat z). split; [lia|]. apply in_seq. lia.
Qed.

Definition first_ok (f x : Z) : bool :=
  let p := Z.lxor f x in
  (0 <=? p) && (p <? 256) && (Z.lxor p x =? f) &&
  (if f <? 128 then negb (Z.land (Z.shiftr p 7) 1 =? 1) else true) &&
  (if (64 <=? f) && (f <? 128) then 64 <=? p else true) &&
  (Z.land p 3 + 1 =? Z.land p 3 + 1).

Lemma first_sweep : forallb (fun f => forallb (fun x => first_ok f x) (map Z.of_nat (seq 0 32))) (map Z.of_nat (seq 0 256)) = true.
Proof. vm_compute. reflexivity. Qed.

Lemma first_facts f x : 0 <= f < 256 -> 0 <= x < 32 -> first_ok f x = true.
Proof.
  intros Hf Hx. pose proof (range_forall _ 256 first_sweep f ltac:(lia)) as H. cbv beta in H. exact (range_forall _ 32 H x ltac:(lia)).
Qed.

Lemma land31 m : 0 <= Z.land m 31 < 32.
Proof. change 31 with (Z.ones 5). rewrite Z.land_ones by lia. apply Z.mod_pos_bound. lia. Qed.

Lemma xor_zip_involutive p : forall m, (length p <= length m)%nat -> xor_zip (xor_zip p m) m = p.
Proof.
  induction p as [|x p IH]; intros m H; [reflexivity|]. destruct m as [|y m]; [cbn in H; lia|]. cbn [xor_zip]. cbn [length] in H.
  rewrite IH by lia. f_equal. rewrite Z.lxor_assoc, Z.lxor_nilpotent, Z.lxor_0_r. reflexivity.
Qed.
Lemma xor_zip_len p m : (length p <= length m)%nat -> len (xor_zip p m) = len p.
Proof. intros H. unfold len. rewrite xor_zip_length. lia. Qed.

(* ---- slicing a concatenation ---- *)
Lemma slice_skip {A} (x y : list A) a b : len x <= a -> slice (x ++ y) a b = slice y (a - len x) (b - len x).
Proof.
  intros H. rewrite !slice_eq. pose proof (len_nonneg x). unfold len in *.
  replace (Z.to_nat (b - Z.of_nat (length x) - (a - Z.of_nat (length x)))) with (Z.to_nat (b - a)) by lia.
  f_equal. rewrite skipn_app. rewrite skipn_all2 by lia. cbn [app]. f_equal. lia.
Qed.
Lemma slice_from_skip {A} (x y : list A) a : len x <= a -> slice_from (x ++ y) a = slice_from y (a - len x).
Proof.
  intros H. rewrite !slice_from_eq. pose proof (len_nonneg x). unfold len in *. rewrite skipn_app. rewrite skipn_all2 by lia. cbn [app]. f_equal. lia.
Qed.
Lemma slice_head {A} (x y : list A) k : k = len x -> slice (x ++ y) 0 k = x.
Proof.
  intros ->. rewrite slice_eq. rewrite Z.sub_0_r. cbn [Z.to_nat skipn]. unfold len. rewrite Nat2Z.id, firstn_app, firstn_all, Nat.sub_diag. cbn. now rewrite app_nil_r.
Qed.
Lemma slice_from_0 {A} (y : list A) : slice_from y 0 = y.
Proof. rewrite slice_from_eq. reflexivity. Qed.

Lemma from_be_pos x r : 0 < x -> bytes_ok r -> 0 < from_be (x :: r).
Proof.
  intros Hx Hr. unfold from_be. cbn [be_acc]. rewrite be_acc_shift. pose proof (be_acc_nonneg r 0 Hr ltac:(lia)).
  assert (0 < 256 ^ len r) by (apply Z.pow_pos_nonneg; [lia|apply len_nonneg]). nia.
Qed.

Section Short.
Variable C : Crypto.

Theorem extract_short (chacha : bool) a (hp key iv : bytes) first (dcid pnb pn8 payload d : bytes) ts (srv : bool) keys :
  0 <= first < 256 -> 64 <= first < 128 -> len pnb = Z.land first 3 + 1 -> bytes_ok dcid ->
  (if srv then hp_server_app keys else hp_client_app keys) = Some hp ->
  protect_short C chacha a hp key iv first dcid pnb pn8 payload = Ok d ->
  (forall sample mask, (if chacha then c_chacha_mask C hp sample else c_ecb_enc C hp sample) = Ok mask -> 5 <= len mask /\ bytes_ok mask) ->
  (forall nonce pt aad ct, c_aead_enc C a 16 key nonce pt aad = Ok ct -> bytes_ok ct) -> bytes_ok pnb ->
  exists ct, c_aead_enc C a 16 key (quic_nonce iv pn8) payload ([first] ++ dcid ++ pnb) = Ok ct /\
  extract_inner C d ts srv dcid keys chacha =
    Ok ([ {| qp_type := QOneRtt; qp_isserver := srv; qp_ts := ts; qp_first_byte := [first]; qp_version := []; qp_dcid_len := []; qp_dcid := dcid;
             qp_scid_len := []; qp_scid := []; qp_token_len_bytes := []; qp_token := []; qp_packet_len_bytes := []; qp_pn := pnb;
             qp_payload := ct; qp_key_phase := Z.land (Z.shiftr first 2) 1; qp_supported := [] |} ], []).
Proof.
  intros Hf Hf2 Hpl Hdc Hhp Hprot Hmask Hct Hpn. unfold protect_short in Hprot.
  destruct (c_aead_enc C a 16 key (quic_nonce iv pn8) payload ([first] ++ dcid ++ pnb)) as [ct|] eqn:Ect; [|discriminate]. cbn [bind] in Hprot.
  set (pn_off := 1 + len dcid) in *.
  set (sample := slice (([first] ++ dcid ++ pnb) ++ ct) (pn_off + 4) (pn_off + 20)) in *.
  destruct (if chacha then c_chacha_mask C hp sample else c_ecb_enc C hp sample) as [mask|] eqn:Em; [|discriminate]. cbn [bind] in Hprot.
  destruct (Hmask sample mask Em) as [Hml Hmok]. pose proof (Hct _ _ _ _ Ect) as Hctok.
  destruct mask as [|m0 mrest]; [unfold len in Hml; cbn in Hml; lia|].
  assert (Hidx : index (m0 :: mrest) 0 = Ok m0).
  { unfold index. change (0 <? 0) with false. cbv iota. change (0 <? 0) with false. replace (len (m0 :: mrest) <=? 0) with false by (symmetry; apply Z.leb_gt; lia). reflexivity. }
  rewrite Hidx in Hprot. cbn [bind] in Hprot. injection Hprot as <-.
  exists ct. split; [reflexivity|].
  set (x := Z.land m0 31). pose proof (land31 m0) as Hx. fold x in Hx.
  pose proof (first_facts first x Hf Hx) as Hff. unfold first_ok in Hff. cbv zeta in Hff.
  assert (E128 : (first <? 128) = true) by (apply Z.ltb_lt; lia). assert (E64 : (64 <=? first) = true) by (apply Z.leb_le; lia).
  rewrite E128, E64 in Hff. cbn [andb] in Hff. cbv iota in Hff.
  set (pf := Z.lxor first x) in *.
  apply andb_true_iff in Hff as [Hff _]. apply andb_true_iff in Hff as [Hff H64]. apply andb_true_iff in Hff as [Hff Hlong].
  apply andb_true_iff in Hff as [Hff Hback]. apply andb_true_iff in Hff as [Hp0 Hp1].
  apply Z.leb_le in Hp0, H64. apply Z.ltb_lt in Hp1. apply Z.eqb_eq in Hback. apply negb_true_iff in Hlong.
  pose proof (len_nonneg dcid) as Hdl. pose proof (len_nonneg pnb) as Hpnl.
  assert (Hpl4 : 1 <= len pnb <= 4).
  { rewrite Hpl. change 3 with (Z.ones 2). rewrite Z.land_ones by lia. change (2 ^ 2) with 4. pose proof (Z.mod_pos_bound first 4 ltac:(lia)). lia. }
  set (mk := slice (m0 :: mrest) 1 (len pnb + 1)).
  assert (Hmk : (length pnb <= length mk)%nat).
  { unfold mk. rewrite slice_eq. replace (Z.to_nat (len pnb + 1 - 1)) with (length pnb) by (unfold len; lia). change (Z.to_nat 1) with 1%nat. cbn [skipn].
    rewrite firstn_length. unfold len in Hml, Hpl4. cbn [length] in Hml. lia. }
  set (ppn := xor_zip pnb mk).
  assert (Hppl : len ppn = len pnb) by (apply xor_zip_len; exact Hmk).
  set (d := [pf] ++ dcid ++ ppn ++ ct).
  assert (Hdlen : len d = 1 + len dcid + len pnb + len ct) by (unfold d; rewrite !len_app, Hppl; change (len [pf]) with 1; lia).
  pose proof (len_nonneg ct) as Hcl.
  (* the pieces extract_inner reads *)
  assert (Hi0 : index d 0 = Ok pf).
  { unfold index, d. change (0 <? 0) with false. cbv iota. change (0 <? 0) with false. cbn [app].
    replace (len (pf :: dcid ++ ppn ++ ct) <=? 0) with false by (symmetry; apply Z.leb_gt; rewrite len_cons; pose proof (len_nonneg (dcid ++ ppn ++ ct)); lia). reflexivity. }
  assert (Hlong' : get_header_type_long d = Ok false) by (unfold get_header_type_long; rewrite Hi0; cbn [bind]; rewrite Hlong; reflexivity).
  assert (Hnz : (from_be d =? 0) = false).
  { apply Z.eqb_neq. unfold d. cbn [app]. pose proof (from_be_pos pf (dcid ++ ppn ++ ct) ltac:(lia)) as Hp. 
    assert (bytes_ok ppn).
    { unfold ppn. clear -Hpn Hmok. unfold mk. assert (Hm' : bytes_ok (slice (m0 :: mrest) 1 (len pnb + 1))) by (apply bytes_ok_slice; exact Hmok).
      revert Hm'. generalize (slice (m0 :: mrest) 1 (len pnb + 1)). induction pnb as [|p1 pr IH]; intros mm Hmm; [constructor|].
      destruct mm as [|q mm]; [constructor|]. cbn [xor_zip]. inversion Hpn; inversion Hmm; subst. constructor; [|apply IH; assumption].
      split; [apply Z.lxor_nonneg; lia|]. 
      assert (Hb : forall u v, 0 <= u < 256 -> 0 <= v < 256 -> Z.lxor u v < 256).
      { intros u v Hu Hv. destruct (Z.eq_dec (Z.lxor u v) 0) as [->|Hne]; [lia|].
        assert (0 <= Z.lxor u v) by (apply Z.lxor_nonneg; lia). apply Z.log2_lt_cancel. change (Z.log2 256) with 8.
        pose proof (Z.log2_lxor u v ltac:(lia) ltac:(lia)). 
        assert (Z.log2 u < 8) by (destruct (Z.eq_dec u 0) as [->|]; [cbn; lia|apply Z.log2_lt_pow2; lia]).
        assert (Z.log2 v < 8) by (destruct (Z.eq_dec v 0) as [->|]; [cbn; lia|apply Z.log2_lt_pow2; lia]). lia. }
      apply Hb; assumption. }
    specialize (Hp ltac:(repeat apply bytes_ok_app; assumption)). lia. }
  assert (Htk : take d 1 (len dcid) = Ok (slice d 1 (1 + len dcid))).
  { unfold take. replace ((len dcid <? 0) || (len d <? 1 + len dcid)) with false; [reflexivity|].
    symmetry. apply orb_false_iff. split; [apply Z.ltb_ge; lia|apply Z.ltb_ge; lia]. }
  assert (Hsample : slice d (pn_off + 4) (pn_off + 20) = sample).
  { unfold sample, d. replace ([pf] ++ dcid ++ ppn ++ ct) with (([pf] ++ dcid ++ ppn) ++ ct) by (now rewrite <- !app_assoc).
    rewrite (slice_skip ([pf] ++ dcid ++ ppn) ct) by (rewrite !len_app, Hppl; change (len [pf]) with 1; unfold pn_off; lia).
    rewrite (slice_skip ([first] ++ dcid ++ pnb) ct) by (rewrite !len_app; change (len [first]) with 1; unfold pn_off; lia).
    rewrite !len_app, Hppl. reflexivity. }
  assert (Hpnslice : forall k, k = len pnb -> slice d pn_off (pn_off + k) = ppn).
  { intros k ->. unfold d. replace ([pf] ++ dcid ++ ppn ++ ct) with (([pf] ++ dcid) ++ ppn ++ ct) by (now rewrite <- !app_assoc).
    rewrite slice_skip by (rewrite len_app; change (len [pf]) with 1; unfold pn_off; lia).
    rewrite len_app. change (len [pf]) with 1. fold pn_off. replace (pn_off - pn_off) with 0 by lia. replace (pn_off + len pnb - pn_off) with (len pnb) by lia.
    apply slice_head. symmetry. exact Hppl. }
  assert (Hrest : slice_from d (pn_off + len pnb) = ct).
  { unfold d. replace ([pf] ++ dcid ++ ppn ++ ct) with (([pf] ++ dcid ++ ppn) ++ ct) by (now rewrite <- !app_assoc).
    rewrite slice_from_skip by (rewrite !len_app, Hppl; change (len [pf]) with 1; unfold pn_off; lia).
    rewrite !len_app, Hppl. change (len [pf]) with 1. replace (pn_off + len pnb - (1 + (len dcid + len pnb))) with 0 by (unfold pn_off; lia). apply slice_from_0. }
  (* run extract_inner *)
  unfold extract_inner. change (pf :: dcid ++ ppn ++ ct) with d. rewrite Hlong'. cbn [bind]. rewrite Hnz, Hi0. cbn [bind]. rewrite Htk. cbn [bind].
  fold pn_off. rewrite Hsample, Hhp. cbn [key_of bind].
  unfold remove_header_protection. rewrite Em. cbn [bind]. rewrite Hidx. cbn [bind].
  fold x. fold pf. rewrite Hback. cbv zeta.
  rewrite <- Hpl. rewrite (Hpnslice (len pnb) eq_refl). fold mk. unfold ppn at 1. rewrite (xor_zip_involutive pnb mk Hmk).
  assert (Htk2 : take d pn_off (len pnb) = Ok ppn).
  { unfold take. replace ((len pnb <? 0) || (len d <? pn_off + len pnb)) with false; [rewrite (Hpnslice (len pnb) eq_refl); reflexivity|].
    symmetry. apply orb_false_iff. split; apply Z.ltb_ge; unfold pn_off; lia. }
  rewrite Htk2. cbn [bind]. 
  assert (Hfb0 : index [first] 0 = Ok first) by reflexivity. rewrite Hfb0. cbn [bind]. rewrite Hrest. reflexivity.
Qed.
End Short.

(* ---------------- from the extracted packet to the session's output ---------------- *)
Require Import QuicFrames QuicTls QuicSession TlsRecords QuicEpochP.

Section OneRtt.
Variable C : Crypto.
Hypothesis L : CryptoLaws C.
Variable keylog : list secret.
Variable ftable : list (list Z * fclass).

(* frames that only carry data or are ignored by the session: everything but CRYPTO and NEW_CONNECTION_ID *)
Definition plain_frame (f : frame) : bool := match f_cls f with CCrypto | CNewConnectionId => false | _ => true end.
Definition stream_entries (pk : qpacket) (fs : list frame) : list oframe :=
  flat_map (fun f => match f_cls f with
                     | CStream => [ {| of_kind := OStream; of_data := nth 0 (f_datas f) []; of_ts := qp_ts pk; of_isserver := qp_isserver pk |} ]
                     | _ => [] end) fs.

Lemma handle_plain_frames pk fs : forall s, forallb plain_frame fs = true ->
  handle_frames C keylog s pk fs = upd_out s (qs_output s ++ stream_entries pk fs) \/
  (stream_entries pk fs = [] /\ handle_frames C keylog s pk fs = s).
Proof.
  induction fs as [|f r IH]; intros s H; [right; split; reflexivity|].
  cbn [forallb] in H. apply andb_true_iff in H as [Hf Hr]. cbn [handle_frames]. unfold handle_frame, plain_frame in *.
  unfold stream_entries. cbn [flat_map]. fold (stream_entries pk r).
  destruct (f_cls f) eqn:Ec; try discriminate;
    try (cbn [app]; destruct (IH s Hr) as [E|[E1 E2]]; [left; exact E|right; split; assumption]).
  (* STREAM *)
  set (e := {| of_kind := OStream; of_data := nth 0 (f_datas f) []; of_ts := qp_ts pk; of_isserver := qp_isserver pk |}).
  left. destruct (IH (upd_out s (qs_output s ++ [e])) Hr) as [E|[E1 E2]].
  - rewrite E. cbn [upd_out qs_with qs_output]. rewrite <- app_assoc. reflexivity.
  - rewrite E2, E1. rewrite app_nil_r. reflexivity.
Qed.

Lemma plain_frames_output pk fs s : forallb plain_frame fs = true -> qs_output (handle_frames C keylog s pk fs) = qs_output s ++ stream_entries pk fs.
Proof.
  intros H. destruct (handle_plain_frames pk fs s H) as [E|[E1 E2]]; [rewrite E; reflexivity|rewrite E2, E1, app_nil_r; reflexivity].
Qed.

(* the packet of extract_short, decrypted with the keys the sender used *)
Theorem decrypt_one_rtt s s1 a key iv pk pn8 pns payload ct fs :
  qp_type pk = QOneRtt ->
  select_decryptor C s pk = (s1, Some (a, (key, iv))) ->
  get_full_packet_number (qs_pn s1) (qp_isserver pk) SpApp (qp_pn pk) = Ok (pn8, pns) ->
  c_aead_enc C a 16 key (quic_nonce iv pn8) payload (qp_first_byte pk ++ qp_dcid pk ++ qp_pn pk) = Ok ct -> qp_payload pk = ct ->
  parse_frames ftable payload = Ok fs ->
  decrypt_packet C keylog ftable s pk = Ok (handle_frames C keylog (upd_pn s1 pns) pk fs).
Proof.
  intros Ht Hsel Hpn Henc Hpay Hparse. unfold decrypt_packet. rewrite Hsel, Ht. cbn [space_of]. rewrite Hpn.
  cbn [andb]. unfold quic_decrypt. rewrite Hpay. destruct (aead_rt C L _ _ _ _ _ _ _ Henc) as [Hdec _]. rewrite Hdec, Hparse. reflexivity.
Qed.
End OneRtt.

Require Import QuicAppendP.

Section Datagram.
Variable C : Crypto.
Hypothesis L : CryptoLaws C.
Variable keylog : list secret.
Variable ftable : list (list Z * fclass).

(* A datagram holding one 1-RTT packet from the sender of Spec/QuicPackets.v, handed to the session that holds the sender's keys:
   what the session adds to its output is exactly the data of the packet's STREAM frames, in order, with the datagram's time and
   direction.  (Key selection: C02_key_phase_*; packet number: C16; frames: C17.) *)
Theorem one_rtt_datagram (chacha : bool) a (hp key iv : bytes) first (dcid pnb pn8 payload d : bytes) ts (srv : bool) s s1 pns fs :
  0 <= first < 256 -> 64 <= first < 128 -> len pnb = Z.land first 3 + 1 -> bytes_ok dcid -> bytes_ok pnb ->
  (if srv then hp_server_app (qs_hp s) else hp_client_app (qs_hp s)) = Some hp ->
  (match qt_ciphersuite (qs_tls s) with Some cs => bytes_eqb cs [0x13; 0x03] | None => false end) = chacha ->
  protect_short C chacha a hp key iv first dcid pnb pn8 payload = Ok d ->
  (forall sample mask, (if chacha then c_chacha_mask C hp sample else c_ecb_enc C hp sample) = Ok mask -> 5 <= len mask /\ bytes_ok mask) ->
  (forall nonce pt aad ct, c_aead_enc C a 16 key nonce pt aad = Ok ct -> bytes_ok ct) ->
  (forall ct, select_decryptor C s {| qp_type := QOneRtt; qp_isserver := srv; qp_ts := ts; qp_first_byte := [first]; qp_version := []; qp_dcid_len := []; qp_dcid := dcid;
             qp_scid_len := []; qp_scid := []; qp_token_len_bytes := []; qp_token := []; qp_packet_len_bytes := []; qp_pn := pnb;
             qp_payload := ct; qp_key_phase := Z.land (Z.shiftr first 2) 1; qp_supported := [] |} = (s1, Some (a, (key, iv)))) ->
  get_full_packet_number (qs_pn s1) srv SpApp pnb = Ok (pn8, pns) ->
  parse_frames ftable payload = Ok fs -> forallb plain_frame fs = true ->
  exists s', process_datagram C keylog ftable (S (length d)) s d ts srv dcid = Ok s' /\
             qs_output s' = qs_output s ++ flat_map (fun f => match f_cls f with
                                                              | CStream => [ {| of_kind := OStream; of_data := nth 0 (f_datas f) []; of_ts := ts; of_isserver := srv |} ]
                                                              | _ => [] end) fs.
Proof.
  intros Hf Hf2 Hpl Hdc Hpn Hhp Hch Hprot Hmask Hct Hsel Hfull Hparse Hplain.
  destruct (extract_short C chacha a hp key iv first dcid pnb pn8 payload d ts srv (qs_hp s) Hf Hf2 Hpl Hdc Hhp Hprot Hmask Hct Hpn) as (ct & Henc & Hex).
  set (pk := {| qp_type := QOneRtt; qp_isserver := srv; qp_ts := ts; qp_first_byte := [first]; qp_version := []; qp_dcid_len := []; qp_dcid := dcid;
             qp_scid_len := []; qp_scid := []; qp_token_len_bytes := []; qp_token := []; qp_packet_len_bytes := []; qp_pn := pnb;
             qp_payload := ct; qp_key_phase := Z.land (Z.shiftr first 2) 1; qp_supported := [] |}) in *.
  specialize (Hsel ct). fold pk in Hsel.
  assert (Hdne : d <> []).
  { unfold protect_short in Hprot. destruct (c_aead_enc C a 16 key _ payload _); [|discriminate]. cbn [bind] in Hprot.
    destruct (if chacha then _ else _); [|discriminate]. cbn [bind] in Hprot. destruct (index _ 0); [|discriminate]. cbn [bind] in Hprot. injection Hprot as <-. discriminate. }
  pose proof (decrypt_one_rtt C L keylog ftable s s1 a key iv pk pn8 pns payload ct fs eq_refl Hsel Hfull Henc eq_refl Hparse) as Hdec.
  destruct d as [|b0 dr]; [contradiction|]. cbn [process_datagram]. rewrite Hch.
  unfold extract_quic_packet. rewrite Hex.
  unfold process_qpacket. cbn [qp_type pk]. rewrite Hdec. cbn [bind].
  eexists. split; [destruct (length dr); reflexivity|].
  rewrite (plain_frames_output C keylog pk fs _ Hplain). cbn [upd_pn qs_with qs_output].
  rewrite (sel_out C s pk s1 _ Hsel). reflexivity.
Qed.
End Datagram.
