(* Property C07 (TLS over TCP) -- statements only. *)
From Coq Require Import ZArith List Bool.
Require Import TimeConv TimeP PyLib Packet Reassembly TlsSession OutputBuilder Frames Main BuilderP C07P.
Import ListNotations.
Open Scope Z_scope.

(* a record's metadata is exactly the set of buffered packets whose byte range intersects the record's *)
Theorem C07_provenance : forall rs i rl p, In p (overlapping rs i rl) <-> exists a b, In (a, b, p) rs /\ i < b /\ a < i + rl.
Proof. exact metadata_is_overlap. Qed.
Print Assumptions C07_provenance.

(* the conversation: handshake stamped with the first carrier of the first exported record; then, per entry, segments stamped
   with capture times of that entry's record's carriers, data flowing in the record's direction *)
Theorem C07_times_and_direction : forall e t segs, build (e :: t) = Ok segs ->
  exists p0 tail, hd_error (r_meta (te_record e)) = Some p0 /\ segs = handshake (p_ts p0) ++ tail /\ conversation_of (e :: t) tail.
Proof. exact build_provenance. Qed.
Print Assumptions C07_times_and_direction.

(* a frame is addressed from the sender's MAC / IP / port to the receiver's, IP version of the flow *)
Theorem C07_addressing : forall e from_server flags seq ack payload,
  tcp_frame e from_server flags seq ack payload =
  frame_from_to (e_v6 e) (if from_server then server_of e else client_of e) (if from_server then client_of e else server_of e) flags seq ack payload.
Proof. exact frame_addressing. Qed.
Print Assumptions C07_addressing.

(* the endpoints' roles are those fixed by the flow's first packet *)
Theorem C07_roles : forall p ports, let s := new_session p ports in
  (mem_Z (p_sport p) ports = true -> ts_server_ip s = p_src p /\ ts_server_port s = p_sport p /\ ts_server_mac s = p_smac p /\
                                     ts_client_ip s = p_dst p /\ ts_client_port s = p_dport p /\ ts_client_mac s = p_dmac p) /\
  (mem_Z (p_sport p) ports = false -> ts_server_ip s = p_dst p /\ ts_server_port s = p_dport p /\ ts_server_mac s = p_dmac p /\
                                      ts_client_ip s = p_src p /\ ts_client_port s = p_sport p /\ ts_client_mac s = p_smac p) /\
  ts_ipv6 s = p_v6 p.
Proof. exact session_roles. Qed.
Print Assumptions C07_roles.

(* "Time stamps are preserved to microsecond resolution": a capture time of m microseconds (0 <= m < 2^51, i.e. before the year 2041), read
   from a microsecond-resolution pcapng as the float m / 10^6 and written back as intround(ts * 1e6), is m again: the two roundings of the
   binary64 arithmetic never add up to half a microsecond.  (Assumes the standard library's real numbers and classical logic, through
   Flocq -- see DESIGN.md I.5.)  Other resolutions: C12_time_any_resolution. *)
Theorem C07_microseconds : forall m, 0 <= m < 2 ^ 51 -> time_us m 1000000 0 = Some m.
Proof.
  intros m [H0 H1]. destruct (Z.eq_dec m 0) as [->|N]; [exact (time_us_zero 1000000 eq_refl)|].
  apply time_us_whole; [| reflexivity | ring | exact H1]. apply Z.le_neq. split; [exact H0|]. intros E. apply N. symmetry. exact E.
Qed.
Print Assumptions C07_microseconds.
