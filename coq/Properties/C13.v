(* Property C13 -- statements only (TLS over TCP, then QUIC). *)
From Coq Require Import ZArith List Bool.
From Coq Require String.
Require Import PyLib SuiteTypes Crypto KeySchedule Packet Reassembly Decryptor TlsSession OutputBuilder Frames Main BuilderP C13P QuicSession QuicBuildP.
Import ListNotations.
Open Scope Z_scope.

(* what a session hands to the builder without -a is what it hands over with -a minus the entries only -a adds; no cipher
   state depends on the option (the record handlers of the model do not take it) *)
Theorem C13_traffic : forall C tbl parts o keylog s,
  session_traffic C tbl parts (with_meta o false) keylog s =
  rmap (filter (fun e => negb (te_meta e))) (session_traffic C tbl parts (with_meta o true) keylog s).
Proof. exact traffic_without_meta. Qed.
Print Assumptions C13_traffic.

(* the data segments written without -a are, payload for payload and in order, a subsequence of those written with -a *)
Theorem C13_only_adds : forall t segs, build t = Ok segs ->
  exists segs', build (filter (fun e => negb (te_meta e)) t) = Ok segs' /\
                data_parts segs' = flat_map eparts (filter (fun e => negb (te_meta e)) t) /\
                sublist (data_parts segs') (data_parts segs).
Proof. exact meta_only_adds. Qed.
Print Assumptions C13_only_adds.

(* every handshake record -- ClientHello and ServerHello among them -- is emitted verbatim as an entry of its own *)
Theorem C13_hello_verbatim : forall C tbl parts keylog s r d s' em,
  r_type r = 0x16 -> handle_tls_record C tbl parts keylog s r d = Ok (s', em) ->
  exists before, em = before ++ [ {| te_data := Some (r_raw r); te_record := r; te_isserver := d; te_meta := true |} ].
Proof.
  intros C tbl parts keylog s r d s' em Ht H. unfold handle_tls_record in H. rewrite Ht in H. cbn [Z.eqb Pos.eqb] in H.
  destruct (handle_tls_handshake_record _ _ _ _ _ _ _) as [x|]; [|discriminate]. cbn [bind] in H. injection H as <- <-.
  eexists. reflexivity.
Qed.
Print Assumptions C13_hello_verbatim.

(* QUIC: per direction, the bytes exported without -a are the STREAM data of the collected frames; with -a the same frames' data
   with the CRYPTO / version-negotiation data in between, in frame order: every piece of stream data still appears, in the same
   order and direction.  The frames collected do not depend on the option (process_datagram does not take it). *)
Theorem C13_quic : forall b out,
  concat (map od_payload (dir_dgrams b (quic_build false out))) = all_data true (filter is_stream (dir_frames b out)) /\
  concat (map od_payload (dir_dgrams b (quic_build true out))) = all_data true (dir_frames b out).
Proof. exact meta_only_adds_quic. Qed.
Print Assumptions C13_quic.
