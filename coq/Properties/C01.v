(* Property C01 (TLS-over-TCP application data is exported exactly) -- statements only: the cipher-state half.
   For EVERY instance C of the primitives that satisfies CryptoLaws (decryption inverts encryption; sizes) and for each of the six
   protection classes: ANY history of application records protected by the sender of Spec/TlsRecords.v, starting from a state
   synchronised with the decryptor's (same key and IV; sequence number / CBC residue / RC4 key-stream position), is decrypted to
   exactly the contents, in order, and the states stay synchronised -- whatever the lengths (0..65535), the explicit nonces and IVs,
   the MAC values and the padding lengths.  That the handshake leaves session and sender synchronised (keys = C15's theorems;
   positions after the Finished records), that reassembly hands the records over in order (C05) and that the builder's segments
   concatenate to the records (C06) are the other parts; the handshake part is decided by the reference sender on the
   implementation and by byte-exact correspondence of the session model, not by a theorem (DESIGN.md, C01). *)
From Coq Require Import ZArith List Bool.
From Coq Require String.
Require Import PyLib SuiteTypes Crypto KeySchedule Packet Reassembly Decryptor TlsSession TlsRecords C01P Hs13P C01SessionP C01Session12P C01SessionLegacyP HelloP Fresh12P PlainHsP Keys12P Conn12P.
Import ListNotations.
Open Scope Z_scope.

(* TLS 1.3 (AES-GCM, AES-CCM, ChaCha20-Poly1305): content || type || zero padding comes back for every record; the sequence number
   advances by one per record, up to 2^64 records *)
Theorem C01_tls13 : forall C, CryptoLaws C -> forall srv a key iv version tag xs d st stN rs,
  8 <= len iv -> len version = 2 -> 0 <= tag ->
  P13 srv key iv tag (length xs) d st -> Forall (fun x => len (inner13 x) + tag < 65536) xs ->
  send_all _ (fun st x => let '(c, t, p) := x in send13 C a tag key iv version st c t p) st xs = Ok (stN, rs) ->
  exists dN, dec_all (fun d r => decrypt_tls13 C d r srv a) d rs = Ok (dN, map inner13 xs) /\ P13 srv key iv tag 0 dN stN.
Proof. exact tls13_history. Qed.
Print Assumptions C01_tls13.

(* TLS 1.2 AEAD with explicit nonce: any 8 explicit bytes per record *)
Theorem C01_tls12_aead : forall C, CryptoLaws C -> forall srv a key salt version tag xs d st stN rs,
  len version = 2 -> 0 <= tag ->
  P12 srv key salt tag (length xs) d st -> Forall (fun x : bytes * bytes => len (fst x) = 8 /\ len (snd x) < 65536) xs ->
  send_all _ (fun st x => send12_aead C a tag key salt version st (fst x) (snd x)) st xs = Ok (stN, rs) ->
  exists dN, dec_all (fun d r => decrypt_tls12_aead C d r srv a) d rs = Ok (dN, map snd xs) /\ P12 srv key salt tag 0 dN stN.
Proof. exact tls12_aead_history. Qed.
Print Assumptions C01_tls12_aead.

Theorem C01_tls12_chacha : forall C, CryptoLaws C -> forall srv key iv version xs d st stN rs,
  8 <= len iv -> len version = 2 ->
  P12 srv key iv (d_tag_length d) (length xs) d st -> Forall (fun x : bytes => len x < 65536) xs ->
  send_all _ (fun st x => send12_chacha C key iv version st x) st xs = Ok (stN, rs) ->
  exists dN, dec_all (fun d r => decrypt_tls12_chacha20 C d r srv) d rs = Ok (dN, map (fun x => x) xs) /\ P12 srv key iv (d_tag_length d) 0 dN stN.
Proof. exact tls12_chacha_history. Qed.
Print Assumptions C01_tls12_chacha.

(* RC4: the key-stream position is a function of the whole history of the direction *)
Theorem C01_rc4 : forall C, CryptoLaws C -> forall srv key version mlen xs d st stN rs,
  d_mac_length d = mlen ->
  Prc4 srv key (length xs) d st -> Forall (fun x : bytes * bytes => len (snd x) = mlen) xs ->
  send_all _ (fun st x => send_rc4 C key version st (fst x) (snd x)) st xs = Ok (stN, rs) ->
  exists dN, dec_all (fun d r => decrypt_generic_stream C d r srv) d rs = Ok (dN, map fst xs) /\ Prc4 srv key 0 dN stN /\ d_mac_length dN = mlen.
Proof. exact rc4_history. Qed.
Print Assumptions C01_rc4.

(* CBC with chained IVs (SSL 3.0, TLS 1.0), MAC-then-encrypt or encrypt-then-MAC: residue chaining over the whole history *)
Theorem C01_cbc_chained : forall C, CryptoLaws C -> forall srv a key version etm mlen bl xs d st stN rs,
  Pcbc srv key etm mlen bl (length xs) d st -> Forall (fun x : bytes * bytes * Z => len (snd (fst x)) = mlen /\ 0 <= snd x) xs ->
  send_all _ (fun st x => send_cbc_chained C a key version etm (bl / 8) st (fst (fst x)) (snd (fst x)) (snd x)) st xs = Ok (stN, rs) ->
  exists dN, dec_all (fun d r => decrypt_last_block_iv_cbc C d r srv a) d rs = Ok (dN, map (fun x => fst (fst x)) xs) /\ Pcbc srv key etm mlen bl 0 dN stN.
Proof. exact cbc_chained_history. Qed.
Print Assumptions C01_cbc_chained.

(* CBC with an explicit IV per record (TLS 1.1, 1.2), MAC-then-encrypt or encrypt-then-MAC: every record on its own, state untouched *)
Theorem C01_cbc_explicit : forall C, CryptoLaws C -> forall d srv a key version st iv content mac p st' r,
  cur_key d srv = Some key -> len iv = blk a -> len mac = d_mac_length d -> 0 < d_mac_length d -> 0 <= p -> d_compression d = 0 ->
  send_cbc_explicit C a key version (d_etm d) st iv content mac p = Ok (st', r) ->
  decrypt_tls12_block C d r srv a = Ok (d, content).
Proof. exact cbc_explicit_record. Qed.
Print Assumptions C01_cbc_explicit.

(* Decryptor.decrypt takes the path of the negotiated class *)
Theorem C01_dispatch : forall C d r srv,
  (forall a, d_ctype d = CT_AEAD -> d_version d = TLS13 -> (a = AESGCM \/ a = AESCCM) -> d_bulk d = Some a -> decrypt C d r srv = some_res (decrypt_tls13 C d r srv a)) /\
  (d_ctype d = CT_Stream -> d_version d = TLS13 -> decrypt C d r srv = some_res (decrypt_tls13 C d r srv ChaCha20Poly1305)) /\
  (forall a, d_ctype d = CT_AEAD -> d_version d <> TLS13 -> (a = AESGCM \/ a = AESCCM) -> d_bulk d = Some a -> decrypt C d r srv = some_res (decrypt_tls12_aead C d r srv a)) /\
  (d_ctype d = CT_Stream -> d_version d = TLS12 -> d_bulk d = Some ChaCha20Poly1305 -> decrypt C d r srv = some_res (decrypt_tls12_chacha20 C d r srv)) /\
  (d_ctype d = CT_Stream -> d_version d <> TLS13 -> d_bulk d = Some ARC4 -> decrypt C d r srv = some_res (decrypt_generic_stream C d r srv)) /\
  (forall a, d_ctype d = CT_Block -> (d_version d = TLS12 \/ d_version d = TLS11) -> d_bulk d = Some a -> get_cipher_type (Some a) = CT_Block ->
             decrypt C d r srv = some_res (decrypt_tls12_block C d r srv a)) /\
  (forall a, d_ctype d = CT_Block -> (d_version d = TLS10 \/ d_version d = SSL30) -> d_bulk d = Some a -> get_cipher_type (Some a) = CT_Block ->
             decrypt C d r srv = some_res (decrypt_last_block_iv_cbc C d r srv a)).
Proof. exact dispatch_all. Qed.
Print Assumptions C01_dispatch.

(* the two directions do not share cipher state: what a decrypt path changes for one direction leaves the other's untouched *)
Theorem C01_directions_independent : forall (d : decryptor) (srv : bool) (n : Z) (b : bytes),
  (cur_seq (set_seq d (negb srv) n) srv = cur_seq d srv /\ cur_key (set_seq d (negb srv) n) srv = cur_key d srv /\ cur_iv (set_seq d (negb srv) n) srv = cur_iv d srv) /\
  (if srv then d_rc4_server (add_rc4 d (negb srv) n) else d_rc4_client (add_rc4 d (negb srv) n)) = (if srv then d_rc4_server d else d_rc4_client d) /\
  (if srv then d_last_block_server (set_last_block d (negb srv) b) else d_last_block_client (set_last_block d (negb srv) b)) = (if srv then d_last_block_server d else d_last_block_client d).
Proof. exact directions_independent. Qed.
Print Assumptions C01_directions_independent.

(* ---------------- the session ---------------- *)
(* TLS 1.3, application phase, at the level of Session.handle_tls_record: a session whose decryptor holds the two senders' keys, IVs
   and sequence numbers (Inv13) is handed ANY interleaving of application records produced by the two senders -- evs: who sends, what,
   with how much padding -- and exports exactly the contents, in that order, each with its direction, as application data (not
   metadata), one entry per record; session and senders stay in step.  Composes C01_tls13, C01_dispatch, the inner-plaintext handling
   (type byte, zero padding) and C01_directions_independent. *)
Theorem C01_tls13_session : forall C, CryptoLaws C -> forall tbl parts keylog a key_c iv_c key_s iv_s version tag,
  8 <= len iv_c -> 8 <= len iv_s -> len version = 2 -> 0 <= tag ->
  forall evs s stc sts stc' sts' rs,
  Inv13 a key_c iv_c key_s iv_s tag s stc sts (length evs) -> Forall (ev_ok tag) evs ->
  play C a key_c iv_c key_s iv_s version tag stc sts evs = Ok (stc', sts', rs) ->
  exists s' out, session_run C tbl parts keylog s rs = Ok (s', out) /\
                 map shown out = map (fun e : ev => let '(srv, c, _) := e in (srv, Some c, false)) evs /\
                 map te_record out = map snd rs /\ Inv13 a key_c iv_c key_s iv_s tag s' stc' sts' 0.
Proof. exact tls13_session. Qed.
Print Assumptions C01_tls13_session.

(* TLS 1.3 middlebox compatibility (RFC 8446 D.4): a dummy ChangeCipherSpec record anywhere in the connection only sets a flag the
   TLS 1.3 path never reads: decryptor, handshake buffers and the synchronisation with both senders are untouched; the record is
   exported as metadata only.  (So the session and connection theorems hold with such records interspersed.) *)
Theorem C01_tls13_ccs_inert : forall C tbl parts keylog a key_c iv_c key_s iv_s version tag s stc sts n (srv : bool) body,
  Inv13 a key_c iv_c key_s iv_s tag s stc sts n ->
  exists s', handle_tls_record C tbl parts keylog s (mk_record 20 version body) srv = Ok (s', [meta_entry (mk_record 20 version body) srv]) /\
             Inv13 a key_c iv_c key_s iv_s tag s' stc sts n /\ hs_buf s' true = hs_buf s true /\ hs_buf s' false = hs_buf s false /\ ts_decryptor s' = ts_decryptor s.
Proof. exact tls13_ccs_inert. Qed.
Print Assumptions C01_tls13_ccs_inert.

(* TLS 1.3, the connection behind the ServerHello.  The server's encrypted flight -- any messages that are not a Finished, then the
   Finished -- and then the client's, each CUT INTO RECORDS AT ANY BYTES (RFC 8446 5.1: grouped or fragmented) and padded at will,
   protected under the handshake keys; then any interleaving of application records of both directions under the application keys.
   The session switches each direction to its application keys exactly at that direction's Finished (sequence number 0), exports
   nothing for the handshake records and exactly the application contents, in order, for the rest.
   Premises on the session: what Decryptor.__init__ yields from a complete key set (C01_fresh_decryptor).  Not covered: application
   data of the server before the client's Finished, post-handshake messages. *)
Theorem C01_tls13_connection : forall C, CryptoLaws C -> forall tbl parts keylog a key_c iv_c key_s iv_s version tag,
  8 <= len iv_c -> 8 <= len iv_s -> len version = 2 -> 0 <= tag ->
  forall hk_c hi_c hk_s hi_s pre_s fb_s pre_c fb_c ps_s ps_c evs s d st_c st_s stc0 sts0 stN_s rs_s stN_c rs_c stc' sts' rs,
  8 <= len hi_c -> 8 <= len hi_s ->
  Sess a s d -> hs_buf s true = [] -> hs_buf s false = [] ->
  P13 true hk_s hi_s tag (length ps_s) d st_s -> P13 false hk_c hi_c tag (length ps_c) d st_c ->
  switch_ready d true key_s iv_s -> switch_ready d false key_c iv_c ->
  Forall wfm pre_s -> Forall (fun m => fst m <> 20) pre_s -> wfm (20, fb_s) -> Forall (piece_ok tag) ps_s -> ps_s <> [] ->
  concat (map fst ps_s) = stream (pre_s ++ [(20, fb_s)]) ->
  Forall wfm pre_c -> Forall (fun m => fst m <> 20) pre_c -> wfm (20, fb_c) -> Forall (piece_ok tag) ps_c -> ps_c <> [] ->
  concat (map fst ps_c) = stream (pre_c ++ [(20, fb_c)]) ->
  send_pieces C a version tag hk_s hi_s st_s ps_s = Ok (stN_s, rs_s) -> send_pieces C a version tag hk_c hi_c st_c ps_c = Ok (stN_c, rs_c) ->
  ss_seq stc0 = 0 -> ss_seq sts0 = 0 -> Z.of_nat (length evs) <= 2 ^ 64 -> Forall (ev_ok tag) evs ->
  play C a key_c iv_c key_s iv_s version tag stc0 sts0 evs = Ok (stc', sts', rs) ->
  exists s' out, session_run C tbl parts keylog s (map (pair true) rs_s ++ map (pair false) rs_c ++ rs) = Ok (s', out) /\
                 map shown out = map (fun e : ev => let '(srv, c, _) := e in (srv, Some c, false)) evs /\
                 Inv13 a key_c iv_c key_s iv_s tag s' stc' sts' 0.
Proof. exact tls13_connection. Qed.
Print Assumptions C01_tls13_connection.

(* one direction's flight on its own (any position in the connection): cut anywhere, the key switch happens at the Finished, the
   other direction's cipher state and buffer are untouched *)
Theorem C01_tls13_flight : forall C, CryptoLaws C -> forall tbl parts keylog a version tag, len version = 2 -> 0 <= tag ->
  forall srv hk hi ak ai fb, 8 <= len hi -> wfm (20, fb) ->
  forall ps s d st rem stN rs,
  Sess a s d -> P13 srv hk hi tag (length ps) d st -> switch_ready d srv ak ai ->
  Forall wfm rem -> Forall (fun m => fst m <> 20) rem -> Forall (piece_ok tag) ps -> ps <> [] ->
  hs_buf s srv ++ concat (map fst ps) = stream (rem ++ [(20, fb)]) ->
  send_pieces C a version tag hk hi st ps = Ok (stN, rs) ->
  exists s' d', session_run C tbl parts keylog s (map (pair srv) rs) = Ok (s', []) /\ Sess a s' d' /\ hs_buf s' srv = [] /\ hs_buf s' (negb srv) = hs_buf s (negb srv) /\
                d_tag_length d' = d_tag_length d /\ cur_key d' srv = Some ak /\ cur_iv d' srv = Some ai /\ cur_seq d' srv = 0 /\
                cur_key d' (negb srv) = cur_key d (negb srv) /\ cur_iv d' (negb srv) = cur_iv d (negb srv) /\ cur_seq d' (negb srv) = cur_seq d (negb srv) /\
                (forall ak' ai', switch_ready d (negb srv) ak' ai' -> switch_ready d' (negb srv) ak' ai').
Proof. intros C L tbl parts keylog a version tag Hv Ht. exact (hs_flight C L tbl parts keylog a version tag Hv Ht). Qed.
Print Assumptions C01_tls13_flight.

(* the premises of the two theorems above are met by the decryptor built from a complete TLS 1.3 key set *)
Theorem C01_fresh_decryptor : forall a tag k ml bl exts comp chk chi shk shi cak cai sak sai,
  a = AESGCM \/ a = AESCCM \/ a = ChaCha20Poly1305 ->
  client_hs_key k = Some chk -> client_hs_iv k = Some chi -> server_hs_key k = Some shk -> server_hs_iv k = Some shi ->
  client_app_key k = Some cak -> client_app_iv k = Some cai -> server_app_key k = Some sak -> server_app_iv k = Some sai ->
  exists d, new_decryptor (Some a) (K13 k) TLS13 ml tag bl exts comp = Ok d /\ class13 a d /\ d_tag_length d = tag /\
            cur_key d true = Some shk /\ cur_iv d true = Some shi /\ cur_seq d true = 0 /\
            cur_key d false = Some chk /\ cur_iv d false = Some chi /\ cur_seq d false = 0 /\
            switch_ready d true sak sai /\ switch_ready d false cak cai.
Proof. exact fresh_decryptor. Qed.
Print Assumptions C01_fresh_decryptor.

(* TLS 1.2 with an AEAD suite (AES-GCM, AES-CCM, AES-CCM-8), behind the ServerHello, from the ChangeCipherSpec records on: each
   direction sends its ChangeCipherSpec and then protected records -- Finished (type 22) and application data (type 23) in any mix,
   the two directions interleaved in any way.  The session decrypts every protected record in step with its sender (the Finished
   consumes sequence number 0), exports exactly the application contents as application data, in order and with their direction;
   handshake records and ChangeCipherSpec only as metadata. *)
Theorem C01_tls12_aead_session : forall C, CryptoLaws C -> forall tbl parts keylog a key_c salt_c key_s salt_s version tag,
  len version = 2 -> 0 <= tag ->
  forall evs s stc sts ccc scc stc' sts' rs,
  Inv12 a key_c salt_c key_s salt_s tag s stc sts ccc scc (length evs) -> Forall ev12_ok evs -> ordered ccc scc evs ->
  play12 C a key_c salt_c key_s salt_s version tag stc sts evs = Ok (stc', sts', rs) ->
  exists s' out ccc' scc', session_run C tbl parts keylog s rs = Ok (s', out) /\ data_entries out = flat_map app_of evs /\
                           Inv12 a key_c salt_c key_s salt_s tag s' stc' sts' ccc' scc' 0.
Proof. exact tls12_aead_session. Qed.
Print Assumptions C01_tls12_aead_session.

(* The events also admit plaintext handshake records of a direction that has not yet sent its ChangeCipherSpec while the peer has
   (EPlain; RFC 5077: the server's NewSessionTicket behind the client's Finished): nothing is decrypted, the session is unchanged, the
   record is metadata.  The full handshake with a session ticket is such a history: *)
Example C01_tls12_ticket_shape : forall ex1 ex2 ex3 c1 c2 c3 ticket,
  ordered false false [ECcs false; EEnc false 22 ex1 c1; EPlain true ticket; ECcs true; EEnc true 22 ex2 c2; EEnc false 23 ex3 c3].
Proof. intros. cbn. repeat split. Qed.

(* the same for TLS 1.2 ChaCha20-Poly1305 (RFC 7905) *)
Theorem C01_tls12_chacha_session : forall C, CryptoLaws C -> forall tbl parts keylog key_c iv_c key_s iv_s version tag,
  len version = 2 -> 8 <= len iv_c -> 8 <= len iv_s ->
  forall evs s stc sts ccc scc stc' sts' rs,
  Chacha.Inv12 key_c iv_c key_s iv_s tag s stc sts ccc scc (length evs) -> Forall Chacha.ev12_ok evs -> Chacha.ordered ccc scc evs ->
  Chacha.play12 C key_c iv_c key_s iv_s version stc sts evs = Ok (stc', sts', rs) ->
  exists s' out ccc' scc', session_run C tbl parts keylog s rs = Ok (s', out) /\ Chacha.data_entries out = flat_map Chacha.app_of evs /\
                           Chacha.Inv12 key_c iv_c key_s iv_s tag s' stc' sts' ccc' scc' 0.
Proof. exact Chacha.tls12_chacha_session. Qed.
Print Assumptions C01_tls12_chacha_session.

(* ---------------- the ServerHello ---------------- *)
(* What Session.handle_tls_server_hello reads from a ServerHello encoded per RFC 5246 7.4.1.3 / RFC 8446 4.1.3 -- any session id, with
   or without an extensions field, any extensions, followed by ANYTHING in the same record (further handshake messages) -- is exactly
   what was encoded: server random, cipher suite, compression method, the extension dictionary (a later duplicate replaces an earlier
   entry), and the version selected by record version, handshake version and the supported_versions extension; with these the keys
   are generated (generate_keys; C15). *)
Theorem C01_server_hello_parsed : forall C tbl parts keylog s r hv random sid suite comp es more,
  ts_client_hello_seen s = true ->
  r_body r = sh_message hv random sid suite comp es ++ more ->
  len hv = 2 -> len random = 32 -> len sid < 256 -> len suite = 2 -> 0 <= comp < 256 ->
  match es with None => True | Some l => Forall ext_ok l /\ len (enc_exts l) < 65536 end ->
  handle_tls_server_hello C tbl parts keylog s r =
    let exts := exts_dict es in
    let is13 := match ext_get [0; 43] exts with Some v => bytes_eqb v [3; 4] | None => false end in
    let s1 := upd s true true (ts_server_cc s) (ts_client_cc s) (ts_client_random s) (ts_version s) exts comp (ts_decryptor s) in
    let rv := from_be (r_version r) in
    let hvn := from_be hv in
    match (if rv =? 0x0300 then Some SSL30 else if rv =? 0x0302 then Some TLS11
           else if hvn =? 0x0301 then Some TLS10 else if hvn =? 0x0303 then Some (if is13 then TLS13 else TLS12) else None) with
    | None => Ok (set_can s1 false)
    | Some v => generate_keys C tbl parts keylog (upd s1 (ts_can_decrypt s1) true (ts_server_cc s1) (ts_client_cc s1) (ts_client_random s1) (VSet v) exts comp (ts_decryptor s1)) v suite random
    end.
Proof. exact server_hello_parsed. Qed.
Print Assumptions C01_server_hello_parsed.

(* the extension walk on its own: any encoded extension list, anywhere in a buffer *)
Theorem C01_extension_walk : forall es, Forall ext_ok es -> forall fuel pre post acc, (length es <= fuel)%nat ->
  ext_walk fuel (pre ++ enc_exts es ++ post) (len pre) (len pre + len (enc_exts es)) acc = fold_left dict_add es acc.
Proof. exact ext_walk_spec. Qed.
Print Assumptions C01_extension_walk.

(* from the ServerHello to the decryptor, TLS 1.3: the suite resolves to an AEAD algorithm, the key log has lines for this client
   random and the derivation yields all eight values (C15_tls13: each is HKDF-Expand-Label of the last line with its label): the
   session gets the decryptor that C01_tls13_connection starts from *)
Theorem C01_tls13_keys_installed : forall C tbl parts keylog s suite sr cs a kl k x xs chk chi shk shi cak cai sak sai,
  SuiteParser.split_cipher_suite tbl parts (from_be suite) = Some cs -> algo_of cs = Some a -> (a = AESGCM \/ a = AESCCM \/ a = ChaCha20Poly1305) ->
  s_keylen cs = Some kl -> find_session_secrets keylog s = x :: xs -> dev_tls_13_keys C (x :: xs) kl (s_mac cs) = Ok k ->
  client_hs_key k = Some chk -> client_hs_iv k = Some chi -> server_hs_key k = Some shk -> server_hs_iv k = Some shi ->
  client_app_key k = Some cak -> client_app_iv k = Some cai -> server_app_key k = Some sak -> server_app_iv k = Some sai ->
  exists d, generate_keys C tbl parts keylog s TLS13 suite sr = Ok (set_dec s (Some d)) /\ class13 a d /\ d_tag_length d = s_tag cs /\
            cur_key d true = Some shk /\ cur_iv d true = Some shi /\ cur_seq d true = 0 /\
            cur_key d false = Some chk /\ cur_iv d false = Some chi /\ cur_seq d false = 0 /\
            switch_ready d true sak sai /\ switch_ready d false cak cai.
Proof. exact tls13_keys_installed. Qed.
Print Assumptions C01_tls13_keys_installed.

(* ---------------- the remaining classes of TLS <= 1.2 at the level of the session ---------------- *)
(* The bookkeeping (ChangeCipherSpec flags, Finished as a protected handshake record, application records, metadata entries) is proved
   once for any class given by a sender, a joint invariant Q of the decryptor and the two senders, and a one-record lemma `step`
   (C01_session_generic); RC4, CBC with explicit IVs (TLS 1.1, 1.2) and CBC with chained IVs (SSL 3.0, TLS 1.0) instantiate it.
   In each: behind the ServerHello, from the ChangeCipherSpec records on, any interleaving of the two directions' ChangeCipherSpec,
   Finished and application records is handled in step with the senders, and exactly the application contents are exported as
   application data, in order. *)
Theorem C01_rc4_session : forall C, CryptoLaws C -> forall tbl parts keylog version key_c key_s mlen evs s stc sts ccc scc stc' sts' rs,
  InvG (Qrc4 key_c key_s mlen) s stc sts ccc scc (length evs) -> Forall (evG_ok (bytes * bytes) (fun x => len (snd x) = mlen)) evs -> orderedG (bytes * bytes) ccc scc evs ->
  playG version (bytes * bytes) (send_rc4_dir C version key_c key_s) stc sts evs = Ok (stc', sts', rs) ->
  exists s' out ccc' scc', session_run C tbl parts keylog s rs = Ok (s', out) /\ dataG out = flat_map (appG (bytes * bytes) fst) evs /\
                           InvG (Qrc4 key_c key_s mlen) s' stc' sts' ccc' scc' 0.
Proof. exact rc4_session. Qed.
Print Assumptions C01_rc4_session.

Theorem C01_cbc_explicit_session : forall C, CryptoLaws C -> forall tbl parts keylog version key_c key_s a etm mlen evs s stc sts ccc scc stc' sts' rs,
  InvG (Qcbce key_c key_s a etm mlen) s stc sts ccc scc (length evs) -> Forall (evG_ok xe (xe_ok a mlen)) evs -> orderedG xe ccc scc evs ->
  playG version xe (send_cbce_dir C version key_c key_s a etm) stc sts evs = Ok (stc', sts', rs) ->
  exists s' out ccc' scc', session_run C tbl parts keylog s rs = Ok (s', out) /\ dataG out = flat_map (appG xe xe_content) evs /\
                           InvG (Qcbce key_c key_s a etm mlen) s' stc' sts' ccc' scc' 0.
Proof. exact cbc_explicit_session. Qed.
Print Assumptions C01_cbc_explicit_session.

Theorem C01_cbc_chained_session : forall C, CryptoLaws C -> forall tbl parts keylog version key_c key_s a etm mlen bl evs s stc sts ccc scc stc' sts' rs,
  InvG (Qcbcc key_c key_s a etm mlen bl) s stc sts ccc scc (length evs) -> Forall (evG_ok xc (xc_ok mlen)) evs -> orderedG xc ccc scc evs ->
  playG version xc (send_cbcc_dir C version key_c key_s a etm bl) stc sts evs = Ok (stc', sts', rs) ->
  exists s' out ccc' scc', session_run C tbl parts keylog s rs = Ok (s', out) /\ dataG out = flat_map (appG xc xc_content) evs /\
                           InvG (Qcbcc key_c key_s a etm mlen bl) s' stc' sts' ccc' scc' 0.
Proof. exact cbc_chained_session. Qed.
Print Assumptions C01_cbc_chained_session.

(* the premises of the five TLS <= 1.2 session theorems are what Decryptor.__init__ yields from a TLS <= 1.2 key set (the RFC 5246 6.3
   partition of the key block: C15): keys and IVs in place, sequence numbers and RC4 offsets 0, first CBC residues = the key block's IVs *)
Theorem C01_fresh12_aead : forall k ml tl bl comp exts a v stc sts n,
  a = AESGCM \/ a = AESCCM -> v <> TLS13 -> comp = 0 -> ss_seq stc = 0 -> ss_seq sts = 0 -> Z.of_nat n <= 2 ^ 64 ->
  exists d, new_decryptor (Some a) (K12 k) v ml tl bl exts comp = Ok d /\ class12 a d /\
            P12 false (client_key k) (client_iv k) tl n d stc /\ P12 true (server_key k) (server_iv k) tl n d sts.
Proof. exact fresh12_aead. Qed.
Theorem C01_fresh12_chacha : forall k ml tl bl comp exts stc sts n, comp = 0 -> ss_seq stc = 0 -> ss_seq sts = 0 -> Z.of_nat n <= 2 ^ 64 ->
  exists d, new_decryptor (Some ChaCha20Poly1305) (K12 k) TLS12 ml tl bl exts comp = Ok d /\ Chacha.class12 d /\
            P12 false (client_key k) (client_iv k) tl n d stc /\ P12 true (server_key k) (server_iv k) tl n d sts.
Proof. exact fresh12_chacha. Qed.
Theorem C01_fresh12_rc4 : forall k ml tl bl comp exts v stc sts n,
  v <> TLS13 -> 5 <= len (client_key k) <= 32 -> 5 <= len (server_key k) <= 32 -> 0 < ml -> ss_off stc = 0 -> ss_off sts = 0 ->
  exists d, new_decryptor (Some ARC4) (K12 k) v ml tl bl exts comp = Ok d /\ Qrc4 (client_key k) (server_key k) ml n d stc sts.
Proof. exact fresh12_rc4. Qed.
Theorem C01_fresh12_cbc_explicit : forall k ml tl bl comp exts a v stc sts n, get_cipher_type (Some a) = CT_Block -> v = TLS12 \/ v = TLS11 -> comp = 0 -> 0 < ml ->
  exists d, new_decryptor (Some a) (K12 k) v ml tl bl exts comp = Ok d /\
            Qcbce (client_key k) (server_key k) a (existsb (fun e => bytes_eqb (fst e) [0; 22]) exts) ml n d stc sts.
Proof. exact fresh12_cbc_explicit. Qed.
Theorem C01_fresh12_cbc_chained : forall k ml tl bl comp exts a v stc sts n, get_cipher_type (Some a) = CT_Block -> v = TLS10 \/ v = SSL30 -> comp = 0 -> 0 < ml ->
  ss_last stc = client_iv k -> ss_last sts = server_iv k ->
  exists d, new_decryptor (Some a) (K12 k) v ml tl bl exts comp = Ok d /\
            Qcbcc (client_key k) (server_key k) a (existsb (fun e => bytes_eqb (fst e) [0; 22]) exts) ml bl n d stc sts.
Proof. exact fresh12_cbc_chained. Qed.
Print Assumptions C01_fresh12_aead.
Print Assumptions C01_fresh12_chacha.
Print Assumptions C01_fresh12_rc4.
Print Assumptions C01_fresh12_cbc_explicit.
Print Assumptions C01_fresh12_cbc_chained.

(* ---------------- the plaintext handshake, grouped or fragmented into records in any way ---------------- *)
(* One plaintext handshake record before any ChangeCipherSpec: the session's bookkeeping for the record's direction -- bytes of a
   fragmented message still to come, or the bytes of a cut message header -- moves by hs_step; the other direction's stays; and the
   record is taken for a message (ClientHello for a first byte 1, ServerHello for 2) exactly when that state was (0, []). *)
Theorem C01_plain_handshake_record : forall C tbl parts keylog s r srv t x' s' out, ts_server_cc s || ts_client_cc s = false -> r_body r = t :: x' ->
  handle_tls_handshake_record C tbl parts keylog s r srv = Ok (s', out) ->
  hsst srv s' = hs_step (hsst srv s) (r_body r) /\ hsst (negb srv) s' = hsst (negb srv) s /\
  let s1 := set_pending s srv (fst (hs_step (hsst srv s) (r_body r))) (snd (hs_step (hsst srv s) (r_body r))) in
  ((0 <? fst (hsst srv s)) || (0 <? len (snd (hsst srv s))) = true -> s' = s1 /\ out = []) /\
  ((0 <? fst (hsst srv s)) || (0 <? len (snd (hsst srv s))) = false ->
     (t = 1 -> s' = handle_tls_client_hello s1 r) /\ (t = 2 -> handle_tls_server_hello C tbl parts keylog s1 r = Ok s') /\
     (t <> 1 -> t <> 2 -> (s', out) = handle_handshake_finished C s1 r srv)).
Proof. exact plain_record. Qed.
Print Assumptions C01_plain_handshake_record.

(* A flight of well-formed handshake messages cut into records AT ANY BYTES (RFC 5246 6.2.1: grouped or fragmented, a message header
   itself may be cut): the state before each record is stf ms (its offset in the flight) -- a function of the offset alone, whatever the
   earlier cuts were -- and after the flight it is (0, []) again. *)
Theorem C01_plain_handshake_flight : forall ms ps, Forall wfm ms -> concat ps = stream ms ->
  run_flight (0, []) ps = map (stf ms) (offsets 0 ps) /\ fold_left hs_step ps (0, []) = (0, []).
Proof. exact whole_flight. Qed.
Print Assumptions C01_plain_handshake_flight.

(* ... and that state is (0, []) exactly at the message boundaries; the first byte of a record that begins there is the type of the
   message that begins there.  Hence: a record is read as a ClientHello / ServerHello iff it begins with one; no record that continues
   a fragmented message is (defects 101e670, d053156). *)
Theorem C01_plain_handshake_dispatch : forall ms E, (E <= length (stream ms))%nat ->
  (stf ms E = (0, []) <-> boundary ms E = true) /\
  (forall t x R', boundary ms E = true -> skipn E (stream ms) = (t :: x) ++ R' -> type_at ms E = Some t).
Proof. intros ms E HE. exact (conj (stf_boundary ms E HE) (fun t x R' => first_byte_at ms E t x R')). Qed.
Print Assumptions C01_plain_handshake_dispatch.

(* non-vacuity: ServerHello (3 bytes of body here), a Certificate whose body starts with the bytes 2 and 1, ServerHelloDone -- cut inside
   the Certificate's header, inside its body right before the 2, and at a message boundary *)
Example C01_plain_handshake_example :
  let ms := [(2, [7; 7; 7]); (11, [9; 2; 1; 5; 5]); (14, [])] in
  let ps := [[2; 0; 0; 3; 7; 7; 7; 11; 0]; [0; 5; 9]; [2; 1; 5; 5]; [14; 0; 0; 0]] in
  concat ps = stream ms /\ run_flight (0, []) ps = [(0, []); (0, [11; 0]); (4, []); (0, [])] /\
  map (boundary ms) (offsets 0 ps) = [true; false; false; true] /\ map (type_at ms) (offsets 0 ps) = [Some 2; None; None; Some 14].
Proof. vm_compute. repeat split; reflexivity. Qed.

(* ---------------- from the ServerHello to the decryptor, SSL 3.0 - TLS 1.2 ---------------- *)
(* The suite is in the table, the key log has a line for this client random and the derivation (C15: master secret, key block) yields a
   key set: generate_keys installs the decryptor built from it, which is in step with fresh senders holding the same keys -- the
   premise (Inv12 / Qrc4 / Qcbce / Qcbcc) of the session theorem of the suite's protection class.  Together with
   C01_server_hello_parsed (what is read from the ServerHello), C01_plain_handshake_* (which record is read as the ServerHello) and the
   *_session theorems this is the chain  hellos -> keys -> ChangeCipherSpec -> Finished -> application data. *)
Theorem C01_tls12_keys_installed_aead : forall C tbl parts keylog s v suite sr cs a x xs k stc sts n,
  SuiteParser.split_cipher_suite tbl parts (from_be suite) = Some cs -> find_session_secrets keylog s = x :: xs ->
  derive_session_keys C v cs (x :: xs) (ts_client_random s) sr = Ok (K12 k) ->
  algo_of cs = Some a -> a = AESGCM \/ a = AESCCM -> v <> TLS13 -> ts_compression s = 0 -> ss_seq stc = 0 -> ss_seq sts = 0 -> Z.of_nat n <= 2 ^ 64 ->
  exists d, generate_keys C tbl parts keylog s v suite sr = Ok (set_dec s (Some d)) /\ C01Session12P.class12 a d /\
            P12 false (client_key k) (client_iv k) (s_tag cs) n d stc /\ P12 true (server_key k) (server_iv k) (s_tag cs) n d sts.
Proof. exact keys_installed_aead. Qed.
Theorem C01_tls12_keys_installed_chacha : forall C tbl parts keylog s suite sr cs x xs k stc sts n,
  SuiteParser.split_cipher_suite tbl parts (from_be suite) = Some cs -> find_session_secrets keylog s = x :: xs ->
  derive_session_keys C TLS12 cs (x :: xs) (ts_client_random s) sr = Ok (K12 k) ->
  algo_of cs = Some ChaCha20Poly1305 -> ts_compression s = 0 -> ss_seq stc = 0 -> ss_seq sts = 0 -> Z.of_nat n <= 2 ^ 64 ->
  exists d, generate_keys C tbl parts keylog s TLS12 suite sr = Ok (set_dec s (Some d)) /\ Chacha.class12 d /\
            P12 false (client_key k) (client_iv k) (s_tag cs) n d stc /\ P12 true (server_key k) (server_iv k) (s_tag cs) n d sts.
Proof. exact keys_installed_chacha. Qed.
Theorem C01_tls12_keys_installed_rc4 : forall C tbl parts keylog s v suite sr cs x xs k stc sts n,
  SuiteParser.split_cipher_suite tbl parts (from_be suite) = Some cs -> find_session_secrets keylog s = x :: xs ->
  derive_session_keys C v cs (x :: xs) (ts_client_random s) sr = Ok (K12 k) ->
  algo_of cs = Some ARC4 -> v <> TLS13 -> 5 <= len (client_key k) <= 32 -> 5 <= len (server_key k) <= 32 -> 0 < digest_size (s_mac cs) -> ss_off stc = 0 -> ss_off sts = 0 ->
  exists d, generate_keys C tbl parts keylog s v suite sr = Ok (set_dec s (Some d)) /\ Qrc4 (client_key k) (server_key k) (digest_size (s_mac cs)) n d stc sts.
Proof. exact keys_installed_rc4. Qed.
Theorem C01_tls12_keys_installed_cbc_explicit : forall C tbl parts keylog s v suite sr cs a x xs k stc sts n,
  SuiteParser.split_cipher_suite tbl parts (from_be suite) = Some cs -> find_session_secrets keylog s = x :: xs ->
  derive_session_keys C v cs (x :: xs) (ts_client_random s) sr = Ok (K12 k) ->
  algo_of cs = Some a -> get_cipher_type (Some a) = CT_Block -> v = TLS12 \/ v = TLS11 -> ts_compression s = 0 -> 0 < digest_size (s_mac cs) ->
  exists d, generate_keys C tbl parts keylog s v suite sr = Ok (set_dec s (Some d)) /\
            Qcbce (client_key k) (server_key k) a (existsb (fun e => bytes_eqb (fst e) [0; 22]) (ts_extensions s)) (digest_size (s_mac cs)) n d stc sts.
Proof. exact keys_installed_cbc_explicit. Qed.
Theorem C01_tls12_keys_installed_cbc_chained : forall C tbl parts keylog s v suite sr cs a x xs k stc sts n,
  SuiteParser.split_cipher_suite tbl parts (from_be suite) = Some cs -> find_session_secrets keylog s = x :: xs ->
  derive_session_keys C v cs (x :: xs) (ts_client_random s) sr = Ok (K12 k) ->
  algo_of cs = Some a -> get_cipher_type (Some a) = CT_Block -> v = TLS10 \/ v = SSL30 -> ts_compression s = 0 -> 0 < digest_size (s_mac cs) ->
  ss_last stc = client_iv k -> ss_last sts = server_iv k ->
  exists d, generate_keys C tbl parts keylog s v suite sr = Ok (set_dec s (Some d)) /\
            Qcbcc (client_key k) (server_key k) a (existsb (fun e => bytes_eqb (fst e) [0; 22]) (ts_extensions s)) (digest_size (s_mac cs)) (block_size_of cs) n d stc sts.
Proof. exact keys_installed_cbc_chained. Qed.
Print Assumptions C01_tls12_keys_installed_aead.
Print Assumptions C01_tls12_keys_installed_chacha.
Print Assumptions C01_tls12_keys_installed_rc4.
Print Assumptions C01_tls12_keys_installed_cbc_explicit.
Print Assumptions C01_tls12_keys_installed_cbc_chained.

(* ---------------- a whole TLS 1.2 connection with an AEAD suite, behind the ClientHello ---------------- *)
(* The record with the ServerHello (followed by the beginning of the rest of the server's flight), then the rest of the plaintext
   handshake -- the server's flight and the client's, each cut into records at ANY bytes, the two directions interleaved in ANY way,
   no further hello among the messages --, then each direction's ChangeCipherSpec, its Finished and application records, in any
   interleaving: the session exports exactly the application contents as application data, in order and with their direction.
   The theorem composes C01_server_hello_parsed, C01_tls12_keys_installed_aead, C01_plain_handshake_* and C01_tls12_aead_session:
   the conclusion of each is the premise of the next.  (The premises on the suite, the key log and the derivation are those of
   C01_tls12_keys_installed_aead; C15 says what the derived keys are.) *)
Theorem C01_tls12_aead_connection : forall C, CryptoLaws C -> forall tbl parts keylog
  s r hv random sid suite es more cs a x xs k v ms_s Fc mid version evs stc sts stc' sts' rs,
  ts_client_hello_seen s = true -> ts_server_cc s = false -> ts_client_cc s = false -> hsst true s = (0, []) -> hsst false s = (0, []) ->
  r_type r = 22 -> r_body r = sh_message hv random sid suite 0 es ++ more ->
  len hv = 2 -> len random = 32 -> len sid < 256 -> len suite = 2 ->
  match es with None => True | Some l => Forall ext_ok l /\ len (enc_exts l) < 65536 end -> wfm (2, sh_body hv random sid suite es) ->
  version_choice (from_be (r_version r)) (from_be hv) es = Some v -> v <> TLS13 ->
  SuiteParser.split_cipher_suite tbl parts (from_be suite) = Some cs -> algo_of cs = Some a -> a = AESGCM \/ a = AESCCM -> 0 <= s_tag cs ->
  find_session_secrets keylog s = x :: xs -> derive_session_keys C v cs (x :: xs) (ts_client_random s) random = Ok (K12 k) ->
  Forall wfm ms_s -> Forall wfm Fc -> Forall (fun m => fst m <> 1 /\ fst m <> 2) ms_s -> Forall (fun m => fst m <> 1 /\ fst m <> 2) Fc ->
  Forall (fun y => r_type (snd y) = 22 /\ r_body (snd y) <> []) mid -> more ++ bodies true mid = stream ms_s -> bodies false mid = stream Fc ->
  len version = 2 -> ss_seq stc = 0 -> ss_seq sts = 0 -> Z.of_nat (length evs) <= 2 ^ 64 -> Forall ev12_ok evs -> ordered false false evs ->
  play12 C a (client_key k) (client_iv k) (server_key k) (server_iv k) version (s_tag cs) stc sts evs = Ok (stc', sts', rs) ->
  exists s' out, session_run C tbl parts keylog s ((true, r) :: mid ++ rs) = Ok (s', out) /\ data_entries out = flat_map app_of evs.
Proof. exact tls12_aead_connection. Qed.
Print Assumptions C01_tls12_aead_connection.

(* ... and from the ClientHello record on (a whole ClientHello as the body of one record; the key log is searched with its random).
   The premises on the session hold for a fresh one (core0). *)
Theorem C01_tls12_aead_connection_from_client_hello : forall C, CryptoLaws C -> forall tbl parts keylog
  s0 rc hvc randomc restc r hv random sid suite es more cs a x xs k v ms_s Fc mid version evs stc sts stc' sts' rs,
  ts_server_cc s0 = false -> ts_client_cc s0 = false -> hsst true s0 = (0, []) -> hsst false s0 = (0, []) ->
  r_type rc = 22 -> r_body rc = hm (1, hvc ++ randomc ++ restc) -> wfm (1, hvc ++ randomc ++ restc) -> len hvc = 2 -> len randomc = 32 ->
  r_type r = 22 -> r_body r = sh_message hv random sid suite 0 es ++ more ->
  len hv = 2 -> len random = 32 -> len sid < 256 -> len suite = 2 ->
  match es with None => True | Some l => Forall ext_ok l /\ len (enc_exts l) < 65536 end -> wfm (2, sh_body hv random sid suite es) ->
  version_choice (from_be (r_version r)) (from_be hv) es = Some v -> v <> TLS13 ->
  SuiteParser.split_cipher_suite tbl parts (from_be suite) = Some cs -> algo_of cs = Some a -> a = AESGCM \/ a = AESCCM -> 0 <= s_tag cs ->
  filter (fun q => bytes_eqb (s_random q) randomc) keylog = x :: xs -> derive_session_keys C v cs (x :: xs) randomc random = Ok (K12 k) ->
  Forall wfm ms_s -> Forall wfm Fc -> Forall (fun m => fst m <> 1 /\ fst m <> 2) ms_s -> Forall (fun m => fst m <> 1 /\ fst m <> 2) Fc ->
  Forall (fun y => r_type (snd y) = 22 /\ r_body (snd y) <> []) mid -> more ++ bodies true mid = stream ms_s -> bodies false mid = stream Fc ->
  len version = 2 -> ss_seq stc = 0 -> ss_seq sts = 0 -> Z.of_nat (length evs) <= 2 ^ 64 -> Forall ev12_ok evs -> ordered false false evs ->
  play12 C a (client_key k) (client_iv k) (server_key k) (server_iv k) version (s_tag cs) stc sts evs = Ok (stc', sts', rs) ->
  exists s' out, session_run C tbl parts keylog s0 ((false, rc) :: (true, r) :: mid ++ rs) = Ok (s', out) /\ data_entries out = flat_map app_of evs.
Proof. exact tls12_aead_connection_ch. Qed.
Print Assumptions C01_tls12_aead_connection_from_client_hello.

Example C01_fresh_session_premises : ts_server_cc core0 = false /\ ts_client_cc core0 = false /\ hsst true core0 = (0, []) /\ hsst false core0 = (0, []).
Proof. repeat split. Qed.

(* ---------------- the same whole connection for the other protection classes of SSL 3.0 - TLS 1.2 ---------------- *)
(* hello_premises s r hv random sid suite es more v ms_s Fc mid  (Proofs/Conn12P.v) collects the premises of
   C01_tls12_aead_connection that do not depend on the class: the session behind the ClientHello; the record r with the ServerHello
   (hv, random, sid, suite, compression 0, extensions es) followed by `more`; the version v the session selects; the rest of the
   server's plaintext flight ms_s and the client's Fc, without further hellos, cut into the records `mid` at any bytes and interleaved
   in any way.  Each theorem composes, through the class-independent Conn12P.connection_gen, C01_server_hello_parsed,
   C01_tls12_keys_installed_<class>, C01_plain_handshake_* and the class's session theorem. *)
Theorem C01_tls12_chacha_connection : forall C, CryptoLaws C -> forall tbl parts keylog
  s r hv random sid suite es more cs x xs k ms_s Fc mid version evs stc sts stc' sts' rs,
  hello_premises s r hv random sid suite es more TLS12 ms_s Fc mid ->
  SuiteParser.split_cipher_suite tbl parts (from_be suite) = Some cs -> algo_of cs = Some ChaCha20Poly1305 ->
  find_session_secrets keylog s = x :: xs -> derive_session_keys C TLS12 cs (x :: xs) (ts_client_random s) random = Ok (K12 k) ->
  len version = 2 -> 8 <= len (client_iv k) -> 8 <= len (server_iv k) -> ss_seq stc = 0 -> ss_seq sts = 0 -> Z.of_nat (length evs) <= 2 ^ 64 ->
  Forall Chacha.ev12_ok evs -> Chacha.ordered false false evs ->
  Chacha.play12 C (client_key k) (client_iv k) (server_key k) (server_iv k) version stc sts evs = Ok (stc', sts', rs) ->
  exists s' out, session_run C tbl parts keylog s ((true, r) :: mid ++ rs) = Ok (s', out) /\ data_entries out = flat_map Chacha.app_of evs.
Proof. exact tls12_chacha_connection. Qed.

Theorem C01_rc4_connection : forall C, CryptoLaws C -> forall tbl parts keylog
  s r hv random sid suite es more cs x xs k v ms_s Fc mid version evs stc sts stc' sts' rs,
  hello_premises s r hv random sid suite es more v ms_s Fc mid -> v <> TLS13 ->
  SuiteParser.split_cipher_suite tbl parts (from_be suite) = Some cs -> algo_of cs = Some ARC4 ->
  find_session_secrets keylog s = x :: xs -> derive_session_keys C v cs (x :: xs) (ts_client_random s) random = Ok (K12 k) ->
  5 <= len (client_key k) <= 32 -> 5 <= len (server_key k) <= 32 -> 0 < digest_size (s_mac cs) -> ss_off stc = 0 -> ss_off sts = 0 ->
  Forall (evG_ok (bytes * bytes) (fun y => len (snd y) = digest_size (s_mac cs))) evs -> orderedG (bytes * bytes) false false evs ->
  playG version (bytes * bytes) (send_rc4_dir C version (client_key k) (server_key k)) stc sts evs = Ok (stc', sts', rs) ->
  exists s' out, session_run C tbl parts keylog s ((true, r) :: mid ++ rs) = Ok (s', out) /\ data_entries out = flat_map (appG (bytes * bytes) fst) evs.
Proof. exact rc4_connection. Qed.

Theorem C01_cbc_explicit_connection : forall C, CryptoLaws C -> forall tbl parts keylog
  s r hv random sid suite es more cs a x xs k v ms_s Fc mid version evs stc sts stc' sts' rs,
  hello_premises s r hv random sid suite es more v ms_s Fc mid -> v = TLS12 \/ v = TLS11 ->
  SuiteParser.split_cipher_suite tbl parts (from_be suite) = Some cs -> algo_of cs = Some a -> get_cipher_type (Some a) = CT_Block ->
  find_session_secrets keylog s = x :: xs -> derive_session_keys C v cs (x :: xs) (ts_client_random s) random = Ok (K12 k) -> 0 < digest_size (s_mac cs) ->
  let etm := existsb (fun e => bytes_eqb (fst e) [0; 22]) (exts_dict es) in
  Forall (evG_ok xe (xe_ok a (digest_size (s_mac cs)))) evs -> orderedG xe false false evs ->
  playG version xe (send_cbce_dir C version (client_key k) (server_key k) a etm) stc sts evs = Ok (stc', sts', rs) ->
  exists s' out, session_run C tbl parts keylog s ((true, r) :: mid ++ rs) = Ok (s', out) /\ data_entries out = flat_map (appG xe xe_content) evs.
Proof. exact cbc_explicit_connection. Qed.

Theorem C01_cbc_chained_connection : forall C, CryptoLaws C -> forall tbl parts keylog
  s r hv random sid suite es more cs a x xs k v ms_s Fc mid version evs stc sts stc' sts' rs,
  hello_premises s r hv random sid suite es more v ms_s Fc mid -> v = TLS10 \/ v = SSL30 ->
  SuiteParser.split_cipher_suite tbl parts (from_be suite) = Some cs -> algo_of cs = Some a -> get_cipher_type (Some a) = CT_Block ->
  find_session_secrets keylog s = x :: xs -> derive_session_keys C v cs (x :: xs) (ts_client_random s) random = Ok (K12 k) -> 0 < digest_size (s_mac cs) ->
  ss_last stc = client_iv k -> ss_last sts = server_iv k ->
  let etm := existsb (fun e => bytes_eqb (fst e) [0; 22]) (exts_dict es) in
  Forall (evG_ok xc (xc_ok (digest_size (s_mac cs)))) evs -> orderedG xc false false evs ->
  playG version xc (send_cbcc_dir C version (client_key k) (server_key k) a etm (block_size_of cs)) stc sts evs = Ok (stc', sts', rs) ->
  exists s' out, session_run C tbl parts keylog s ((true, r) :: mid ++ rs) = Ok (s', out) /\ data_entries out = flat_map (appG xc xc_content) evs.
Proof. exact cbc_chained_connection. Qed.
Print Assumptions C01_tls12_chacha_connection.
Print Assumptions C01_rc4_connection.
Print Assumptions C01_cbc_explicit_connection.
Print Assumptions C01_cbc_chained_connection.

(* TLS 1.3 from the ServerHello record: the session reads the ServerHello (supported_versions selects TLS 1.3), derives the keys and
   then -- C01_tls13_connection -- the server's and the client's encrypted flights cut into records at any bytes and any application
   history are exported exactly.  Not covered: the optional dummy ChangeCipherSpec records of middlebox compatibility (they only set
   flags that the TLS 1.3 path never reads; the check's reference sender sends them). *)
Theorem C01_tls13_connection_from_server_hello : forall C, CryptoLaws C -> forall tbl parts keylog
  s r hv random sid suite es cs a kl k x xs chk chi shk shi cak cai sak sai version
  pre_s fb_s pre_c fb_c ps_s ps_c evs st_c st_s stc0 sts0 stN_s rs_s stN_c rs_c stc' sts' rs,
  hello_premises s r hv random sid suite es [] TLS13 [] [] [] -> ts_hs_client s = [] -> ts_hs_server s = [] ->
  SuiteParser.split_cipher_suite tbl parts (from_be suite) = Some cs -> algo_of cs = Some a -> (a = AESGCM \/ a = AESCCM \/ a = ChaCha20Poly1305) ->
  s_keylen cs = Some kl -> find_session_secrets keylog s = x :: xs -> dev_tls_13_keys C (x :: xs) kl (s_mac cs) = Ok k ->
  client_hs_key k = Some chk -> client_hs_iv k = Some chi -> server_hs_key k = Some shk -> server_hs_iv k = Some shi ->
  client_app_key k = Some cak -> client_app_iv k = Some cai -> server_app_key k = Some sak -> server_app_iv k = Some sai ->
  8 <= len cai -> 8 <= len sai -> 8 <= len chi -> 8 <= len shi -> len version = 2 -> 0 <= s_tag cs ->
  ss_seq st_s = 0 -> ss_seq st_c = 0 -> Z.of_nat (length ps_s) <= 2 ^ 64 -> Z.of_nat (length ps_c) <= 2 ^ 64 ->
  Forall wfm pre_s -> Forall (fun m => fst m <> 20) pre_s -> wfm (20, fb_s) -> Forall (piece_ok (s_tag cs)) ps_s -> ps_s <> [] -> concat (map fst ps_s) = stream (pre_s ++ [(20, fb_s)]) ->
  Forall wfm pre_c -> Forall (fun m => fst m <> 20) pre_c -> wfm (20, fb_c) -> Forall (piece_ok (s_tag cs)) ps_c -> ps_c <> [] -> concat (map fst ps_c) = stream (pre_c ++ [(20, fb_c)]) ->
  send_pieces C a version (s_tag cs) shk shi st_s ps_s = Ok (stN_s, rs_s) -> send_pieces C a version (s_tag cs) chk chi st_c ps_c = Ok (stN_c, rs_c) ->
  ss_seq stc0 = 0 -> ss_seq sts0 = 0 -> Z.of_nat (length evs) <= 2 ^ 64 -> Forall (ev_ok (s_tag cs)) evs ->
  play C a cak cai sak sai version (s_tag cs) stc0 sts0 evs = Ok (stc', sts', rs) ->
  exists s' out, session_run C tbl parts keylog s ((true, r) :: [] ++ (map (pair true) rs_s ++ map (pair false) rs_c ++ rs)) = Ok (s', out) /\
                 data_entries out = map (fun e : ev => let '(srv, c, _) := e in (srv, Some c, false)) evs.
Proof. exact tls13_connection_sh. Qed.
Print Assumptions C01_tls13_connection_from_server_hello.
