(* Property C01 (TLS-over-TCP application data is exported exactly) -- statements only: the cipher-state half.
   For EVERY instance C of the primitives that satisfies CryptoLaws (decryption inverts encryption; sizes) and for each of the six
   protection classes: ANY history of application records protected by the sender of Spec/TlsRecords.v, starting from a state
   synchronised with the decryptor's (same key and IV; sequence number / CBC residue / RC4 key-stream position), is decrypted to
   exactly the contents, in order, and the states stay synchronised -- whatever the lengths (0..65535), the explicit nonces and IVs,
   the MAC values and the padding lengths.  That the handshake leaves session and sender synchronised (keys = C15's theorems;
   positions after the Finished records), that reassembly hands the records over in order (C05) and that the builder's segments
   concatenate to the records (C06) are the other parts; the handshake part is decided by the reference sender on the
   implementation and by byte-exact correspondence of the session model, not by a theorem (DESIGN.md, C01). *)
From Coq Require Import ZArith List Bool.
Require Import PyLib SuiteTypes Crypto KeySchedule Packet Reassembly Decryptor TlsRecords C01P.
Import ListNotations.
Open Scope Z_scope.

(* TLS 1.3 (AES-GCM, AES-CCM, ChaCha20-Poly1305): content || type || zero padding comes back for every record; the sequence number
   advances by one per record, up to 2^64 records *)
Theorem C01_tls13 : forall C, CryptoLaws C -> forall srv a key iv version tag xs d st stN rs,
  8 <= len iv -> len version = 2 -> 0 <= tag ->
  P13 srv key iv tag (length xs) d st -> Forall (fun x => len (inner13 x) + tag < 65536) xs ->
  send_all _ (fun st x => let '(c, t, p) := x in send13 C a tag key iv version st c t p) st xs = Ok (stN, rs) ->
  exists dN, dec_all (fun d r => decrypt_tls13 C d r srv a) d rs = Ok (dN, map inner13 xs) /\ P13 srv key iv tag 0 dN stN.
Proof. exact tls13_history. Qed.
Print Assumptions C01_tls13.

(* TLS 1.2 AEAD with explicit nonce: any 8 explicit bytes per record *)
Theorem C01_tls12_aead : forall C, CryptoLaws C -> forall srv a key salt version tag xs d st stN rs,
  len version = 2 -> 0 <= tag ->
  P12 srv key salt tag (length xs) d st -> Forall (fun x : bytes * bytes => len (fst x) = 8 /\ len (snd x) < 65536) xs ->
  send_all _ (fun st x => send12_aead C a tag key salt version st (fst x) (snd x)) st xs = Ok (stN, rs) ->
  exists dN, dec_all (fun d r => decrypt_tls12_aead C d r srv a) d rs = Ok (dN, map snd xs) /\ P12 srv key salt tag 0 dN stN.
Proof. exact tls12_aead_history. Qed.
Print Assumptions C01_tls12_aead.

Theorem C01_tls12_chacha : forall C, CryptoLaws C -> forall srv key iv version xs d st stN rs,
  8 <= len iv -> len version = 2 ->
  P12 srv key iv (d_tag_length d) (length xs) d st -> Forall (fun x : bytes => len x < 65536) xs ->
  send_all _ (fun st x => send12_chacha C key iv version st x) st xs = Ok (stN, rs) ->
  exists dN, dec_all (fun d r => decrypt_tls12_chacha20 C d r srv) d rs = Ok (dN, map (fun x => x) xs) /\ P12 srv key iv (d_tag_length d) 0 dN stN.
Proof. exact tls12_chacha_history. Qed.
Print Assumptions C01_tls12_chacha.

(* RC4: the key-stream position is a function of the whole history of the direction *)
Theorem C01_rc4 : forall C, CryptoLaws C -> forall srv key version mlen xs d st stN rs,
  d_mac_length d = mlen ->
  Prc4 srv key (length xs) d st -> Forall (fun x : bytes * bytes => len (snd x) = mlen) xs ->
  send_all _ (fun st x => send_rc4 C key version st (fst x) (snd x)) st xs = Ok (stN, rs) ->
  exists dN, dec_all (fun d r => decrypt_generic_stream C d r srv) d rs = Ok (dN, map fst xs) /\ Prc4 srv key 0 dN stN /\ d_mac_length dN = mlen.
Proof. exact rc4_history. Qed.
Print Assumptions C01_rc4.

(* CBC with chained IVs (SSL 3.0, TLS 1.0), MAC-then-encrypt or encrypt-then-MAC: residue chaining over the whole history *)
Theorem C01_cbc_chained : forall C, CryptoLaws C -> forall srv a key version etm mlen bl xs d st stN rs,
  Pcbc srv key etm mlen bl (length xs) d st -> Forall (fun x : bytes * bytes * Z => len (snd (fst x)) = mlen /\ 0 <= snd x) xs ->
  send_all _ (fun st x => send_cbc_chained C a key version etm (bl / 8) st (fst (fst x)) (snd (fst x)) (snd x)) st xs = Ok (stN, rs) ->
  exists dN, dec_all (fun d r => decrypt_last_block_iv_cbc C d r srv a) d rs = Ok (dN, map (fun x => fst (fst x)) xs) /\ Pcbc srv key etm mlen bl 0 dN stN.
Proof. exact cbc_chained_history. Qed.
Print Assumptions C01_cbc_chained.

(* CBC with an explicit IV per record (TLS 1.1, 1.2), MAC-then-encrypt or encrypt-then-MAC: every record on its own, state untouched *)
Theorem C01_cbc_explicit : forall C, CryptoLaws C -> forall d srv a key version st iv content mac p st' r,
  cur_key d srv = Some key -> len iv = blk a -> len mac = d_mac_length d -> 0 < d_mac_length d -> 0 <= p -> d_compression d = 0 ->
  send_cbc_explicit C a key version (d_etm d) st iv content mac p = Ok (st', r) ->
  decrypt_tls12_block C d r srv a = Ok (d, content).
Proof. exact cbc_explicit_record. Qed.
Print Assumptions C01_cbc_explicit.

(* Decryptor.decrypt takes the path of the negotiated class *)
Theorem C01_dispatch : forall C d r srv,
  (forall a, d_ctype d = CT_AEAD -> d_version d = TLS13 -> (a = AESGCM \/ a = AESCCM) -> d_bulk d = Some a -> decrypt C d r srv = some_res (decrypt_tls13 C d r srv a)) /\
  (d_ctype d = CT_Stream -> d_version d = TLS13 -> decrypt C d r srv = some_res (decrypt_tls13 C d r srv ChaCha20Poly1305)) /\
  (forall a, d_ctype d = CT_AEAD -> d_version d <> TLS13 -> (a = AESGCM \/ a = AESCCM) -> d_bulk d = Some a -> decrypt C d r srv = some_res (decrypt_tls12_aead C d r srv a)) /\
  (d_ctype d = CT_Stream -> d_version d = TLS12 -> d_bulk d = Some ChaCha20Poly1305 -> decrypt C d r srv = some_res (decrypt_tls12_chacha20 C d r srv)) /\
  (d_ctype d = CT_Stream -> d_version d <> TLS13 -> d_bulk d = Some ARC4 -> decrypt C d r srv = some_res (decrypt_generic_stream C d r srv)) /\
  (forall a, d_ctype d = CT_Block -> (d_version d = TLS12 \/ d_version d = TLS11) -> d_bulk d = Some a -> get_cipher_type (Some a) = CT_Block ->
             decrypt C d r srv = some_res (decrypt_tls12_block C d r srv a)) /\
  (forall a, d_ctype d = CT_Block -> (d_version d = TLS10 \/ d_version d = SSL30) -> d_bulk d = Some a -> get_cipher_type (Some a) = CT_Block ->
             decrypt C d r srv = some_res (decrypt_last_block_iv_cbc C d r srv a)).
Proof. exact dispatch_all. Qed.
Print Assumptions C01_dispatch.

(* the two directions do not share cipher state: what a decrypt path changes for one direction leaves the other's untouched *)
Theorem C01_directions_independent : forall (d : decryptor) (srv : bool) (n : Z) (b : bytes),
  (cur_seq (set_seq d (negb srv) n) srv = cur_seq d srv /\ cur_key (set_seq d (negb srv) n) srv = cur_key d srv /\ cur_iv (set_seq d (negb srv) n) srv = cur_iv d srv) /\
  (if srv then d_rc4_server (add_rc4 d (negb srv) n) else d_rc4_client (add_rc4 d (negb srv) n)) = (if srv then d_rc4_server d else d_rc4_client d) /\
  (if srv then d_last_block_server (set_last_block d (negb srv) b) else d_last_block_client (set_last_block d (negb srv) b)) = (if srv then d_last_block_server d else d_last_block_client d).
Proof. exact directions_independent. Qed.
Print Assumptions C01_directions_independent.
