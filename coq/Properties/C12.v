(* Property C12 (the export does not depend on the capture container) -- statements only.
   The pcapng reader (TLExport's dpkt_dsb.Reader): the theorems say that it recovers exactly the ticks, the resolution and the frames
   that were written, whatever the byte order and whatever else is in the file.  The legacy pcap reader (-l; dpkt's, as main.run uses
   it): C12_legacy_read_back / C12_legacy_byte_order -- seconds, sub-second part and data of every packet, whatever the byte order,
   the time unit and the other header fields.  Time stamps: (ticks, if_tsresol, if_tsoffset) -> binary64 -> microseconds, and
   (tv_sec, tv_usec | tv_nsec) -> binary64 / Decimal -> microseconds: C12_time_* (Model/TimeConv.v, Flocq).  The check compares
   the exports of the same packets in every container. *)
From Coq Require Import ZArith List Bool.
Require Import TimeConv TimeP PyLib PcapngReader PcapngSpec C12P PcapLegacy PcapLegacySpec PcapLegacyP.
Import ListNotations.
Open Scope Z_scope.

(* any capture -- frames as Enhanced Packet Blocks or obsolete Packet Blocks, secrets blocks, arbitrary other blocks before the
   interface description and between the packets -- serialised in either byte order is read back as exactly its frames with
   their tick counts and its secrets, in order; everything else is skipped *)
Theorem C12_read_back : forall le c, wf le c ->
  parse_file (ser le c) = (do ti <- idb_tsinfo le (block le 1 (snd (idb_block le c))); Ok (ti, flat_map ritem_of (c_items c))).
Proof. exact parse_ser. Qed.
Print Assumptions C12_read_back.

(* hence little- and big-endian files of the same capture give the same items *)
Theorem C12_byte_order : forall c ti1 ti2, wf true c -> wf false c ->
  idb_tsinfo true (block true 1 (snd (idb_block true c))) = Ok ti1 -> idb_tsinfo false (block false 1 (snd (idb_block false c))) = Ok ti2 ->
  rmap snd (parse_file (ser true c)) = rmap snd (parse_file (ser false c)).
Proof. exact byte_order_irrelevant. Qed.
Print Assumptions C12_byte_order.

(* the interface's time-stamp options: none = microseconds; if_tsresol = v: 10^-v for v < 128, 2^-(v-128) otherwise; same in both byte orders *)
Theorem C12_default_resolution : forall le lt sn, 0 <= lt < 256 ^ 2 -> 0 <= sn < 256 ^ 4 ->
  idb_tsinfo le (block le 1 (enc le lt 2 ++ enc le 0 2 ++ enc le sn 4 ++ [])) = Ok {| ts_base := 10; ts_exp := 6; ts_offset := 0 |}.
Proof. exact tsinfo_default. Qed.
Print Assumptions C12_default_resolution.
Theorem C12_resolution : forall le lt sn v, 0 <= lt < 256 ^ 2 -> 0 <= sn < 256 ^ 4 -> 0 <= v < 256 ->
  idb_tsinfo le (block le 1 (enc le lt 2 ++ enc le 0 2 ++ enc le sn 4 ++ ser_ifopts le {| io_resol := Some v; io_offset := None |})) =
  Ok {| ts_base := if v <? 128 then 10 else 2; ts_exp := if v <? 128 then v else v - 128; ts_offset := 0 |}.
Proof. exact tsinfo_resol. Qed.
Print Assumptions C12_resolution.

(* ---- time stamps: ticks -> float seconds (reader) -> integer microseconds (writer), Model/TimeConv.v ----
   The same instant, a whole number m of microseconds before 2^51 us (the year 2041), written as ticks of any two resolutions (ticks / divisor
   = m / 10^6: every 10^-k with k >= 6, every coarser 10^-k and every 2^-k that can express the instant), without if_tsoffset, is exported
   as m from both.  (Assumes the standard library's real numbers and classical logic, through Flocq -- see DESIGN.md I.5.) *)
Theorem C12_time_any_resolution : forall n d n' d' m, 0 < n -> 0 < d -> 0 < n' -> 0 < d' -> n * 1000000 = m * d -> n' * 1000000 = m * d' -> m < 2 ^ 51 ->
  time_us n d 0 = Some m /\ time_us n' d' 0 = Some m.
Proof. intros n d n' d' m Hn Hd Hn' Hd' H H' Hm. exact (conj (time_us_whole n d m Hn Hd H Hm) (time_us_whole n' d' m Hn' Hd' H' Hm)). Qed.
Print Assumptions C12_time_any_resolution.

Theorem C12_time_pow10 : forall k m, 6 <= k -> 0 < m < 2 ^ 51 -> time_us (m * 10 ^ (k - 6)) (10 ^ k) 0 = Some m.
Proof. exact time_us_pow10. Qed.
Print Assumptions C12_time_pow10.

Theorem C12_time_coarse : forall k n, 0 <= k <= 6 -> 0 < n -> n * 10 ^ (6 - k) < 2 ^ 51 -> time_us n (10 ^ k) 0 = Some (n * 10 ^ (6 - k)).
Proof. exact time_us_coarse. Qed.
Print Assumptions C12_time_coarse.

(* seconds plus microseconds: a legacy pcap record (tv_sec, tv_usec) -- and a pcapng packet whose interface has if_tsoffset = s and microsecond
   ticks below one second -- is exported as s * 10^6 + u, for every second of the 32-bit field but the last (2106-02-07) *)
Theorem C12_time_seconds_and_microseconds : forall s u, 0 <= s <= 4294967294 -> 0 <= u < 1000000 -> time_us u 1000000 s = Some (s * 1000000 + u).
Proof. exact time_us_sec_micro. Qed.
Print Assumptions C12_time_seconds_and_microseconds.

(* -l: the same instant from a microsecond legacy file, a nanosecond legacy file and a microsecond pcapng *)
Theorem C12_time_legacy : forall sec u, 0 <= sec -> 0 <= u < 1000000 -> 0 < sec * 1000000 + u < 2 ^ 51 ->
  legacy_us false sec u = Some (sec * 1000000 + u) /\ legacy_us true sec (u * 1000) = Some (sec * 1000000 + u) /\ time_us (sec * 1000000 + u) 1000000 0 = Some (sec * 1000000 + u).
Proof. exact legacy_all. Qed.
Print Assumptions C12_time_legacy.

(* non-vacuity and the finding repaired by 8eef5f1: an instant in 2039 at if_tsresol 7, and 2^-20 ticks *)
Example C12_time_example : time_us 21797302000623990 10000000 0 = Some 2179730200062399 /\ time_us (1700000000 * 2 ^ 20 + 2 ^ 19) (2 ^ 20) 0 = Some 1700000000500000.
Proof. vm_compute. split; reflexivity. Qed.

(* non-vacuity: a big-endian file with a statistics-like block before the interface, a name-resolution-like block between a secrets
   block and two frames (one as obsolete Packet Block) *)
Example C12_example :
  let c := {| c_pre := [(5, [1; 2; 3; 4])]; c_linktype := 1; c_snaplen := 65535; c_ifopts := {| io_resol := Some 9; io_offset := None |};
              c_items := [CDsb [65; 66; 67]; COther 4 [0; 0; 0; 0]; CPkt false 1700000000123456789 [1; 2; 3; 4; 5]; CPkt true 5 [9]] |} in
  parse_file (ser false c) = Ok ({| ts_base := 10; ts_exp := 9; ts_offset := 0 |}, [RDsb [65; 66; 67]; RPkt 1700000000123456789 [1; 2; 3; 4; 5]; RPkt 5 [9]]) /\
  parse_file (ser true c) = parse_file (ser false c).
Proof. vm_compute. split; reflexivity. Qed.

(* legacy pcap (-l): a file in the libpcap format of Spec/PcapLegacySpec.v -- either byte order, micro- or nanosecond magic, any time
   zone / accuracy / snap length / link type in the header, any original lengths -- is read back as exactly its packets: seconds,
   sub-second count and data, in order, with the time unit the magic announces *)
Theorem C12_legacy_read_back : forall le f, lfile_ok f ->
  read_legacy (ser_legacy le f) = Ok (lf_nano f, map (fun p => (lp_sec p, lp_sub p, lp_data p)) (lf_pkts f)).
Proof. exact read_ser_legacy. Qed.
Print Assumptions C12_legacy_read_back.

(* ... hence the same whatever the byte order, the snap length and the link type the header declares *)
Theorem C12_legacy_byte_order : forall f z s sn lt, lfile_ok f -> 0 <= z < 256 ^ 4 -> 0 <= s < 256 ^ 4 -> 0 <= sn < 256 ^ 4 -> 0 <= lt < 256 ^ 4 ->
  read_legacy (ser_legacy true f) =
  read_legacy (ser_legacy false {| lf_nano := lf_nano f; lf_zone := z; lf_sigfigs := s; lf_snaplen := sn; lf_linktype := lt; lf_pkts := lf_pkts f |}).
Proof. exact legacy_byte_order. Qed.
Print Assumptions C12_legacy_byte_order.
