(* Property C03 (an undecryptable or damaged flow never aborts the run or disturbs other flows) -- statements only.
   Proved: isolation (what happens to one flow's packets cannot change another flow's sessions; TLS: C03_isolation, QUIC:
   C03_quic_isolation), totality of the reading phase for TCP, UDP/QUIC and everything else (C03_run_reading_total: no packet, however
   damaged or crafted, makes it fail), and, record by record, that a TLS session without usable keys or a record that does not
   decrypt contributes nothing; the replay of a TLS session's packets in the decrypt phase never raises either (C03_tls_replay_total).
   Truncation of the capture gives a prefix (C08_tls, C08_quic).  NOT proved: that the builder and the writer never raise (they do
   for 2^32 plaintext bytes in one direction): decided by the fault enumeration of the check, with byte-exact correspondence of the
   model including the crash outcomes (DESIGN.md, C03).  A packet lost in the middle: C03_loss_leaves_a_prefix, for the reassembly
   of one direction (the records handed to the record handler are a beginning of the records sent; that the handler's output for a
   beginning of the records is a beginning of its output is the fold structure of C08_session_fold; the check's `aligned-loss` and
   `delete-packet` faults exercise the whole path). *)
From Coq Require Import ZArith List Bool.
From Coq Require String.
Require Import PyLib SuiteTypes SuiteParser Crypto KeySchedule Packet Reassembly Decryptor TlsSession Main C04P C03P QuicDemuxP QuicTotalP TlsTotalP OutputBuilder BuilderP BuilderTotalP ReasmP ReorderP SessionP C05P LossP.
Import ListNotations.
Open Scope Z_scope.

(* delete, corrupt, shorten or replace any packets of OTHER flows, add any foreign traffic: the sessions of q's flow -- and with
   C04_output_is_union their export -- are unchanged *)
Theorem C03_isolation : forall o q ps ps' ss,
  filter (same_flowb q) ps = filter (same_flowb q) ps' ->
  proj q (sessions_after o ps ss) = proj q (sessions_after o ps' ss).
Proof. exact isolation. Qed.
Print Assumptions C03_isolation.

(* without -c no packet, however damaged, can make the reading phase fail *)
Theorem C03_reading_total : forall o items, opt_checksum o = false -> forall m, exists m', fold_left (read_item_tls o) items (Ok m) = Ok m'.
Proof. exact reading_total. Qed.
Print Assumptions C03_reading_total.

(* a flow without usable keys exports no application data, and application records do not change its state *)
Theorem C03_no_keys_no_output : forall C tbl parts keylog s r d, r_type r = 0x17 -> ts_can_decrypt s = false ->
  handle_tls_record C tbl parts keylog s r d = Ok (s, []).
Proof. exact no_keys_no_output. Qed.
Print Assumptions C03_no_keys_no_output.
Theorem C03_missing_secrets : forall C tbl parts keylog s v cs sr, find_session_secrets keylog s = [] ->
  generate_keys C tbl parts keylog s v cs sr = Ok (set_can s false).
Proof. exact missing_secrets. Qed.
Theorem C03_unknown_suite : forall C tbl parts keylog s v cs sr, split_cipher_suite tbl parts (from_be cs) = None ->
  generate_keys C tbl parts keylog s v cs sr = Ok (set_can s false).
Proof. exact unknown_suite. Qed.
Print Assumptions C03_unknown_suite.
Print Assumptions C03_missing_secrets.

(* a record that does not decrypt (wrong secrets, flipped bit, shortened payload) is dropped: never exported as it is, no invented bytes,
   cipher state untouched *)
Theorem C03_failed_record : forall C tbl parts keylog s dcr r d e v, r_type r = 0x17 -> ts_can_decrypt s = true -> ts_decryptor s = Some dcr ->
  ts_version s = VSet v -> decrypt C dcr r d = Exn e -> handle_tls_record C tbl parts keylog s r d = Ok (s, []).
Proof. exact failed_record_no_output. Qed.
Print Assumptions C03_failed_record.

(* every record that is not a handshake record is handled without failure; records other than application data only ever produce -a material *)
Theorem C03_other_records_total : forall C tbl parts keylog s r d, r_type r <> 0x16 ->
  exists s' em, handle_tls_record C tbl parts keylog s r d = Ok (s', em) /\ (r_type r <> 0x17 -> Forall (fun e => te_meta e = true) em).
Proof. exact other_records_total. Qed.
Print Assumptions C03_other_records_total.

(* ---------------- QUIC ---------------- *)
(* whatever a UDP datagram contains, a QUIC session handles it without raising: packet extraction, header protection, decryptor
   selection, packet-number expansion, AEAD and frame parsing all fail into "packet skipped", and the loop over a coalesced datagram
   ends because every round consumes at least one byte (no OutOfFuel).  HkdfInitialTotal: the crypto library's HKDF-Expand does not
   refuse outputs of 12, 16 or 32 bytes under SHA-256 (the Initial keys). *)
Theorem C03_quic_datagram_total : forall C kl ftable, HkdfInitialTotal C ->
  forall s p dcid ver, exists s', QuicSession.quic_handle_packet C kl ftable s p dcid ver = Ok s'.
Proof. exact quic_handle_total. Qed.
Print Assumptions C03_quic_datagram_total.

(* the reading phase of the whole run -- TCP segments, UDP datagrams, other packets, key-log blocks, in any order -- never fails
   without -c, from any state *)
Theorem C03_run_reading_total : forall C o ftable items, HkdfInitialTotal C -> opt_checksum o = false ->
  forall g, exists g', fold_left (read_item C o ftable) items (Ok g) = Ok g'.
Proof. exact run_reading_total. Qed.
Print Assumptions C03_run_reading_total.

(* a datagram of another flow -- damaged, foreign, crafted -- leaves the QUIC sessions of q's flow as they are (as long as the
   connection-ID pass does not hand it to them: `respects`, see C04_quic_sessions_as_if_alone) *)
Theorem C03_quic_isolation : forall C o ftable kl q p ss ss', respects q ss p -> same_flowb q p = false ->
  handle_quic_packet C o ftable kl ss p = Ok ss' -> qproj q ss' = qproj q ss.
Proof. exact quic_other_flow. Qed.
Print Assumptions C03_quic_isolation.

(* ---------------- TLS, the decrypt phase ---------------- *)
(* Session.get_tls_records -- the replay of a session's buffered packets: reassembly, record framing, hello parsing, key
   derivation, decryptor construction, decryption, bookkeeping -- never raises, whatever bytes the segments carry (pkt_ok: payload
   bytes are bytes).  Every exception of the key derivation and of Decryptor.__init__ is caught where generate_keys is called, the
   record handlers catch their own, and both framing loops terminate (every record header advances the index by at least 5). *)
Theorem C03_tls_replay_total : forall C tbl parts keylog sip sport ps st,
  st_ok st -> Forall pkt_ok ps -> exists st', get_tls_records C tbl parts keylog sip sport st ps = Ok st'.
Proof. intros C tbl parts keylog sip sport ps st. exact (get_tls_records_total C tbl parts keylog sip sport ps st). Qed.
Print Assumptions C03_tls_replay_total.

Theorem C03_tls_record_total : forall C tbl parts keylog s r srv, exists x, handle_tls_record C tbl parts keylog s r srv = Ok x.
Proof. exact tls_record_total. Qed.
Print Assumptions C03_tls_record_total.

(* ---------------- the output phase ---------------- *)
(* Every record cut from a direction's reassembled buffer was carried by at least one input packet (its metadata is not empty); every
   entry a session exports for a record carries that record; and OutputBuilder.build never raises on entries whose records have
   carriers: no division by zero in the split, never short of time stamps.  Together: whatever a session makes of such records can be
   built into a conversation.  (What can still raise behind the builder is scapy's serialisation, for 2^32 bytes in a direction or a
   plaintext beyond 65 495 bytes: the hypotheses of C06_conversation / C06_tcp_checksum, named in DESIGN.md.) *)
Theorem C03_records_have_carriers : forall b, let d := concat (map p_data b) in bytes_ok d ->
  forall fuel i recs, 0 <= i -> cut fuel d (ranges b 0) i = Ok recs -> Forall (fun r => r_meta r <> []) recs.
Proof. exact cut_records_have_carriers. Qed.
Print Assumptions C03_records_have_carriers.

Theorem C03_entries_keep_record : forall C tbl parts keylog s r srv s' out,
  handle_tls_record C tbl parts keylog s r srv = Ok (s', out) -> Forall (fun e => te_record e = r) out.
Proof. exact entries_keep_record. Qed.
Print Assumptions C03_entries_keep_record.

Theorem C03_builder_total : forall t, has_meta t -> exists segs, build t = Ok segs.
Proof. exact build_total. Qed.
Print Assumptions C03_builder_total.

Theorem C03_session_output_builds : forall C tbl parts keylog rs s s' out, Forall (fun x : bool * tls_record => r_meta (snd x) <> []) rs ->
  C01SessionP.session_run C tbl parts keylog s rs = Ok (s', out) -> exists segs, build out = Ok segs.
Proof. exact session_output_builds. Qed.
Print Assumptions C03_session_output_builds.

(* loss: ANY selection of one direction's data segments -- each captured at most once (retransmitted copies are removed beforehand:
   C05_session_dedupe), the direction's first data segment captured and captured first, the others in any order, any of them lost --
   releases to the record handler a beginning of the records sent, each byte-exact: a hole stops the stream, and the segments behind
   it are never joined to the segments before it, whatever their lengths (also when the spliced bytes would again be well framed).
   chunks / in_order / wf_rec as in C05_reordering; sequence numbers modulo 2^32 from any initial value. *)
Theorem C03_loss_leaves_a_prefix : forall isn chunks dummy R order,
  in_order isn chunks -> len (data chunks) < 2147483648 -> Forall wf_rec R -> data chunks = concat R ->
  NoDup order -> Forall (fun i => (i < length chunks)%nat) order -> match order with [] => True | j :: _ => j = 0%nat end ->
  exists n' buf recs R2, feed None [] (map (fun i => nth i chunks dummy) order) = Ok (n', buf, recs) /\ R = map r_raw recs ++ R2.
Proof. intros isn chunks dummy R order Ho Hl HR Hd Hnd Hb Hf. exact (lossy_delivers_prefix chunks isn Ho Hl dummy R order HR Hd Hnd Hb Hf). Qed.
Print Assumptions C03_loss_leaves_a_prefix.

(* the same, for the Session object from handle_packet to the record handler (Session.handle_packet's duplicate memory, the packet
   buffer, decrypt()'s reassembly): a session whose direction d is untouched so far receives any packets whose direction-d part is
   ANY sequence of arrivals drawn from that endpoint's segments -- lost, repeated, reordered, the first one first; the other
   direction's packets are arbitrary.  Then what decrypt() hands to handle_tls_record for direction d (side d tr; the traffic
   collected is the handler's output on tr) is a beginning of the records the endpoint sent. *)
Theorem C03_session_loss : forall C tbl parts keylog s ps core st' (d : bool) isn chunks dummy R arr,
  in_order isn chunks -> len (data chunks) < 2147483648 -> Forall wf_rec R -> data chunks = concat R ->
  Forall (fun i => (i < length chunks)%nat) arr -> match arr with [] => True | j :: _ => j = 0%nat end ->
  seen s d = [] -> dirs s d (ts_packet_buffer s) = [] ->
  dirs s d ps = map (fun i => nth i chunks dummy) arr ->
  let s' := fold_left session_handle_packet ps s in
  get_tls_records C tbl parts keylog (ts_server_ip s') (ts_server_port s')
    {| rs_server_pbuf := []; rs_client_pbuf := []; rs_server_next := None; rs_client_next := None; rs_core := core; rs_traffic := [] |}
    (ts_packet_buffer s') = Ok st' ->
  exists tr core' R2, handle_trace C tbl parts keylog core tr = Ok (core', rs_traffic st') /\ R = map r_raw (side d tr) ++ R2.
Proof. exact session_loss_prefix. Qed.
Print Assumptions C03_session_loss.
