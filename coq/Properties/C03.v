(* Property C03 (an undecryptable or damaged flow never aborts the run or disturbs other flows) -- statements only, TLS over TCP.
   Proved: isolation (what happens to one flow's packets cannot change another flow's sessions), totality of the reading phase,
   and, record by record, that a session without usable keys or a record that does not decrypt contributes nothing.  Truncation
   of the capture gives a prefix (C08_tls).  NOT proved: that no input whatsoever makes the decrypt phase raise (run-level
   totality), the prefix claim for a packet lost in the middle, and everything on the QUIC side: these are decided by the fault
   enumeration of the check, with byte-exact correspondence of the model including the crash outcomes (DESIGN.md, C03). *)
From Coq Require Import ZArith List Bool.
From Coq Require String.
Require Import PyLib SuiteTypes SuiteParser Crypto KeySchedule Packet Reassembly Decryptor TlsSession Main C04P C03P.
Import ListNotations.
Open Scope Z_scope.

(* delete, corrupt, shorten or replace any packets of OTHER flows, add any foreign traffic: the sessions of q's flow -- and with
   C04_output_is_union their export -- are unchanged *)
Theorem C03_isolation : forall o q ps ps' ss,
  filter (same_flowb q) ps = filter (same_flowb q) ps' ->
  proj q (sessions_after o ps ss) = proj q (sessions_after o ps' ss).
Proof. exact isolation. Qed.
Print Assumptions C03_isolation.

(* without -c no packet, however damaged, can make the reading phase fail *)
Theorem C03_reading_total : forall o items, opt_checksum o = false -> forall m, exists m', fold_left (read_item_tls o) items (Ok m) = Ok m'.
Proof. exact reading_total. Qed.
Print Assumptions C03_reading_total.

(* a flow without usable keys exports no application data, and application records do not change its state *)
Theorem C03_no_keys_no_output : forall C tbl parts keylog s r d, r_type r = 0x17 -> ts_can_decrypt s = false ->
  handle_tls_record C tbl parts keylog s r d = Ok (s, []).
Proof. exact no_keys_no_output. Qed.
Theorem C03_missing_secrets : forall C tbl parts keylog s v cs sr, find_session_secrets keylog s = [] ->
  generate_keys C tbl parts keylog s v cs sr = Ok (set_can s false).
Proof. exact missing_secrets. Qed.
Theorem C03_unknown_suite : forall C tbl parts keylog s v cs sr, split_cipher_suite tbl parts (from_be cs) = None ->
  generate_keys C tbl parts keylog s v cs sr = Ok (set_can s false).
Proof. exact unknown_suite. Qed.
Print Assumptions C03_missing_secrets.

(* a record that does not decrypt (wrong secrets, flipped bit, shortened payload) is dropped: never exported as it is, no invented bytes,
   cipher state untouched *)
Theorem C03_failed_record : forall C tbl parts keylog s dcr r d e v, r_type r = 0x17 -> ts_can_decrypt s = true -> ts_decryptor s = Some dcr ->
  ts_version s = VSet v -> decrypt C dcr r d = Exn e -> handle_tls_record C tbl parts keylog s r d = Ok (s, []).
Proof. exact failed_record_no_output. Qed.
Print Assumptions C03_failed_record.

(* every record that is not a handshake record is handled without failure; records other than application data only ever produce -a material *)
Theorem C03_other_records_total : forall C tbl parts keylog s r d, r_type r <> 0x16 ->
  exists s' em, handle_tls_record C tbl parts keylog s r d = Ok (s', em) /\ (r_type r <> 0x17 -> Forall (fun e => te_meta e = true) em).
Proof. exact other_records_total. Qed.
Print Assumptions C03_other_records_total.
