(* Property C16 -- statements only. *)
From Coq Require Import ZArith List.
Require Import PyLib QuicPn Rfc9000 C16P.
Open Scope Z_scope.

(* value: what the model returns, read big-endian (the nonce pads it on the left), is RFC 9000 A.3's number;
   the stored largest becomes the maximum *)
Theorem C16 : forall largest n t, 0 <= largest < 2^62 -> 1 <= n <= 4 -> 0 <= t < 2^(8*n) ->
  let pn := decode_packet_number largest t (8*n) in
  exists b, full_pn largest (to_be_total t n) = Ok (b, Z.max largest pn) /\ from_be b = pn /\ bytes_ok b /\ len b <= 8.
Proof. exact full_pn_is_rfc. Qed.
Print Assumptions C16.

(* separately per packet-number space and direction *)
Theorem C16_per_space : forall s d sp n t, 0 <= pn_get s d sp < 2^62 -> 1 <= n <= 4 -> 0 <= t < 2^(8*n) ->
  let pn := decode_packet_number (pn_get s d sp) t (8*n) in
  exists b s', get_full_packet_number s d sp (to_be_total t n) = Ok (b, s') /\ from_be b = pn /\
     pn_get s' d sp = Z.max (pn_get s d sp) pn /\
     (forall d' sp', (d', sp') <> (d, sp) -> pn_get s' d' sp' = pn_get s d' sp').
Proof. exact get_full_pn_frame. Qed.
Print Assumptions C16_per_space.

(* used as AEAD nonce: IV xor the 12-byte big-endian packet number *)
Theorem C16_nonce : forall iv b, len iv = 12 -> bytes_ok b -> len b <= 12 ->
  quic_nonce iv b = xor_zip (to_be_total (from_be b) 12) iv.
Proof. exact nonce_is_iv_xor_padded_pn. Qed.
Print Assumptions C16_nonce.

(* histories with gaps and reordering inside half a window are recovered exactly *)
Theorem C16_histories : forall h largest, 0 <= largest < 2^62 -> in_window largest h ->
  recover_all largest h = Some (map fst h).
Proof. exact history_recovered. Qed.
Print Assumptions C16_histories.
