(* Property C02 (QUIC v1 STREAM data exported exactly, datagram by datagram) -- statements only.
   Output side: from the frames a session has decrypted to the datagrams written (C02_nothing_lost_or_added ...).
   Input side, 1-RTT packets: C02_short_packet_extracted (header protection, first byte, packet-number bytes, key phase and
   ciphertext of a packet protected per RFC 9001 5.3-5.4 are recovered exactly) and C02_one_rtt_datagram (the session that holds the
   sender's keys adds exactly the data of the packet's STREAM frames to its output); key selection across key updates:
   C02_key_phase_*; packet numbers: C16; key schedule: C15; frames: C17; CRYPTO reassembly: C02_crypto_frames_any_order.
   Handshake and Initial packets: C02_handshake_packet_extracted, C02_initial_packet_extracted; 0-RTT packets: C02_zero_rtt_packet_extracted, C02_zero_rtt_datagram.  The selection of the early keys (open finding),  connection-ID matching and Retry are decided by the reference sender and the
   correspondence of this model with the implementation (tools/props/c02.py). *)
From Coq Require Import ZArith List Bool.
From Coq Require Import Permutation.
Require Import PyLib SuiteTypes Crypto KeySchedule QuicKeys QuicPn QuicDissector QuicFrames QuicTls QuicSession TlsRecords QuicPackets QuicBuildP QuicEpochP QuicCryptoP C17RoundP QuicShortP QuicLongPackets QuicLongP QuicInitialP QuicZeroRttP QuicHelloP QuicKeysInstalledP QuicFrontP QuicSelectP.
Import ListNotations.
Open Scope Z_scope.

(* the payloads written are, concatenated, exactly the data of the collected frames, in order: STREAM data always, CRYPTO and
   version-negotiation data with -a only *)
Theorem C02_nothing_lost_or_added : forall m out, concat (map od_payload (quic_build m out)) = all_data m out.
Proof. exact build_concat. Qed.
Print Assumptions C02_nothing_lost_or_added.

(* and so for each direction on its own: what is attributed to a sender is what that sender's packets carried *)
Theorem C02_per_direction : forall m b out,
  concat (map od_payload (dir_dgrams b (quic_build m out))) = all_data m (dir_frames b out).
Proof. exact build_per_direction. Qed.
Print Assumptions C02_per_direction.

(* input datagrams with pairwise distinct capture times: the non-empty output datagrams are exactly the input datagrams that
   carried data, in capture order, each with its own time, direction and data *)
Theorem C02_one_output_per_input_datagram : forall m runs, NoDup (map tsid runs) ->
  filter nonempty (quic_build m (flat_map run_frames runs)) = filter nonempty (map (run_dgram m) runs).
Proof. exact build_one_per_datagram. Qed.
Print Assumptions C02_one_output_per_input_datagram.

(* key updates: G n = the connection's n-th application key generation (G (n+1) = key_update (G n), which C15_quic_key_update shows
   to be RFC 9001 6.1).  As long as each direction's generation grows by at most one from one captured 1-RTT packet to the next, the
   session selects exactly the sender's generation for every packet, whoever initiates the updates and however the directions interleave *)
Theorem C02_key_phase_client : forall C h kl G, (forall n, key_update C (G n) h kl = Ok (G (S n))) ->
  forall s gc gs g', QuicEpochP.Inv h kl G s gc gs -> (g' = gc \/ g' = S gc) ->
  exists s', check_key_epoch C s (Z.of_nat g' mod 2) false = Ok s' /\ QuicEpochP.Inv h kl G s' g' gs /\
             exists gens, qs_app s' = Some gens /\ nth_error gens (Z.to_nat (qs_epoch_client s')) = Some (G g').
Proof. exact client_packet. Qed.
Theorem C02_key_phase_server : forall C h kl G, (forall n, key_update C (G n) h kl = Ok (G (S n))) ->
  forall s gc gs g', QuicEpochP.Inv h kl G s gc gs -> (g' = gs \/ g' = S gs) ->
  exists s', check_key_epoch C s (Z.of_nat g' mod 2) true = Ok s' /\ QuicEpochP.Inv h kl G s' gc g' /\
             exists gens, qs_app s' = Some gens /\ nth_error gens (Z.to_nat (qs_epoch_server s')) = Some (G g').
Proof. exact server_packet. Qed.
Print Assumptions C02_key_phase_client.
Print Assumptions C02_key_phase_server.

(* CRYPTO-frame ordering: a handshake flight cut into non-empty CRYPTO frames at any points (ds = the pieces in stream order), the
   frames captured in ANY order (any permutation), with any distinct object identities: after the last one the reassembly buffer of
   the stream holds exactly the flight and nothing is left waiting.  feed is the reassembly step of QuicTlsSession.update_session
   (sort by offset; consume every frame that continues the stream), after which handle_buffer reads the buffer. *)
Theorem C02_crypto_frames_any_order : forall ds, Forall (fun d => d <> []) ds -> forall ident, (forall i j : nat, ident i = ident j -> i = j) ->
  forall order, Permutation order (seq 0 (length ds)) ->
  let s := fold_left (fun s j => feed s (fr ds ident j)) order cs0 in
  cs_buffer s = concat ds /\ cs_frames s = [] /\ cs_offset s = len (concat ds).
Proof. exact any_order. Qed.
Print Assumptions C02_crypto_frames_any_order.

(* non-vacuity: two datagrams at different times, the first with a CRYPTO frame only, the second with two STREAM frames *)
Example C02_example :
  let runs := [ {| r_ts := (10, 1); r_srv := false; r_items := [(OCrypto, [1; 2])] |};
                {| r_ts := (20, 2); r_srv := true; r_items := [(OStream, [7]); (OCrypto, [9]); (OStream, [8; 8])] |} ] in
  NoDup (map tsid runs) /\
  filter nonempty (quic_build false (flat_map run_frames runs)) = [ {| od_ts := 20; od_isserver := true; od_payload := [7; 8; 8] |} ] /\
  filter nonempty (quic_build true (flat_map run_frames runs)) =
    [ {| od_ts := 10; od_isserver := false; od_payload := [1; 2] |}; {| od_ts := 20; od_isserver := true; od_payload := [7; 9; 8; 8] |} ].
Proof. cbn. repeat split; try reflexivity. repeat constructor; cbn; intuition discriminate. Qed.

(* ---------------- the input side: 1-RTT packets ---------------- *)
(* A packet protected by the sender of Spec/QuicPackets.v (RFC 9001 5.3, 5.4: AEAD with the header as associated data, then header
   protection from a sample of the ciphertext; AES or ChaCha20 mask) with ANY first byte of the form 01xxxxxx, connection ID, 1..4
   packet-number bytes and payload: extract_quic_packet removes the protection and recovers first byte, packet-number bytes, key
   phase and ciphertext exactly.  Assumed of the primitives: the mask has at least 5 bytes; masks and ciphertexts are bytes. *)
Theorem C02_short_packet_extracted : forall C (chacha : bool) a (hp key iv : bytes) first (dcid pnb pn8 payload d : bytes) ts (srv : bool) keys,
  0 <= first < 256 -> 64 <= first < 128 -> len pnb = Z.land first 3 + 1 -> bytes_ok dcid ->
  (if srv then hp_server_app keys else hp_client_app keys) = Some hp ->
  protect_short C chacha a hp key iv first dcid pnb pn8 payload = Ok d ->
  (forall sample mask, (if chacha then c_chacha_mask C hp sample else c_ecb_enc C hp sample) = Ok mask -> 5 <= len mask /\ bytes_ok mask) ->
  (forall nonce pt aad ct, c_aead_enc C a 16 key nonce pt aad = Ok ct -> bytes_ok ct) -> bytes_ok pnb ->
  exists ct, c_aead_enc C a 16 key (quic_nonce iv pn8) payload ([first] ++ dcid ++ pnb) = Ok ct /\
  extract_inner C d ts srv dcid keys chacha =
    Ok ([ {| qp_type := QOneRtt; qp_isserver := srv; qp_ts := ts; qp_first_byte := [first]; qp_version := []; qp_dcid_len := []; qp_dcid := dcid;
             qp_scid_len := []; qp_scid := []; qp_token_len_bytes := []; qp_token := []; qp_packet_len_bytes := []; qp_pn := pnb;
             qp_payload := ct; qp_key_phase := Z.land (Z.shiftr first 2) 1; qp_supported := [] |} ], []).
Proof. exact extract_short. Qed.
Print Assumptions C02_short_packet_extracted.

(* The datagram handed to the session that holds the sender's keys (select_decryptor yields them: C02_key_phase_*; the packet number
   expands to the sender's: C16; the payload parses to fs: C17): the session's output grows by exactly the data of the packet's
   STREAM frames, in frame order, stamped with the datagram's time and direction.  fs may hold any frames but CRYPTO and
   NEW_CONNECTION_ID (which change other parts of the session). *)
Theorem C02_one_rtt_datagram : forall C, CryptoLaws C -> forall keylog ftable (chacha : bool) a (hp key iv : bytes) first (dcid pnb pn8 payload d : bytes) ts (srv : bool) s s1 pns fs,
  0 <= first < 256 -> 64 <= first < 128 -> len pnb = Z.land first 3 + 1 -> bytes_ok dcid -> bytes_ok pnb ->
  (if srv then hp_server_app (qs_hp s) else hp_client_app (qs_hp s)) = Some hp ->
  (match qt_ciphersuite (qs_tls s) with Some cs => bytes_eqb cs [0x13; 0x03] | None => false end) = chacha ->
  protect_short C chacha a hp key iv first dcid pnb pn8 payload = Ok d ->
  (forall sample mask, (if chacha then c_chacha_mask C hp sample else c_ecb_enc C hp sample) = Ok mask -> 5 <= len mask /\ bytes_ok mask) ->
  (forall nonce pt aad ct, c_aead_enc C a 16 key nonce pt aad = Ok ct -> bytes_ok ct) ->
  (forall ct, select_decryptor C s {| qp_type := QOneRtt; qp_isserver := srv; qp_ts := ts; qp_first_byte := [first]; qp_version := []; qp_dcid_len := []; qp_dcid := dcid;
             qp_scid_len := []; qp_scid := []; qp_token_len_bytes := []; qp_token := []; qp_packet_len_bytes := []; qp_pn := pnb;
             qp_payload := ct; qp_key_phase := Z.land (Z.shiftr first 2) 1; qp_supported := [] |} = (s1, Some (a, (key, iv)))) ->
  get_full_packet_number (qs_pn s1) srv SpApp pnb = Ok (pn8, pns) ->
  parse_frames ftable payload = Ok fs -> forallb plain_frame fs = true ->
  exists s', process_datagram C keylog ftable (S (length d)) s d ts srv dcid = Ok s' /\
             qs_output s' = qs_output s ++ flat_map (fun f => match f_cls f with
                                                              | CStream => [ {| of_kind := OStream; of_data := nth 0 (f_datas f) []; of_ts := ts; of_isserver := srv |} ]
                                                              | _ => [] end) fs.
Proof. exact one_rtt_datagram. Qed.
Print Assumptions C02_one_rtt_datagram.

(* A Handshake packet (long header) protected by the sender of Spec/QuicLongPackets.v -- any first byte 1110xxxx, version, connection
   IDs (destination up to 255 bytes, source up to 63), Length field of any varint width, 1..4 packet-number bytes, payload, AES or
   ChaCha20 mask -- FOLLOWED BY ANYTHING (further coalesced packets, padding): extract_quic_packet recovers every header field, the
   packet-number bytes and the ciphertext exactly and hands the rest of the datagram back.  The packet leaves room for the
   header-protection sample (RFC 9001 5.4.2: packet number and payload together at least 4 bytes). *)
Theorem C02_handshake_packet_extracted : forall C, CryptoLaws C ->
  forall (chacha : bool) a (hp key iv : bytes) first (version dcid scid pnb pn8 payload d rest g : bytes) w ts (srv : bool) keys,
  224 <= first < 240 -> len pnb = Z.land first 3 + 1 -> len version = 4 -> from_be version <> 0 -> bytes_ok version ->
  len dcid < 256 -> len scid < 64 -> bytes_ok dcid -> bytes_ok scid -> bytes_ok pnb -> bytes_ok rest ->
  wok w -> len pnb + len payload + 16 < 2 ^ (8 * w - 2) -> 4 <= len pnb + len payload ->
  (if srv then hp_server_handshake keys else hp_client_handshake keys) = Some hp ->
  protect_handshake C chacha a hp key iv first version dcid scid pnb pn8 payload w = Ok d ->
  (forall sample mask, (if chacha then c_chacha_mask C hp sample else c_ecb_enc C hp sample) = Ok mask -> 5 <= len mask /\ bytes_ok mask) ->
  (forall nonce pt aad ct, c_aead_enc C a 16 key nonce pt aad = Ok ct -> bytes_ok ct) ->
  let plb := enc_var (len pnb + len payload + 16) w in
  exists ct, c_aead_enc C a 16 key (quic_nonce iv pn8) payload (([first] ++ version ++ [len dcid] ++ dcid ++ [len scid] ++ scid ++ plb) ++ pnb) = Ok ct /\
  extract_inner C (d ++ rest) ts srv g keys chacha =
    Ok ([ mk_long QHandshake srv ts [first] version [len dcid] dcid [len scid] scid [] [] plb pnb ct [] ], rest).
Proof. exact extract_handshake. Qed.
Print Assumptions C02_handshake_packet_extracted.

(* An Initial packet (first byte 1100xxxx, token with its varint length, always the AES mask) followed by anything: the same. *)
Theorem C02_initial_packet_extracted : forall C, CryptoLaws C ->
  forall a (hp key iv : bytes) first (version dcid scid token pnb pn8 payload d rest g : bytes) w wt ts (srv chacha : bool) keys,
  192 <= first < 208 -> len pnb = Z.land first 3 + 1 -> len version = 4 -> from_be version <> 0 -> bytes_ok version ->
  len dcid < 256 -> len scid < 64 -> bytes_ok dcid -> bytes_ok scid -> bytes_ok pnb -> bytes_ok rest ->
  wok w -> len pnb + len payload + 16 < 2 ^ (8 * w - 2) -> 4 <= len pnb + len payload -> wok wt -> len token < 2 ^ (8 * wt - 2) -> bytes_ok token ->
  (if srv then hp_server_initial keys else hp_client_initial keys) = Some hp ->
  protect_initial C a hp key iv first version dcid scid token pnb pn8 payload w wt = Ok d ->
  (forall sample mask, c_ecb_enc C hp sample = Ok mask -> 5 <= len mask /\ bytes_ok mask) ->
  (forall nonce pt aad ct, c_aead_enc C a 16 key nonce pt aad = Ok ct -> bytes_ok ct) ->
  let plb := enc_var (len pnb + len payload + 16) w in let tlb := enc_var (len token) wt in
  exists ct, c_aead_enc C a 16 key (quic_nonce iv pn8) payload (([first] ++ version ++ [len dcid] ++ dcid ++ [len scid] ++ scid ++ tlb ++ token ++ plb) ++ pnb) = Ok ct /\
  extract_inner C (d ++ rest) ts srv g keys chacha =
    Ok ([ mk_long QInitial srv ts [first] version [len dcid] dcid [len scid] scid tlb token plb pnb ct [] ], rest).
Proof. exact extract_initial. Qed.
Print Assumptions C02_initial_packet_extracted.

(* 0-RTT packets: the long header of a Handshake packet with type bits 01, protected with the CLIENT's early keys *)
Theorem C02_zero_rtt_packet_extracted : forall C, CryptoLaws C ->
  forall (chacha : bool) a (hp key iv : bytes) first (version dcid scid pnb pn8 payload d rest g : bytes) w ts (srv : bool) keys,
  208 <= first < 224 -> len pnb = Z.land first 3 + 1 -> len version = 4 -> from_be version <> 0 -> bytes_ok version ->
  len dcid < 256 -> len scid < 64 -> bytes_ok dcid -> bytes_ok scid -> bytes_ok pnb -> bytes_ok rest ->
  wok w -> len pnb + len payload + 16 < 2 ^ (8 * w - 2) -> 4 <= len pnb + len payload ->
  hp_client_early keys = Some hp ->
  protect_handshake C chacha a hp key iv first version dcid scid pnb pn8 payload w = Ok d ->
  (forall sample mask, (if chacha then c_chacha_mask C hp sample else c_ecb_enc C hp sample) = Ok mask -> 5 <= len mask /\ bytes_ok mask) ->
  (forall nonce pt aad ct, c_aead_enc C a 16 key nonce pt aad = Ok ct -> bytes_ok ct) ->
  let plb := enc_var (len pnb + len payload + 16) w in
  exists ct, c_aead_enc C a 16 key (quic_nonce iv pn8) payload (([first] ++ version ++ [len dcid] ++ dcid ++ [len scid] ++ scid ++ plb) ++ pnb) = Ok ct /\
  extract_inner C (d ++ rest) ts srv g keys chacha =
    Ok ([ mk_long QZeroRtt srv ts [first] version [len dcid] dcid [len scid] scid [] [] plb pnb ct [] ], rest).
Proof. exact extract_zero_rtt. Qed.
Print Assumptions C02_zero_rtt_packet_extracted.

(* ... and the datagram handed to the session that holds the client's early keys adds exactly the data of its STREAM frames *)
Theorem C02_zero_rtt_datagram : forall C, CryptoLaws C -> forall keylog ftable (chacha : bool) a (hp key iv : bytes) first (version dcid scid pnb pn8 payload d g : bytes) w ts s s1 pns fs,
  208 <= first < 224 -> len pnb = Z.land first 3 + 1 -> len version = 4 -> from_be version <> 0 -> bytes_ok version ->
  len dcid < 256 -> len scid < 64 -> bytes_ok dcid -> bytes_ok scid -> bytes_ok pnb ->
  wok w -> len pnb + len payload + 16 < 2 ^ (8 * w - 2) -> 4 <= len pnb + len payload ->
  hp_client_early (qs_hp s) = Some hp ->
  (match qt_ciphersuite (qs_tls s) with Some cs => bytes_eqb cs [0x13; 0x03] | None => false end) = chacha ->
  protect_handshake C chacha a hp key iv first version dcid scid pnb pn8 payload w = Ok d ->
  (forall sample mask, (if chacha then c_chacha_mask C hp sample else c_ecb_enc C hp sample) = Ok mask -> 5 <= len mask /\ bytes_ok mask) ->
  (forall nonce pt aad ct, c_aead_enc C a 16 key nonce pt aad = Ok ct -> bytes_ok ct) ->
  (forall ct, select_decryptor C s (mk_long QZeroRtt false ts [first] version [len dcid] dcid [len scid] scid [] [] (enc_var (len pnb + len payload + 16) w) pnb ct []) = (s1, Some (a, (key, iv)))) ->
  get_full_packet_number (qs_pn s1) false SpApp pnb = Ok (pn8, pns) ->
  parse_frames ftable payload = Ok fs -> forallb plain_frame fs = true ->
  exists s', process_datagram C keylog ftable (S (length d)) s d ts false g = Ok s' /\
             qs_output s' = qs_output s ++ flat_map (fun f => match f_cls f with
                                                              | CStream => [ {| of_kind := OStream; of_data := nth 0 (f_datas f) []; of_ts := ts; of_isserver := false |} ]
                                                              | _ => [] end) fs.
Proof. exact zero_rtt_datagram. Qed.
Print Assumptions C02_zero_rtt_datagram.

(* ---------------- the hellos inside the CRYPTO stream ---------------- *)
(* What the QUIC TLS parser keeps from a ClientHello / ServerHello message encoded per RFC 8446 4.1.2 / 4.1.3, with any session id,
   any offered suites, any compression methods and extensions: the client random, and the cipher suite -- the FIRST OFFERED one after
   the ClientHello (what the early keys are derived for: the open finding), the selected one after the ServerHello.  These are the
   two values set_tls_decryptors is called with (C15_quic_*, C04_own_keylog_lines_quic). *)
Theorem C02_quic_client_hello : forall q (l3 hv random sid f others cms rest : bytes),
  len l3 = 3 -> from_be l3 = len (hv ++ random ++ [len sid] ++ sid ++ to_be_total (len (f ++ others)) 2 ++ (f ++ others) ++ [len cms] ++ cms ++ rest) ->
  len hv = 2 -> len random = 32 -> len sid < 256 -> len f = 2 -> len (f ++ others) < 65536 -> len cms < 256 ->
  let msg := [1] ++ l3 ++ hv ++ random ++ [len sid] ++ sid ++ to_be_total (len (f ++ others)) 2 ++ (f ++ others) ++ [len cms] ++ cms ++ rest in
  exists q', handle_client_hello q msg = (q', true) /\ qt_ciphersuite q' = Some f /\ qt_client_random q' = Some random /\ qt_new_data q' = true.
Proof. exact quic_client_hello. Qed.
Print Assumptions C02_quic_client_hello.

Theorem C02_quic_server_hello : forall q (l3 hv random sid suite rest : bytes) comp,
  len l3 = 3 -> len hv = 2 -> len random = 32 -> len sid < 256 -> len suite = 2 -> 2 <= len sid + len rest ->
  let msg := [2] ++ l3 ++ hv ++ random ++ [len sid] ++ sid ++ suite ++ [comp] ++ rest in
  exists q', handle_server_hello q msg = (q', true) /\ qt_ciphersuite q' = Some suite /\ qt_client_random q' = qt_client_random q /\ qt_new_data q' = true.
Proof. exact quic_server_hello. Qed.
Print Assumptions C02_quic_server_hello.

(* From the hellos to the keys: set_tls_decryptors, called with the client random and the suite read from the CRYPTO stream
   (C02_quic_client_hello, C02_quic_server_hello), installs for each of the four QUIC suites exactly what dev_quic_keys derives from the
   key-log lines of this client random (C15_quic_*: what that is) -- the cipher, the Handshake keys, the first generation of 1-RTT keys
   and the header-protection keys that C02_handshake_packet_extracted, C02_short_packet_extracted, C02_one_rtt_datagram and
   C02_key_phase_* start from -- and changes nothing else of the session. *)
Theorem C02_quic_keys_installed : forall C keylog s cr suite h ci kl k chs shs capp sapp,
  suite_choice suite = Some (h, ci, kl) ->
  dev_quic_keys C kl (filter (fun x => bytes_eqb (s_random x) cr) keylog) h (qs_version s) = Ok k ->
  q_chs k = Some chs -> q_shs k = Some shs -> q_capp k = Some capp -> q_sapp k = Some sapp ->
  key_ok ci (t_key chs) = true -> key_ok ci (t_key shs) = true -> key_ok ci (t_key capp) = true -> key_ok ci (t_key sapp) = true ->
  exists s', set_tls_decryptors C keylog s cr suite = (s', true) /\
    qs_cipher s' = Some ci /\ qs_hash s' = Some h /\
    qs_handshake s' = Some {| qd_skey := t_key shs; qd_siv := t_iv shs; qd_ckey := t_key chs; qd_civ := t_iv chs |} /\
    qs_app s' = Some [ {| g_skey := t_key sapp; g_siv := t_iv sapp; g_ckey := t_key capp; g_civ := t_iv capp; g_ssec := t_sec sapp; g_csec := t_sec capp |} ] /\
    hp_client_handshake (qs_hp s') = Some (t_hp chs) /\ hp_server_handshake (qs_hp s') = Some (t_hp shs) /\
    hp_client_app (qs_hp s') = Some (t_hp capp) /\ hp_server_app (qs_hp s') = Some (t_hp sapp) /\
    hp_client_initial (qs_hp s') = hp_client_initial (qs_hp s) /\ hp_server_initial (qs_hp s') = hp_server_initial (qs_hp s) /\
    qs_initial s' = qs_initial s /\ qs_output s' = qs_output s /\ qs_pn s' = qs_pn s /\ qs_tls s' = qs_tls s /\
    qs_client_cids s' = qs_client_cids s /\ qs_server_cids s' = qs_server_cids s /\ qs_version s' = qs_version s /\
    qs_epoch_client s' = qs_epoch_client s /\ qs_epoch_server s' = qs_epoch_server s /\
    qs_keylen s' = kl /\ qs_phase_client s' = qs_phase_client s /\ qs_phase_server s' = qs_phase_server s.
Proof. exact quic_keys_installed. Qed.
Print Assumptions C02_quic_keys_installed.

(* The front of a connection, composed: the CRYPTO frame with the ServerHello (a whole message at offset 0 of the server's empty
   Initial-level stream) handed to a session that holds the client random: reassembly delivers the message, the parser reads the
   selected suite, the keys of C02_quic_keys_installed are installed, the frame's data is kept as CRYPTO data (exported only with -a);
   packet-number spaces, Initial keys and connection IDs stay.  The conclusions are the premises of C02_handshake_packet_extracted,
   C02_short_packet_extracted, C02_one_rtt_datagram and C02_key_phase_*. *)
Theorem C02_quic_server_hello_frame : forall C keylog s pk cr (l3 hv random sid suite rest : bytes) comp h ci kl k chs shs capp sapp,
  qp_isserver pk = true -> qp_type pk = QInitial ->
  qt_server (qs_tls s) = [cs0; cs0; cs0; cs0] -> qt_client_random (qs_tls s) = Some cr ->
  len l3 = 3 -> len hv = 2 -> len random = 32 -> len sid < 256 -> len suite = 2 -> 2 <= len sid + len rest ->
  from_be l3 = len (hv ++ random ++ [len sid] ++ sid ++ suite ++ [comp] ++ rest) ->
  suite_choice suite = Some (h, ci, kl) ->
  dev_quic_keys C kl (filter (fun x => bytes_eqb (s_random x) cr) keylog) h (qs_version s) = Ok k ->
  q_chs k = Some chs -> q_shs k = Some shs -> q_capp k = Some capp -> q_sapp k = Some sapp ->
  key_ok ci (t_key chs) = true -> key_ok ci (t_key shs) = true -> key_ok ci (t_key capp) = true -> key_ok ci (t_key sapp) = true ->
  let msg := [2] ++ l3 ++ hv ++ random ++ [len sid] ++ sid ++ suite ++ [comp] ++ rest in
  exists s', handle_crypto_frame C keylog s pk 0 (len msg) msg = (s', true) /\
    qs_cipher s' = Some ci /\
    qs_handshake s' = Some {| qd_skey := t_key shs; qd_siv := t_iv shs; qd_ckey := t_key chs; qd_civ := t_iv chs |} /\
    qs_app s' = Some [ {| g_skey := t_key sapp; g_siv := t_iv sapp; g_ckey := t_key capp; g_civ := t_iv capp; g_ssec := t_sec sapp; g_csec := t_sec capp |} ] /\
    hp_client_handshake (qs_hp s') = Some (t_hp chs) /\ hp_server_handshake (qs_hp s') = Some (t_hp shs) /\
    hp_client_app (qs_hp s') = Some (t_hp capp) /\ hp_server_app (qs_hp s') = Some (t_hp sapp) /\
    qt_ciphersuite (qs_tls s') = Some suite /\ qt_client_random (qs_tls s') = Some cr /\ qt_new_data (qs_tls s') = false /\
    qs_output s' = qs_output s ++ [ {| of_kind := OCrypto; of_data := msg; of_ts := qp_ts pk; of_isserver := true |} ] /\
    qs_pn s' = qs_pn s /\ qs_initial s' = qs_initial s /\ qs_client_cids s' = qs_client_cids s /\ qs_server_cids s' = qs_server_cids s.
Proof. exact server_hello_frame. Qed.
Print Assumptions C02_quic_server_hello_frame.

(* ... and with the keys the invariant of the key-update theorems holds: a session whose epochs and phase bits are still 0 holds exactly
   generation 0, G 0 = the installed 1-RTT keys -- the premise QuicEpochP.Inv ... 0 0 of C02_key_phase_client / C02_key_phase_server *)
Theorem C02_quic_epoch_invariant_installed : forall C keylog s cr suite h ci kl k chs shs capp sapp (G : nat -> app_gen),
  suite_choice suite = Some (h, ci, kl) ->
  dev_quic_keys C kl (filter (fun x => bytes_eqb (s_random x) cr) keylog) h (qs_version s) = Ok k ->
  q_chs k = Some chs -> q_shs k = Some shs -> q_capp k = Some capp -> q_sapp k = Some sapp ->
  key_ok ci (t_key chs) = true -> key_ok ci (t_key shs) = true -> key_ok ci (t_key capp) = true -> key_ok ci (t_key sapp) = true ->
  qs_epoch_client s = 0 -> qs_epoch_server s = 0 -> qs_phase_client s = 0 -> qs_phase_server s = 0 ->
  G 0%nat = {| g_skey := t_key sapp; g_siv := t_iv sapp; g_ckey := t_key capp; g_civ := t_iv capp; g_ssec := t_sec sapp; g_csec := t_sec capp |} ->
  QuicEpochP.Inv h kl G (fst (set_tls_decryptors C keylog s cr suite)) 0 0.
Proof. exact epoch_invariant_installed. Qed.
Print Assumptions C02_quic_epoch_invariant_installed.

(* Which key a 1-RTT packet is given: for a session in step with the connection's key generations, a packet of generation g' (its
   direction's current one or the next, as its key-phase bit says) gets the cipher and the key and IV of G g' of its direction; the
   session moves to that generation, output / packet-number spaces / header-protection keys / TLS state stay.  This discharges the
   hypothesis on select_decryptor of C02_one_rtt_datagram; with C02_quic_epoch_invariant_installed the chain
   hellos -> keys -> generation 0 -> key updates -> datagrams is closed. *)
Theorem C02_one_rtt_key_selected : forall C h kl G, (forall n, key_update C (G n) h kl = Ok (G (S n))) ->
  forall s gc gs g' (srv : bool) pk ci,
  QuicEpochP.Inv h kl G s gc gs -> qs_cipher s = Some ci -> qp_type pk = QOneRtt -> qp_isserver pk = srv ->
  (g' = (if srv then gs else gc) \/ g' = S (if srv then gs else gc)) -> qp_key_phase pk = Z.of_nat g' mod 2 ->
  exists s', select_decryptor C s pk = (s', Some (ci, if srv then (g_skey (G g'), g_siv (G g')) else (g_ckey (G g'), g_civ (G g')))) /\
             QuicEpochP.Inv h kl G s' (if srv then gc else g') (if srv then g' else gs) /\
             qs_output s' = qs_output s /\ qs_pn s' = qs_pn s /\ qs_hp s' = qs_hp s /\ qs_tls s' = qs_tls s /\ qs_cipher s' = Some ci.
Proof. exact one_rtt_key_selected. Qed.
Print Assumptions C02_one_rtt_key_selected.

(* ... and before it, the CRYPTO frame with the ClientHello (a whole message at offset 0 of the client's empty Initial-level stream): the
   session learns the client random and the first offered suite; when that suite is none of the four QUIC suites -- a GREASE value
   first, as browsers send it -- no keys are touched and the frame's data is kept as CRYPTO data; the server's streams stay as they
   were, so that C02_quic_server_hello_frame applies to the ServerHello that follows.  (A first offered suite that IS one of the
   four makes the session derive keys for it at once: the open finding on 0-RTT data is about exactly that.) *)
Theorem C02_quic_client_hello_frame : forall C keylog s pk (l3 hv random sid f others cms rest : bytes),
  qp_isserver pk = false -> qp_type pk = QInitial -> qt_client (qs_tls s) = [cs0; cs0; cs0; cs0] ->
  len l3 = 3 -> from_be l3 = len (hv ++ random ++ [len sid] ++ sid ++ to_be_total (len (f ++ others)) 2 ++ (f ++ others) ++ [len cms] ++ cms ++ rest) ->
  len hv = 2 -> len random = 32 -> len sid < 256 -> len f = 2 -> len (f ++ others) < 65536 -> len cms < 256 ->
  bytes_ok f -> suite_choice f = None ->
  let msg := [1] ++ l3 ++ hv ++ random ++ [len sid] ++ sid ++ to_be_total (len (f ++ others)) 2 ++ (f ++ others) ++ [len cms] ++ cms ++ rest in
  exists s', handle_crypto_frame C keylog s pk 0 (len msg) msg = (s', true) /\
    qt_client_random (qs_tls s') = Some random /\ qt_ciphersuite (qs_tls s') = Some f /\ qt_new_data (qs_tls s') = false /\
    qt_server (qs_tls s') = qt_server (qs_tls s) /\
    qs_output s' = qs_output s ++ [ {| of_kind := OCrypto; of_data := msg; of_ts := qp_ts pk; of_isserver := false |} ] /\
    qs_handshake s' = qs_handshake s /\ qs_app s' = qs_app s /\ qs_hp s' = qs_hp s /\ qs_cipher s' = qs_cipher s /\ qs_pn s' = qs_pn s /\
    qs_initial s' = qs_initial s /\ qs_version s' = qs_version s /\
    qs_epoch_client s' = qs_epoch_client s /\ qs_epoch_server s' = qs_epoch_server s /\ qs_phase_client s' = qs_phase_client s /\ qs_phase_server s' = qs_phase_server s.
Proof. exact client_hello_frame. Qed.
Print Assumptions C02_quic_client_hello_frame.

Example C02_grease_is_no_quic_suite : suite_choice [0x0a; 0x0a] = None /\ suite_choice [0xda; 0xda] = None /\ suite_choice [0x13; 0x01] <> None.
Proof. vm_compute. repeat split; discriminate. Qed.

(* Retry: the session forgets every key and the whole TLS state (the repeated ClientHello starts from empty streams: the premise of
   C02_quic_client_hello_frame holds again; the next Initial packet derives the Initial keys from its own destination connection ID) and
   keeps the packet-number spaces (RFC 9000 17.2.5.3), the connection IDs and the output collected so far *)
Theorem C02_retry_resets : forall C keylog ftable s pk, qp_type pk = QRetry ->
  exists s', process_qpacket C keylog ftable s pk = Ok s' /\
    qs_tls s' = qtls0 /\ qs_initial s' = None /\ qs_handshake s' = None /\ qs_app s' = None /\ qs_early s' = None /\ qs_cipher s' = None /\ qs_hash s' = None /\
    qs_hp s' = hp_none /\ qs_pn s' = qs_pn s /\ qs_output s' = qs_output s /\ qs_client_cids s' = qs_client_cids s /\ qs_server_cids s' = qs_server_cids s /\
    qs_version s' = qs_version s.
Proof. exact retry_resets. Qed.
Print Assumptions C02_retry_resets.
Example C02_fresh_tls_state_streams : qt_client qtls0 = [cs0; cs0; cs0; cs0] /\ qt_server qtls0 = [cs0; cs0; cs0; cs0].
Proof. split; reflexivity. Qed.
