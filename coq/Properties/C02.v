(* Property C02 (QUIC v1 STREAM data exported exactly, datagram by datagram) -- statements only.
   What is proved here is the output side: from the frames a session has decrypted to the datagrams written.  That the frames
   decrypted are the frames sent (header protection, packet numbers, key selection, CRYPTO reassembly) is decided by the
   reference sender and the correspondence of this model with the implementation (tools/props/c02.py); the packet-number
   part has its own theorems (C16), the key schedule too (C15). *)
From Coq Require Import ZArith List Bool.
From Coq Require Import Permutation.
Require Import PyLib SuiteTypes Crypto KeySchedule QuicKeys QuicTls QuicSession QuicBuildP QuicEpochP QuicCryptoP.
Import ListNotations.
Open Scope Z_scope.

(* the payloads written are, concatenated, exactly the data of the collected frames, in order: STREAM data always, CRYPTO and
   version-negotiation data with -a only *)
Theorem C02_nothing_lost_or_added : forall m out, concat (map od_payload (quic_build m out)) = all_data m out.
Proof. exact build_concat. Qed.
Print Assumptions C02_nothing_lost_or_added.

(* and so for each direction on its own: what is attributed to a sender is what that sender's packets carried *)
Theorem C02_per_direction : forall m b out,
  concat (map od_payload (dir_dgrams b (quic_build m out))) = all_data m (dir_frames b out).
Proof. exact build_per_direction. Qed.
Print Assumptions C02_per_direction.

(* input datagrams with pairwise distinct capture times: the non-empty output datagrams are exactly the input datagrams that
   carried data, in capture order, each with its own time, direction and data *)
Theorem C02_one_output_per_input_datagram : forall m runs, NoDup (map tsid runs) ->
  filter nonempty (quic_build m (flat_map run_frames runs)) = filter nonempty (map (run_dgram m) runs).
Proof. exact build_one_per_datagram. Qed.
Print Assumptions C02_one_output_per_input_datagram.

(* key updates: G n = the connection's n-th application key generation (G (n+1) = key_update (G n), which C15_quic_key_update shows
   to be RFC 9001 6.1).  As long as each direction's generation grows by at most one from one captured 1-RTT packet to the next, the
   session selects exactly the sender's generation for every packet, whoever initiates the updates and however the directions interleave *)
Theorem C02_key_phase_client : forall C h kl G, (forall n, key_update C (G n) h kl = Ok (G (S n))) ->
  forall s gc gs g', QuicEpochP.Inv h kl G s gc gs -> (g' = gc \/ g' = S gc) ->
  exists s', check_key_epoch C s (Z.of_nat g' mod 2) false = Ok s' /\ QuicEpochP.Inv h kl G s' g' gs /\
             exists gens, qs_app s' = Some gens /\ nth_error gens (Z.to_nat (qs_epoch_client s')) = Some (G g').
Proof. exact client_packet. Qed.
Theorem C02_key_phase_server : forall C h kl G, (forall n, key_update C (G n) h kl = Ok (G (S n))) ->
  forall s gc gs g', QuicEpochP.Inv h kl G s gc gs -> (g' = gs \/ g' = S gs) ->
  exists s', check_key_epoch C s (Z.of_nat g' mod 2) true = Ok s' /\ QuicEpochP.Inv h kl G s' gc g' /\
             exists gens, qs_app s' = Some gens /\ nth_error gens (Z.to_nat (qs_epoch_server s')) = Some (G g').
Proof. exact server_packet. Qed.
Print Assumptions C02_key_phase_client.
Print Assumptions C02_key_phase_server.

(* CRYPTO-frame ordering: a handshake flight cut into non-empty CRYPTO frames at any points (ds = the pieces in stream order), the
   frames captured in ANY order (any permutation), with any distinct object identities: after the last one the reassembly buffer of
   the stream holds exactly the flight and nothing is left waiting.  feed is the reassembly step of QuicTlsSession.update_session
   (sort by offset; consume every frame that continues the stream), after which handle_buffer reads the buffer. *)
Theorem C02_crypto_frames_any_order : forall ds, Forall (fun d => d <> []) ds -> forall ident, (forall i j : nat, ident i = ident j -> i = j) ->
  forall order, Permutation order (seq 0 (length ds)) ->
  let s := fold_left (fun s j => feed s (fr ds ident j)) order cs0 in
  cs_buffer s = concat ds /\ cs_frames s = [] /\ cs_offset s = len (concat ds).
Proof. exact any_order. Qed.
Print Assumptions C02_crypto_frames_any_order.

(* non-vacuity: two datagrams at different times, the first with a CRYPTO frame only, the second with two STREAM frames *)
Example C02_example :
  let runs := [ {| r_ts := (10, 1); r_srv := false; r_items := [(OCrypto, [1; 2])] |};
                {| r_ts := (20, 2); r_srv := true; r_items := [(OStream, [7]); (OCrypto, [9]); (OStream, [8; 8])] |} ] in
  NoDup (map tsid runs) /\
  filter nonempty (quic_build false (flat_map run_frames runs)) = [ {| od_ts := 20; od_isserver := true; od_payload := [7; 8; 8] |} ] /\
  filter nonempty (quic_build true (flat_map run_frames runs)) =
    [ {| od_ts := 10; od_isserver := false; od_payload := [1; 2] |}; {| od_ts := 20; od_isserver := true; od_payload := [7; 9; 8; 8] |} ].
Proof. cbn. repeat split; try reflexivity. repeat constructor; cbn; intuition discriminate. Qed.
