(* Property C14 -- nothing but the statement, closed by the lemma, and its assumptions. *)
From Coq Require Import ZArith List.
Require Import SuiteTypes SuiteParser Iana SuiteTable C14P.
Open Scope Z_scope.

Theorem C14 : forall c, 0 <= c < 65536 ->
  match split_cipher_suite table parts c with
  | Some p => resolves_as_iana c p
  | None => ~ In c (map fst table)
  end.
Proof. exact c14_all_code_points. Qed.
Print Assumptions C14.

Theorem C14_keys_distinct : NoDup (map fst table).
Proof. exact keys_nodup. Qed.
Print Assumptions C14_keys_distinct.

Theorem C14_suites_known : forall c p, split_cipher_suite table parts c = Some p ->
  s_algo p <> None /\ s_keylen p <> None.
Proof. exact table_suites_known. Qed.
Print Assumptions C14_suites_known.
