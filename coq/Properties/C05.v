(* Property C05 -- statements only.  (a) any segmentation, (b) any retransmitted duplicates, and any interleaving of the two
   directions deliver to the record handler exactly the records of each endpoint's byte stream -- (d) from any initial sequence
   number, the stream running across 2^32 included.  (c) reordering: C05_reordering (any arrival order
   that keeps the direction's first data segment first; the other arrival orders are the open finding first-segment-displaced). *)
From Coq Require Import ZArith List Bool.
From Coq Require String.
From Coq Require Import Permutation.
Require Import PyLib SuiteTypes Crypto KeySchedule Packet Reassembly Decryptor TlsSession ReasmP SessionP C05P ReorderP.
Import ListNotations.
Open Scope Z_scope.

(* per direction: chunks = the stream cut anywhere into non-empty segments with consecutive sequence numbers MODULO 2^32, from any
   initial sequence number (in_order isn: the k-th segment carries (isn + offset) mod 2^32; the stream is shorter than 2^31 bytes);
   arrivals = chunks with copies of already-seen segments inserted anywhere; R = the records (each well framed) *)
Theorem C05_segmentation_and_duplicates : forall isn chunks arrivals R,
  in_order isn chunks -> len (data chunks) < 2147483648 -> with_dups chunks arrivals -> Forall wf_rec R -> data chunks = concat R ->
  exists n' recs, feed None [] (snd (fold_left accept arrivals ([], []))) = Ok (n', [], recs) /\ map r_raw recs = R.
Proof. exact segmentation_and_duplicates_deliver. Qed.
Print Assumptions C05_segmentation_and_duplicates.

(* the session object's duplicate memory is that `accept`, separately per direction *)
Theorem C05_session_dedupe : forall ps s d,
  (seen (fold_left session_handle_packet ps s) d, dirs s d (ts_packet_buffer (fold_left session_handle_packet ps s))) =
  fold_left accept (dirs s d ps) (seen s d, dirs s d (ts_packet_buffer s)).
Proof. exact session_buffer_is_accept. Qed.
Print Assumptions C05_session_dedupe.

(* decrypt(): the handler is handed exactly the extraction trace, in order ... *)
Theorem C05_handler_sees_trace : forall C tbl parts keylog sip sport ps st st',
  get_tls_records C tbl parts keylog sip sport st ps = Ok st' ->
  exists tr em, gtr_trace sip sport (xof st) ps = Ok (xof st', tr) /\
             handle_trace C tbl parts keylog (rs_core st) tr = Ok (rs_core st', em) /\ rs_traffic st' = rs_traffic st ++ em.
Proof. exact gtr_is_trace. Qed.
Print Assumptions C05_handler_sees_trace.

(* ... and each direction's part of the trace is what that direction's packets alone produce: interleaving is irrelevant *)
Theorem C05_directions_independent : forall sip sport ps x x' tr, gtr_trace sip sport x ps = Ok (x', tr) ->
  feed (x_sn x) (x_sb x) (dir sip sport true ps) = Ok (x_sn x', x_sb x', side true tr) /\
  feed (x_cn x) (x_cb x) (dir sip sport false ps) = Ok (x_cn x', x_cb x', side false tr).
Proof. exact trace_per_direction. Qed.
Print Assumptions C05_directions_independent.

(* (c) the segments of one direction captured in ANY order -- `order` is any permutation of the segment indices whose first element
   is 0, i.e. the direction's first data segment is also captured first -- deliver exactly the records of the stream, in order, and
   leave nothing buffered.  (With another segment captured first the implementation anchors the stream on that segment: the open
   finding first-segment-displaced.) *)
Theorem C05_reordering : forall isn chunks dummy R order,
  in_order isn chunks -> len (data chunks) < 2147483648 -> Forall wf_rec R -> data chunks = concat R ->
  Permutation order (seq 0 (length chunks)) -> match order with [] => True | j :: _ => j = 0%nat end ->
  exists n' recs, feed None [] (map (fun i => nth i chunks dummy) order) = Ok (n', [], recs) /\ map r_raw recs = R.
Proof. intros isn chunks dummy R order Ho Hl HR Hd HP Hf. exact (reordered_delivers chunks isn Ho Hl dummy R order HR Hd HP Hf). Qed.
Print Assumptions C05_reordering.

(* every capture schedule at once, safety half: the arrivals are ANY sequence drawn from the direction's segments -- any of them lost,
   any of them captured any number of times, in any order; only the direction's first data segment is captured first (otherwise: the
   open finding first-segment-displaced).  After the session's duplicate memory (accept: C05_session_dedupe) the reassembly releases
   a beginning of the records sent, byte-exact and in order: no schedule makes it release anything else.  (That everything is
   released when nothing is lost is C05_reordering / C05_segmentation_and_duplicates.) *)
Theorem C05_any_arrivals_release_a_prefix : forall isn chunks dummy R arr,
  in_order isn chunks -> len (data chunks) < 2147483648 -> Forall wf_rec R -> data chunks = concat R ->
  Forall (fun i => (i < length chunks)%nat) arr -> match arr with [] => True | j :: _ => j = 0%nat end ->
  exists n' buf recs R2, feed None [] (snd (fold_left accept (map (fun i => nth i chunks dummy) arr) ([], []))) = Ok (n', buf, recs) /\
                         R = map r_raw recs ++ R2.
Proof. intros isn chunks dummy R arr Ho Hl HR Hd Hb Hf. exact (any_arrivals_prefix chunks isn Ho Hl dummy R arr HR Hd Hb Hf). Qed.
Print Assumptions C05_any_arrivals_release_a_prefix.
