(* Property C05 -- statements only.  (a) any segmentation, (b) any retransmitted duplicates, and any interleaving of the two
   directions deliver to the record handler exactly the records of each endpoint's byte stream.  Reordering (c) and
   sequence-number wrap (d) are NOT theorems of the current code: see known_findings.json and DESIGN.md. *)
From Coq Require Import ZArith List Bool.
From Coq Require String.
Require Import PyLib SuiteTypes Crypto KeySchedule Packet Reassembly Decryptor TlsSession ReasmP SessionP C05P.
Import ListNotations.
Open Scope Z_scope.

(* per direction: chunks = the stream cut anywhere into non-empty segments with consecutive sequence numbers;
   arrivals = chunks with copies of already-seen segments inserted anywhere; R = the records (each well framed) *)
Theorem C05_segmentation_and_duplicates : forall isn chunks arrivals R,
  in_order isn chunks -> with_dups chunks arrivals -> Forall wf_rec R -> data chunks = concat R ->
  exists recs, feed [] (snd (fold_left accept arrivals ([], []))) = Ok ([], recs) /\ map r_raw recs = R.
Proof. exact segmentation_and_duplicates_deliver. Qed.
Print Assumptions C05_segmentation_and_duplicates.

(* the session object's duplicate memory is that `accept`, separately per direction *)
Theorem C05_session_dedupe : forall ps s d,
  (seen (fold_left session_handle_packet ps s) d, dirs s d (ts_packet_buffer (fold_left session_handle_packet ps s))) =
  fold_left accept (dirs s d ps) (seen s d, dirs s d (ts_packet_buffer s)).
Proof. exact session_buffer_is_accept. Qed.
Print Assumptions C05_session_dedupe.

(* decrypt(): the handler is handed exactly the extraction trace, in order ... *)
Theorem C05_handler_sees_trace : forall C tbl parts keylog sip sport ps st st',
  get_tls_records C tbl parts keylog sip sport st ps = Ok st' ->
  exists tr em, gtr_trace sip sport (rs_server_pbuf st) (rs_client_pbuf st) ps = Ok (rs_server_pbuf st', rs_client_pbuf st', tr) /\
             handle_trace C tbl parts keylog (rs_core st) tr = Ok (rs_core st', em) /\ rs_traffic st' = rs_traffic st ++ em.
Proof. exact gtr_is_trace. Qed.
Print Assumptions C05_handler_sees_trace.

(* ... and each direction's part of the trace is what that direction's packets alone produce: interleaving is irrelevant *)
Theorem C05_directions_independent : forall sip sport ps sb cb sb' cb' tr, gtr_trace sip sport sb cb ps = Ok (sb', cb', tr) ->
  feed sb (dir sip sport true ps) = Ok (sb', side true tr) /\ feed cb (dir sip sport false ps) = Ok (cb', side false tr).
Proof. exact trace_per_direction. Qed.
Print Assumptions C05_directions_independent.
