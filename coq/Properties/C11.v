(* Property C11 -- statements only: the check on one packet (C11_tcp, C11_udp) and the -c filter equation over whole captures (C11_filter). *)
From Coq Require Import ZArith List Lia.
Require Import PyLib Crypto Packet Checksum Rfc1071 Main C11P C11FilterP.
From Coq Require Import List Bool.
Open Scope Z_scope.

(* TCP: checksum field at offset 16 of the segment; UDP: at offset 6.  The IPv6 pseudo-header names the upper-layer protocol (6, 17:
   RFC 8200 8.1) whatever extension headers the packet carries; the IPv4 one the header's protocol field.  For every well-formed abstract packet, of any
   length and with any bytes, the check answers exactly "the RFC 1071 sum including the checksum field is all ones". *)
Theorem C11_tcp : forall p, wf_pkt 16 p -> calculate_checksum_tcp p = Ok (checksum_valid (spec_pseudo 6 p) (seg p)).
Proof. intros p W. apply check_is_rfc1071; [exact W|lia|reflexivity|lia]. Qed.
Print Assumptions C11_tcp.

Theorem C11_udp : forall p, wf_pkt 6 p -> calculate_checksum_udp p = Ok (checksum_valid (spec_pseudo 17 p) (seg p)).
Proof. intros p W. apply check_is_rfc1071; [exact W|lia|reflexivity|lia]. Qed.
Print Assumptions C11_udp.

(* The capture level.  With -c the run -- reading, decrypting, building the output -- on a capture equals the run without -c on the
   capture from which the TCP and UDP packets that fail the check have been removed (`passes`: an empty payload is never checked);
   decryption-secrets blocks and all other packets are untouched.  `answers`: the check returns a verdict, which it does for every
   well-formed packet (C11_answers, from C11_tcp / C11_udp). *)
Theorem C11_filter : forall C tbl parts o ftable kl items, opt_checksum o = true -> Forall answers items ->
  run C tbl parts o ftable kl items = run C tbl parts (without_c o) ftable kl (filter passes items).
Proof. exact checksum_filter_run. Qed.
Print Assumptions C11_filter.

Theorem C11_answers : forall p, match p_kind p with L4Tcp => wf_pkt 16 (l4pkt_of p) | L4Udp => wf_pkt 6 (l4pkt_of p) | L4Other => True end -> answers (IPacket p).
Proof. exact wf_answers. Qed.
Print Assumptions C11_answers.
