(* Property C11 -- statements only (function level; the -c filter equation over whole captures is C11_filter in Properties/C11Filter.v). *)
From Coq Require Import ZArith List Lia.
Require Import PyLib Checksum Rfc1071 C11P.
Open Scope Z_scope.

(* TCP: checksum field at offset 16 of the segment; UDP: at offset 6.  The IPv6 pseudo-header names the upper-layer protocol (6, 17:
   RFC 8200 8.1) whatever extension headers the packet carries; the IPv4 one the header's protocol field.  For every well-formed abstract packet, of any
   length and with any bytes, the check answers exactly "the RFC 1071 sum including the checksum field is all ones". *)
Theorem C11_tcp : forall p, wf_pkt 16 p -> calculate_checksum_tcp p = Ok (checksum_valid (spec_pseudo 6 p) (seg p)).
Proof. intros p W. apply check_is_rfc1071; [exact W|lia|reflexivity|lia]. Qed.
Print Assumptions C11_tcp.

Theorem C11_udp : forall p, wf_pkt 6 p -> calculate_checksum_udp p = Ok (checksum_valid (spec_pseudo 17 p) (seg p)).
Proof. intros p W. apply check_is_rfc1071; [exact W|lia|reflexivity|lia]. Qed.
Print Assumptions C11_udp.
