(* Property C18 (the export is a deterministic function of capture, secrets and options) -- statements only.
   The model of run() IS a function of exactly these three inputs and starts from the empty state (no sessions, no keys beyond the
   file's, the default ports): that the implementation behaves like this function on every run -- whatever the hash seed, the
   working directory, the environment or an earlier run in the same process -- is what the correspondence and the repetition
   sweep of the check decide.  What can be proved is that the one place where Python iterates over a set whose order depends on
   the hash seed (the connection IDs of a QUIC session) is insensitive to that order. *)
From Coq Require Import ZArith List Bool Permutation.
Require Import PyLib Main C18P.
Import ListNotations.
Open Scope Z_scope.

(* sorted(cids, key=(-len, bytes)): any enumeration order of the same set gives the same scan order *)
Theorem C18_cid_scan_independent_of_set_order : forall l1 l2, Permutation l1 l2 -> scan_order l1 = scan_order l2.
Proof. exact scan_order_perm. Qed.
Print Assumptions C18_cid_scan_independent_of_set_order.

(* membership tests (dcid in client_cids / server_cids) too *)
Theorem C18_membership_independent_of_set_order : forall x l1 l2, Permutation l1 l2 -> mem_bytes x l1 = mem_bytes x l2.
Proof. exact mem_bytes_perm. Qed.
Print Assumptions C18_membership_independent_of_set_order.

(* the order is total: two different IDs are never "equal" for the sort, so sorted() has exactly one result *)
Theorem C18_scan_order_total : forall a b, cid_before a b = false -> cid_before b a = false -> a = b.
Proof. exact before_total. Qed.
Print Assumptions C18_scan_order_total.

Example C18_example : scan_order [[1; 2]; []; [9]; [1; 1]; [7; 7; 7]] = scan_order [[9]; [7; 7; 7]; [1; 1]; []; [1; 2]] /\
                      scan_order [[1; 2]; []; [9]; [1; 1]; [7; 7; 7]] = [[7; 7; 7]; [1; 1]; [1; 2]; [9]].
Proof. vm_compute. split; reflexivity. Qed.
