(* Property C06 (the output file's packets) -- statements only: TCP conversation and segments, UDP datagrams, IPv4 and IPv6 headers, and the container. *)
From Coq Require Import ZArith List Bool.
Require Import PyLib Checksum Rfc1071 C11P Packet Reassembly TlsSession OutputBuilder Frames Reader BuilderP FramesP FramesUdpP PcapngWriter PcapngSpec PcapngReader C12P WriterP BuilderTotalP.
Import ListNotations.
Open Scope Z_scope.

(* the exported conversation opens with SYN, SYN-ACK, ACK and carries its data in gap-free, non-overlapping sequence space with
   consistent acknowledgements: a standard reassembler recovers exactly the exported streams *)
Theorem C06_conversation : forall t segs, t <> [] -> has_meta t -> build t = Ok segs ->
  std_reassemble segs = Some (side_stream false t, side_stream true t).
Proof. exact build_reassembles. Qed.
Print Assumptions C06_conversation.

(* ... with the premises discharged for what a session exports: the records a session is handed have carriers (C03_records_have_carriers),
   every exported entry carries its record, so the builder succeeds and the conversation reads back as the two exported streams *)
Theorem C06_session_conversation : forall C tbl parts keylog rs s s' out, out <> [] -> Forall (fun x : bool * tls_record => r_meta (snd x) <> []) rs ->
  C01SessionP.session_run C tbl parts keylog s rs = Ok (s', out) ->
  exists segs, build out = Ok segs /\ std_reassemble segs = Some (side_stream false out, side_stream true out).
Proof. exact session_conversation. Qed.
Print Assumptions C06_session_conversation.

(* a record of n bytes carried by k input packets is re-split into at most k segments whose concatenation is the record *)
Theorem C06_splitting : forall d k parts, 1 <= k -> split_parts d k = Ok parts -> concat parts = d /\ (length parts <= Z.to_nat k)%nat.
Proof. exact split_parts_spec. Qed.
Print Assumptions C06_splitting.

(* every TCP segment written (field values in range) has the right length and a checksum that verifies against its pseudo-header *)
Theorem C06_tcp_checksum : forall src dst sport dport seq ack flags payload,
  ip_ok src dst -> bytes_ok payload -> 0 <= flags < 256 -> len payload < 65516 ->
  0 <= sport < 65536 -> 0 <= dport < 65536 -> 0 <= seq < 4294967296 -> 0 <= ack < 4294967296 ->
  exists sg, tcp_segment src dst sport dport seq ack flags payload = Ok sg /\ len sg = 20 + len payload /\
             checksum_valid (spec_pseudo' src dst 6 (len sg)) sg = true.
Proof. exact tcp_segment_valid. Qed.
Print Assumptions C06_tcp_checksum.

(* every IPv4 header written has a verifying header checksum and the total length of what follows *)
Theorem C06_ipv4_header : forall src dst proto payload, bytes_ok src -> bytes_ok dst -> len src = 4 -> len dst = 4 -> 0 <= proto < 256 ->
  len payload < 65516 ->
  exists hdr, ipv4 src dst proto payload = Ok (hdr ++ payload) /\ len hdr = 20 /\ oc_sum (words hdr) = 65535 /\
              slice hdr 2 4 = to_be_total (20 + len payload) 2.
Proof. exact ipv4_valid. Qed.
Print Assumptions C06_ipv4_header.

(* every UDP datagram written for a QUIC export (field values in range): ports, length field and payload in place, and a checksum
   that verifies against the pseudo-header of its address family -- also when the computed checksum is 0 and 0xFFFF is written *)
Theorem C06_udp_datagram : forall src dst sport dport payload,
  ip_ok src dst -> bytes_ok payload -> len payload < 65528 -> 0 <= sport < 65536 -> 0 <= dport < 65536 ->
  exists dg, udp_datagram src dst sport dport payload = Ok dg /\ len dg = 8 + len payload /\
             slice dg 0 2 = to_be_total sport 2 /\ slice dg 2 4 = to_be_total dport 2 /\ slice dg 4 6 = to_be_total (8 + len payload) 2 /\
             slice_from dg 8 = payload /\
             checksum_valid (spec_pseudo' src dst 17 (len dg)) dg = true.
Proof. exact udp_datagram_valid. Qed.
Print Assumptions C06_udp_datagram.

(* the IPv6 header written: version 6, payload length, next header, hop limit 64, addresses, then the payload *)
Theorem C06_ipv6_header : forall src dst nxt payload, len payload < 65536 ->
  ipv6 src dst nxt payload = Ok ([0x60; 0; 0; 0] ++ to_be_total (len payload) 2 ++ [nxt; 64] ++ src ++ dst ++ payload).
Proof. exact ipv6_valid. Qed.
Print Assumptions C06_ipv6_header.

(* the container: the file written is a pcapng section as the standard's serialiser (Spec/PcapngSpec.v) produces it -- little-endian,
   one Ethernet interface with snap length 20000 and no options, one Enhanced Packet Block per packet (time stamps below 2^64 us,
   packets below 4 GiB) ... *)
Theorem C06_output_is_pcapng : forall pkts, Forall pkt_fits pkts -> write_file pkts = ser true (as_capture pkts).
Proof. exact write_is_pcapng. Qed.
Print Assumptions C06_output_is_pcapng.

(* ... and therefore the reader of C12 (TLExport's own) reads it back to exactly the packets written with their microsecond time stamps *)
Theorem C06_output_reads_back : forall pkts, Forall pkt_fits pkts ->
  parse_file (write_file pkts) = Ok ({| ts_base := 10; ts_exp := 6; ts_offset := 0 |}, map (fun p => RPkt (fst p) (snd p)) pkts).
Proof. exact written_file_reads_back. Qed.
Print Assumptions C06_output_reads_back.
