(* Property C15 -- statements only.  C ranges over every instance of the crypto primitives; no law is assumed. *)
From Coq Require Import ZArith List.
Require Import PyLib SuiteTypes Crypto KeySchedule QuicKeys Iana RfcKeys C15P KdfConsts ConstsP.
Import ListNotations.
Open Scope Z_scope.

(* TLS 1.2 (SHA-256 or SHA-384 PRF): MAC keys, keys and -- wherever the RFC defines a non-empty one -- IVs installed from a
   CLIENT_RANDOM line are the RFC 5246 6.3 partition of PRF(master_secret, "key expansion", server_random + client_random) *)
Theorem C15_tls12 : forall C cs d sec rest cr sr ms ks,
  agrees cs d = true -> valid_denotation d -> s_label sec = LClientRandom -> s_value sec = Some ms ->
  derive_session_keys C TLS12 cs (sec :: rest) cr sr = Ok (K12 ks) ->
  exists kb, is_key_block C R_TLS12 (rfc_prf_hash d) ms cr sr (2 * rfc_mac_len d + 2 * d_keylen d + 2 * rfc_iv_len R_TLS12 d) kb /\
             keys_are_parts ks kb (rfc_mac_len d) (d_keylen d) (rfc_iv_len R_TLS12 d).
Proof. exact tls12_keys_are_rfc. Qed.
Print Assumptions C15_tls12.

Theorem C15_tls10_11 : forall C v rv cs d sec rest cr sr ms ks,
  (v = TLS10 /\ rv = R_TLS10) \/ (v = TLS11 /\ rv = R_TLS11) ->
  agrees cs d = true -> valid_denotation d -> d_aead d = false -> Z.even (len ms) = true ->
  s_label sec = LClientRandom -> s_value sec = Some ms ->
  derive_session_keys C v cs (sec :: rest) cr sr = Ok (K12 ks) ->
  exists kb, is_key_block C rv (rfc_prf_hash d) ms cr sr (2 * rfc_mac_len d + 2 * d_keylen d + 2 * rfc_iv_len rv d) kb /\
             keys_are_parts ks kb (rfc_mac_len d) (d_keylen d) (rfc_iv_len rv d).
Proof. exact tls10_11_keys_are_rfc. Qed.
Print Assumptions C15_tls10_11.

Theorem C15_ssl30 : forall C cs d sec rest cr sr ms ks,
  agrees cs d = true -> valid_denotation d -> d_aead d = false -> s_label sec = LClientRandom -> s_value sec = Some ms ->
  derive_session_keys C SSL30 cs (sec :: rest) cr sr = Ok (K12 ks) ->
  exists kb, is_key_block C R_SSL30 (rfc_prf_hash d) ms cr sr (2 * rfc_mac_len d + 2 * d_keylen d + 2 * rfc_iv_len R_SSL30 d) kb /\
             keys_are_parts ks kb (rfc_mac_len d) (d_keylen d) (rfc_iv_len R_SSL30 d).
Proof. exact ssl30_keys_are_rfc. Qed.
Print Assumptions C15_ssl30.

(* "the first n bytes of P_hash" is one value: the existential above pins the key block down *)
Theorem C15_p_hash_unique : forall C h secret seed n a b, 0 <= n ->
  is_p_hash C h secret seed n a -> is_p_hash C h secret seed n b -> a = b.
Proof. exact is_p_hash_unique. Qed.
Print Assumptions C15_p_hash_unique.

(* TLS 1.3: every installed key / iv is HKDF-Expand-Label(secret, "key" / "iv", "", length) of the last line with that label *)
Theorem C15_tls13 : forall C l kl h, 0 <= kl < 65536 -> forall k, dev_tls_13_keys C l kl h = Ok k ->
  forall L, relevant L ->
  match last_of L l with
  | None => field13 L k = (None, None)
  | Some s => exists key iv, tls13_derive C h kl s = Ok (key, iv) /\ field13 L k = (Some key, Some iv)
  end.
Proof. exact tls13_keys_are_rfc. Qed.
Print Assumptions C15_tls13.

(* QUIC v1: Initial keys from the v1 salt and the client's first DCID (any length); key update = "quic ku", hp unchanged *)
Theorem C15_quic_initial : forall C dcid ks, dev_initial_keys C dcid QV1 false = Ok (Some ks) ->
  let init := c_hkdf_extract C SHA256 quic_v1_salt dcid in
  exists csec ssec, expand_label C SHA256 init q_client_in 32 = Ok csec /\ expand_label C SHA256 init q_server_in 32 = Ok ssec /\
    expand_label C SHA256 csec q_key 16 = Ok (ci_key ks) /\ expand_label C SHA256 csec q_iv 12 = Ok (ci_iv ks) /\
    expand_label C SHA256 csec q_hp 16 = Ok (ci_hp ks) /\
    expand_label C SHA256 ssec q_key 16 = Ok (si_key ks) /\ expand_label C SHA256 ssec q_iv 12 = Ok (si_iv ks) /\
    expand_label C SHA256 ssec q_hp 16 = Ok (si_hp ks).
Proof. exact quic_initial_is_rfc. Qed.
Print Assumptions C15_quic_initial.

Theorem C15_quic_key_update : forall C g h kl g', 0 <= kl < 65536 -> key_update C g h kl = Ok g' ->
  expand_label C h (g_ssec g) q_ku (digest_size h) = Ok (g_ssec g') /\ expand_label C h (g_csec g) q_ku (digest_size h) = Ok (g_csec g') /\
  expand_label C h (g_ssec g') q_key kl = Ok (g_skey g') /\ expand_label C h (g_ssec g') q_iv 12 = Ok (g_siv g') /\
  expand_label C h (g_csec g') q_key kl = Ok (g_ckey g') /\ expand_label C h (g_csec g') q_iv 12 = Ok (g_civ g').
Proof. exact quic_ku_is_rfc. Qed.
Print Assumptions C15_quic_key_update.

(* the labels, salts and length bytes in the source (regenerated on every run) are the ones the model was written with *)
Theorem C15_source_constants :
  nth 0 kd_dev_tls_12_keys [] = key_expansion /\ nth 0 kd_dev_tls_10_11_keys [] = key_expansion /\
  kd_gen_master_secret_tls_10_11 = [master_secret_label] /\ kd_gen_master_secret_tls_12 = [master_secret_label] /\
  kd_gen_master_secret_ssl_30 = [] /\
  firstn 8 kd_dev_tls_13_keys = [b_big; [0; 12]; tls13_key_label; tls13_iv_label; [8]; [9]; [0]; [0]] /\
  nth 1 kd_prf_ssl_30 [] = map (fun i => 64 + Z.of_nat i) (seq 1 10) /\
  firstn 6 qk_dev_quic_keys = [b_quic_key; b_quic_iv; b_quic_hp; b_quicv2_key; b_quicv2_iv; b_quicv2_hp] /\
  firstn 10 qk_dev_initial_keys = [salt_v1; salt_v2; b_client_in; b_server_in; b_quic_key; b_quic_iv; b_quic_hp; b_quicv2_key; b_quicv2_iv; b_quicv2_hp] /\
  firstn 3 qk_key_update = [b_quic_key; b_quic_iv; b_quic_ku] /\
  qk_make_info = [b_big; b_big; b_tls13_; [0]].
Proof. exact kdf_constants_match. Qed.
Print Assumptions C15_source_constants.
