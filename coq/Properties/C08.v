(* Property C08 -- statements only: TLS over TCP (C08_tls ...) and QUIC (C08_quic ...). *)
From Coq Require Import ZArith List Bool.
From Coq Require String.
Require Import PyLib SuiteTypes Crypto KeySchedule Packet Reassembly Decryptor TlsSession OutputBuilder Frames Main SessionP C08P QuicAppendP QuicIdP QuicCutP QuicBuildCutP.
Import ListNotations.
Open Scope Z_scope.

(* Cut the capture after any item (no decryption-secrets block after the cut: the key log is given by file or by blocks
   inside the cut part).  Every session of the cut run is a session of the full run (same position), and what it exports --
   the synthetic segments, hence each direction's byte stream -- is a prefix of what the full run exports for it.
   Holds for every crypto instance and every capture, decryptable or not. *)
Theorem C08_tls : forall C tbl parts o keylog0 items1 items2 m2,
  no_dsb items2 ->
  fold_left (read_item_tls o) (items1 ++ items2) (Ok {| m_sessions := []; m_keylog := keylog0 |}) = Ok m2 ->
  exists m1, fold_left (read_item_tls o) items1 (Ok {| m_sessions := []; m_keylog := keylog0 |}) = Ok m1 /\
    m_keylog m2 = m_keylog m1 /\
    exists l' extra, m_sessions m2 = l' ++ extra /\
      Forall2 (fun s1 s => forall segs2, session_segments C tbl parts o (m_keylog m2) s = Ok segs2 ->
                 exists segs1, session_segments C tbl parts o (m_keylog m1) s1 = Ok segs1 /\ prefix segs1 segs2 /\
                               forall d, prefix (stream d segs1) (stream d segs2))
              (m_sessions m1) l'.
Proof. exact capture_cut_sessions. Qed.
Print Assumptions C08_tls.

(* the two folds underneath: records of a prefix of the buffered packets are handled first and what they export stays;
   the builder only appends *)
Theorem C08_session_fold : forall C tbl parts keylog sip sport s ps1 ps2 s2,
  get_tls_records C tbl parts keylog sip sport s (ps1 ++ ps2) = Ok s2 ->
  exists s1, get_tls_records C tbl parts keylog sip sport s ps1 = Ok s1 /\ prefix (rs_traffic s1) (rs_traffic s2).
Proof. exact session_prefix. Qed.
Print Assumptions C08_session_fold.

Theorem C08_builder_fold : forall t1 t o2, build (t1 ++ t) = Ok o2 -> exists o1, build t1 = Ok o1 /\ prefix o1 o2.
Proof. exact build_prefix. Qed.
Print Assumptions C08_builder_fold.

(* QUIC: a session processes datagrams as they are read; whatever a datagram does to the session, the frames collected so far for the
   export stay where they are and new ones are only added behind them (the output buffer of the cut capture is a prefix of the
   output buffer of the full capture; the datagrams built from it follow by C02_one_output_per_input_datagram when capture times differ) *)
Theorem C08_quic_session_appends : forall C keylog ftable s p dcid ver s',
  QuicSession.quic_handle_packet C keylog ftable s p dcid ver = Ok s' -> prefix (QuicSession.qs_output s) (QuicSession.qs_output s').
Proof. exact QuicAppendP.quic_session_appends. Qed.
Print Assumptions C08_quic_session_appends.

(* QUIC, the whole run: cut the capture after any item (TLS and QUIC traffic mixed, decryption-secrets blocks anywhere).  The run of
   the cut capture succeeds whenever the full run does; every QUIC session of the cut run is a session of the full run at the same
   position of the session list, with the same identity (addresses, hardware addresses, IP version); the frames it has collected
   are a prefix of those the full run collects for it; and so is, per direction, with and without -a, the byte stream of the
   datagrams built from them: extending a capture never retracts or alters what was exportable. *)
Theorem C08_quic : forall C o ftable init items1 items2 g2,
  fold_left (read_item C o ftable) (items1 ++ items2) (Ok init) = Ok g2 ->
  exists g1, fold_left (read_item C o ftable) items1 (Ok init) = Ok g1 /\
    exists l extra, g_quic g2 = l ++ extra /\
      Forall2 (fun s1 s2 => qid s2 = qid s1 /\ prefix (QuicSession.qs_output s1) (QuicSession.qs_output s2) /\
                            forall meta dir, prefix (qstream meta dir s1) (qstream meta dir s2)) (g_quic g1) l.
Proof. exact quic_capture_cut. Qed.
Print Assumptions C08_quic.

(* the identity of a QUIC session never changes *)
Theorem C08_quic_session_identity : forall C keylog ftable s p dcid ver s',
  QuicSession.quic_handle_packet C keylog ftable s p dcid ver = Ok s' -> qid s' = qid s.
Proof. exact quic_session_identity. Qed.
Print Assumptions C08_quic_session_identity.

(* QUIC, the datagrams built (QUICOutputbuilder.build): from a prefix of a session's collected frames -- what the cut capture has
   collected, C08_quic -- the same datagrams are built as from all of them, except that the LAST datagram of the shorter build may
   be a beginning (same time, same direction, a prefix of the payload) of the datagram at its place in the longer build.  With or
   without -a.  (A cut falls between input datagrams; when their capture times differ the last datagram is complete too:
   C02_one_output_per_input_datagram.) *)
Theorem C08_quic_datagrams : forall meta out1 t, out1 <> [] ->
  exists init last1 last2 more,
    QuicSession.quic_build meta out1 = init ++ [last1] /\ QuicSession.quic_build meta (out1 ++ t) = init ++ [last2] ++ more /\
    QuicSession.od_ts last1 = QuicSession.od_ts last2 /\ QuicSession.od_isserver last1 = QuicSession.od_isserver last2 /\
    prefix (QuicSession.od_payload last1) (QuicSession.od_payload last2).
Proof. exact build_cut. Qed.
Print Assumptions C08_quic_datagrams.
