(* Property C04 (concurrent connections are demultiplexed; each is exported as if it were alone) -- statements only: TLS over TCP
   (C04_sessions_as_if_alone ...) and the QUIC demultiplexer (C04_quic_...: addresses first, then connection IDs). *)
From Coq Require Import ZArith List Bool.
From Coq Require String.
Require Import PyLib SuiteTypes Crypto KeySchedule Packet TlsSession Main C04P QuicIdP QuicDemuxP OwnKeysP CidP.
Import ListNotations.
Open Scope Z_scope.

(* every capture, every interleaving: the sessions that take the packets of q's flow are exactly the sessions obtained from the
   capture restricted to q's flow, packet buffers, duplicate memories and all -- no other traffic leaves a trace in them *)
Theorem C04_sessions_as_if_alone : forall o q ps kl m m',
  fold_left (read_item_tls o) (map IPacket ps) (Ok {| m_sessions := []; m_keylog := kl |}) = Ok m ->
  fold_left (read_item_tls o) (map IPacket (filter (same_flowb q) ps)) (Ok {| m_sessions := []; m_keylog := kl |}) = Ok m' ->
  proj q (m_sessions m) = m_sessions m'.
Proof. exact demux_run. Qed.
Print Assumptions C04_sessions_as_if_alone.

(* same_flowb is "same unordered pair of (address, port) endpoints" *)
Theorem C04_flow : forall q p, same_flowb q p = true <-> (addr p = addr q \/ addr p = rev (addr q)).
Proof. exact same_flowb_iff. Qed.
Print Assumptions C04_flow.

(* sessions of different flows are different sessions *)
Theorem C04_flows_disjoint : forall q1 q2 ss, ~ same_flow q1 q2 -> forall s, In s (proj q1 ss) -> ~ In s (proj q2 ss).
Proof. exact proj_disjoint. Qed.
Print Assumptions C04_flows_disjoint.

(* the output is the concatenation of the per-session outputs, in session order: each session is decrypted and built on its own *)
Theorem C04_output_is_union : forall C tbl parts o keylog a b,
  decrypt_all C tbl parts o keylog (a ++ b) =
  (do x <- decrypt_all C tbl parts o keylog a; do y <- decrypt_all C tbl parts o keylog b; Ok (x ++ y)).
Proof. exact decrypt_all_app. Qed.
Print Assumptions C04_output_is_union.

(* QUIC.  For any datagram q: the sessions of q's flow (the sessions on q's pair of socket addresses) after reading any capture of
   datagrams, interleaved in any order, are exactly the sessions obtained by reading only the datagrams of that flow -- keys,
   connection IDs, packet numbers, collected frames and all; no other traffic leaves a trace in them.
   Hypothesis `respects_run`: whenever a datagram reaches the connection-ID pass (no session has its addresses) and a session
   knows its connection ID, that session and the datagram are both outside q's flow.  (A session on OTHER addresses claiming a
   datagram by connection ID is QUIC connection migration: the two address pairs are then one connection, and "as if alone" is
   not what the property asks for them.) *)
Theorem C04_quic_sessions_as_if_alone : forall C o ftable kl q ps ss ss1,
  respects_run C o ftable kl q ss ps -> qrun C o ftable kl ss ps = Ok ss1 ->
  qrun C o ftable kl (qproj q ss) (filter (same_flowb q) ps) = Ok (qproj q ss1).
Proof. exact quic_demux_run. Qed.
Print Assumptions C04_quic_sessions_as_if_alone.

(* the hypothesis holds in particular when no datagram that lacks a session on its addresses carries a connection ID known to a session *)
Theorem C04_quic_hypothesis_met : forall q ss p,
  (forall long, QuicDissector.get_header_type_long (p_data p) = Ok long -> (forall t, In t ss -> QuicSession.matches_session_dgram t p = false) ->
     forall s, In s ss -> known_cid s p long (hdr_dcid p long) = None) -> respects q ss p.
Proof. exact respects_when_no_cid_hit. Qed.
Print Assumptions C04_quic_hypothesis_met.

(* a zero-length connection ID identifies nothing: the connection ID by which a session claims a datagram (long or short header, from
   any address) is never empty, and is one the session knows.  So sessions whose peers use zero-length connection IDs only -- what
   browsers do on the client side -- are found by their addresses alone, and the hypothesis above holds for every datagram. *)
Theorem C04_zero_length_cid_identifies_nothing : forall s p long dcid c, known_cid s p long dcid = Some c ->
  0 < len c /\ (In c (QuicSession.qs_client_cids s) \/ In c (QuicSession.qs_server_cids s)).
Proof. exact known_cid_nonempty. Qed.
Print Assumptions C04_zero_length_cid_identifies_nothing.

Theorem C04_quic_empty_cids_respect : forall q ss p,
  (forall s, In s ss -> (forall c, In c (QuicSession.qs_client_cids s) -> c = []) /\ (forall c, In c (QuicSession.qs_server_cids s) -> c = [])) -> respects q ss p.
Proof.
  intros q ss p H. apply respects_when_no_cid_hit. intros long _ _ s Hs. destruct (H s Hs) as [Hc Hv]. exact (only_empty_cids_claim_nothing s p long _ Hc Hv).
Qed.
Print Assumptions C04_quic_empty_cids_respect.

(* unrelated traffic: a short-header datagram (a 1-RTT packet of a connection the capture does not know, or anything that looks like
   one) whose addresses are no session's and which no session claims by a connection ID leaves every session exactly as it was --
   it opens no session and reaches none; next to sessions with zero-length connection IDs only the addresses count *)
Theorem C04_stray_short_header_dropped : forall C o ftable kl ss p, QuicDissector.get_header_type_long (p_data p) = Ok false ->
  (forall s, In s ss -> QuicSession.matches_session_dgram s p = false) -> (forall s, In s ss -> known_cid s p false [] = None) ->
  handle_quic_packet C o ftable kl ss p = Ok ss.
Proof. exact stray_short_header_dropped. Qed.
Print Assumptions C04_stray_short_header_dropped.

Theorem C04_stray_short_header_dropped_empty_cids : forall C o ftable kl ss p, QuicDissector.get_header_type_long (p_data p) = Ok false ->
  (forall s, In s ss -> QuicSession.matches_session_dgram s p = false) ->
  (forall s, In s ss -> (forall c, In c (QuicSession.qs_client_cids s) -> c = []) /\ (forall c, In c (QuicSession.qs_server_cids s) -> c = [])) ->
  handle_quic_packet C o ftable kl ss p = Ok ss.
Proof. exact stray_short_header_dropped_empty_cids. Qed.
Print Assumptions C04_stray_short_header_dropped_empty_cids.

(* one datagram: it changes at most the sessions of its own flow *)
Theorem C04_quic_one_datagram : forall C o ftable kl q p ss ss', respects q ss p -> handle_quic_packet C o ftable kl ss p = Ok ss' ->
  if same_flowb q p then handle_quic_packet C o ftable kl (qproj q ss) p = Ok (qproj q ss') else qproj q ss' = qproj q ss.
Proof. exact handle_quic_proj. Qed.
Print Assumptions C04_quic_one_datagram.

(* ---------------- the shared key log ---------------- *)
(* A session reads the key log only through the lines that carry its own client random: two key logs whose lines with that client
   random are the same -- whatever lines of other connections are added, removed or shuffled around them -- make the session handle
   every record identically (TLS) / install the same keys (QUIC).  No connection's keys ever reach another connection. *)
Theorem C04_own_keylog_lines_tls : forall C tbl parts kl1 kl2 s r srv,
  own_lines (ts_client_random s) kl1 = own_lines (ts_client_random s) kl2 ->
  handle_tls_record C tbl parts kl1 s r srv = handle_tls_record C tbl parts kl2 s r srv.
Proof. exact tls_record_own_lines. Qed.
Print Assumptions C04_own_keylog_lines_tls.

Theorem C04_own_keylog_lines_quic : forall C kl1 kl2 s cr cs, own_lines cr kl1 = own_lines cr kl2 ->
  QuicSession.set_tls_decryptors C kl1 s cr cs = QuicSession.set_tls_decryptors C kl2 s cr cs.
Proof. exact quic_keys_own_lines. Qed.
Print Assumptions C04_own_keylog_lines_quic.

(* lines of other connections inserted anywhere do not change a connection's own lines *)
Theorem C04_foreign_lines_anywhere : forall cr a foreign b, Forall (fun k => bytes_eqb (KeySchedule.s_random k) cr = false) foreign ->
  own_lines cr (a ++ foreign ++ b) = own_lines cr (a ++ b).
Proof. exact own_lines_insert. Qed.
Print Assumptions C04_foreign_lines_anywhere.
