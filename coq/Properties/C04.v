(* Property C04 (concurrent connections are demultiplexed; each is exported as if it were alone) -- statements only, TLS over TCP.
   The QUIC demultiplexer (connection IDs, then addresses) has no theorem: it is decided by the check on interleaved reference
   connections, with byte-exact correspondence of its model. *)
From Coq Require Import ZArith List Bool.
From Coq Require String.
Require Import PyLib SuiteTypes Crypto KeySchedule Packet TlsSession Main C04P.
Import ListNotations.
Open Scope Z_scope.

(* every capture, every interleaving: the sessions that take the packets of q's flow are exactly the sessions obtained from the
   capture restricted to q's flow, packet buffers, duplicate memories and all -- no other traffic leaves a trace in them *)
Theorem C04_sessions_as_if_alone : forall o q ps kl m m',
  fold_left (read_item_tls o) (map IPacket ps) (Ok {| m_sessions := []; m_keylog := kl |}) = Ok m ->
  fold_left (read_item_tls o) (map IPacket (filter (same_flowb q) ps)) (Ok {| m_sessions := []; m_keylog := kl |}) = Ok m' ->
  proj q (m_sessions m) = m_sessions m'.
Proof. exact demux_run. Qed.
Print Assumptions C04_sessions_as_if_alone.

(* same_flowb is "same unordered pair of (address, port) endpoints" *)
Theorem C04_flow : forall q p, same_flowb q p = true <-> (addr p = addr q \/ addr p = rev (addr q)).
Proof. exact same_flowb_iff. Qed.

(* sessions of different flows are different sessions *)
Theorem C04_flows_disjoint : forall q1 q2 ss, ~ same_flow q1 q2 -> forall s, In s (proj q1 ss) -> ~ In s (proj q2 ss).
Proof. exact proj_disjoint. Qed.

(* the output is the concatenation of the per-session outputs, in session order: each session is decrypted and built on its own *)
Theorem C04_output_is_union : forall C tbl parts o keylog a b,
  decrypt_all C tbl parts o keylog (a ++ b) =
  (do x <- decrypt_all C tbl parts o keylog a; do y <- decrypt_all C tbl parts o keylog b; Ok (x ++ y)).
Proof. exact decrypt_all_app. Qed.
Print Assumptions C04_output_is_union.
