(* Property C17 -- statements only: termination, no invention, and the exact split (round trip) for variable-length integers, field
   programs, frames and whole payloads. *)
From Coq Require Import ZArith List Bool Lia.
Require Import PyLib Varint QuicFrames FrameTable C17P C17RoundP C17AllP.
Import ListNotations.
Open Scope Z_scope.

(* on arbitrary bytes the parser never runs out of its (length + 1) fuel: the Python loop terminates *)
Theorem C17_terminates : forall p, bytes_ok p -> parse_frames frame_table p <> Exn OutOfFuel.
Proof. exact parse_terminates. Qed.
Print Assumptions C17_terminates.

(* whatever it returns: every frame is at least one byte long (the loop makes progress) and every data
   field of every frame is a contiguous piece of the packet -- nothing is invented *)
Theorem C17_no_invention : forall p, bytes_ok p -> forall frs, parse_frames frame_table p = Ok frs ->
  Forall (fun fr => 1 <= f_len fr /\ Forall (fun d => exists a b, d = slice p a b) (f_datas fr)) frs.
Proof. intros p Hp frs H. exact (parse_sound p Hp _ frs H). Qed.
Print Assumptions C17_no_invention.

(* the class-level constants the model hard-wires are those of the source *)
Theorem C17_class_constants : forallb const_ok class_consts = true /\ length class_consts = 19%nat.
Proof. exact class_consts_ok. Qed.
Print Assumptions C17_class_constants.

(* ---- parsed exactly ---- *)
(* RFC 9000 16: a value encoded in 1, 2, 4 or 8 bytes is read back with exactly that length *)
Theorem C17_varint_roundtrip : forall v w, wok w -> 0 <= v < 2 ^ (8 * w - 2) ->
  get_variable_length_int_length (slice (enc_var v w) 0 1) = Ok w /\ decode_variable_length_int (enc_var v w) = Ok v /\ len (enc_var v w) = w /\ bytes_ok (enc_var v w).
Proof. exact varint_roundtrip. Qed.
Print Assumptions C17_varint_roundtrip.

(* any sequence of fields that fits a class's field program (varints of any legal widths, single bytes, data of the announced or fixed
   length, data to the end of the packet as last field), anywhere in a packet: the reader returns exactly the values and consumes exactly their bytes *)
Theorem C17_fields_roundtrip : forall fs prog pre post ints datas,
  fits prog fs (last_int (len pre, ints, datas)) -> (ends_with_rest prog = true -> post = []) ->
  run_prog (pre ++ enc_fs fs ++ post) prog (len pre, ints, datas) =
  Ok (len pre + len (enc_fs fs), rev (ints_of fs) ++ ints, rev (datas_of fs) ++ datas).
Proof. exact run_prog_roundtrip. Qed.
Print Assumptions C17_fields_roundtrip.

(* a frame of a class given by a field program (RESET_STREAM, STOP_SENDING, CRYPTO, NEW_TOKEN, STREAM with every combination of the OFF,
   LEN and FIN bits, MAX_*, *_BLOCKED, NEW_CONNECTION_ID, RETIRE_CONNECTION_ID, CONNECTION_CLOSE), followed by anything *)
Theorem C17_frame_roundtrip : forall c t fs post, prog_class c = true -> fits (prog_of c t) fs 0 -> (ends_with_rest (prog_of c t) = true -> post = []) ->
  parse_one c (t :: enc_fs fs ++ post) = Ok (frame_of c t fs).
Proof. exact parse_one_roundtrip. Qed.
Print Assumptions C17_frame_roundtrip.

(* a payload that is a sequence of such frames (a STREAM frame without LEN bit only as the last one), dispatched through the table
   regenerated from the source: parse_frames returns exactly the frames, in order *)
Theorem C17_payload_roundtrip : forall l, frames_ok frame_table l -> parse_frames frame_table (concat (map enc_frame l)) = Ok (map frame_of' l).
Proof. exact (parse_frames_roundtrip frame_table). Qed.
Print Assumptions C17_payload_roundtrip.

(* non-vacuity: CRYPTO(offset 5, 3 bytes), STREAM id 4 with OFF and LEN (8-byte offset encoding, 2-byte length encoding), MAX_DATA, STREAM
   id 0 without LEN to the end of the packet -- all dispatched by the regenerated table *)
Example C17_roundtrip_example :
  let l := [ (CCrypto, 6, [FV 5 1; FV 3 2; FD [1; 2; 3]]); (CStream, 0x0e, [FV 4 1; FV 70000 8; FV 2 2; FD [9; 9]]);
             (CMaxData, 0x10, [FV 1048576 4]); (CStream, 0x08, [FV 0 1; FR [7; 7; 7]]) ] in
  frames_ok frame_table l /\ parse_frames frame_table (concat (map enc_frame l)) = Ok (map frame_of' l).
Proof.
  split; [|vm_compute; reflexivity].
  cbn [frames_ok]. repeat split; try reflexivity; try discriminate; unfold wok; try lia; auto.
Qed.

(* ---- every frame class ---- *)
(* the general statement: a payload that is a sequence of frame encodings, each of which the parser reads back as its frame whenever what
   follows satisfies the frame's condition (anything; nothing, for a frame that reads to the end of the packet; not a zero byte, for a
   PADDING run), parses to exactly those frames in order *)
Theorem C17_payload_roundtrip_all : forall l, goods frame_table l -> parse_frames frame_table (concat (map enc_of l)) = Ok (map snd l).
Proof. exact (payload_roundtrip_all frame_table). Qed.
Print Assumptions C17_payload_roundtrip_all.

(* ... and every class of the table yields such encodings.  ACK: largest, delay, range count, first range in any legal width, any number
   of (gap, range) pairs, and the three ECN counts exactly when the type is 3 *)
Theorem C17_ack_roundtrip : forall t la wla dl wdl wc fr wfr pl ecn,
  dispatch frame_table t None = Some CAck -> vok la wla -> vok dl wdl -> vok (Z.of_nat (length pl)) wc -> vok fr wfr -> Forall rng_ok pl -> ecn_ok t ecn ->
  let fs := ack_fields la wla dl wdl wc fr wfr pl ecn in
  good frame_table anything (t :: enc_fs fs) {| f_cls := CAck; f_type := t; f_len := 1 + len (enc_fs fs); f_ints := ints_of fs; f_datas := [] |}.
Proof. exact (good_ack frame_table). Qed.
Print Assumptions C17_ack_roundtrip.

(* PADDING: a run of n+1 zero bytes is one frame of that length when the next frame is not PADDING (or the packet ends) *)
Theorem C17_padding_roundtrip : forall n, good frame_table not_padding (repeat 0 (S n)) (padding_frame (S n)).
Proof. intros n. exact (good_padding frame_table n eq_refl). Qed.
Print Assumptions C17_padding_roundtrip.

(* PING, HANDSHAKE_DONE, PATH_CHALLENGE, PATH_RESPONSE *)
Theorem C17_fixed_roundtrip :
  good frame_table anything [1] (mk CPing 1 st0) /\ good frame_table anything [0x1e] (mk CHandshakeDone 0x1e st0) /\
  (forall d, len d = 8 -> good frame_table anything (0x1a :: d) {| f_cls := CPathChallenge; f_type := 0x1a; f_len := 9; f_ints := []; f_datas := [d] |}) /\
  (forall d, len d = 8 -> good frame_table anything (0x1b :: d) {| f_cls := CPathResponse; f_type := 0x1b; f_len := 9; f_ints := []; f_datas := [d] |}).
Proof.
  exact (conj (good_ping frame_table eq_refl) (conj (good_handshake_done frame_table eq_refl)
        (conj (fun d => good_path_challenge frame_table d eq_refl) (fun d => good_path_response frame_table d eq_refl)))).
Qed.
Print Assumptions C17_fixed_roundtrip.

(* DATAGRAM: with a length field (0x31) anywhere, without one (0x30) as the last frame of the packet *)
Theorem C17_datagram_roundtrip :
  (forall v w d, wok w -> 0 <= v < 2 ^ (8 * w - 2) -> len d = v ->
     good frame_table anything (0x31 :: enc_fs [FV v w; FD d]) (mk CDatagram 0x31 (1 + len (enc_fs [FV v w; FD d]), [v], [d]))) /\
  (forall d, good frame_table nothing (0x30 :: d) {| f_cls := CDatagram; f_type := 0x30; f_len := 1 + len d; f_ints := []; f_datas := [d] |}).
Proof.
  exact (conj (fun v w d => good_datagram_len frame_table 0x31 v w d eq_refl eq_refl) (fun d => good_datagram_nolen frame_table 0x30 d eq_refl eq_refl)).
Qed.
Print Assumptions C17_datagram_roundtrip.

(* the field-program classes of C17_frame_roundtrip, in this form *)
Theorem C17_program_roundtrip : forall c t fs, dispatch frame_table t None = Some c -> prog_class c = true -> fits (prog_of c t) fs 0 ->
  good frame_table (follow (ends_with_rest (prog_of c t))) (t :: enc_fs fs) (frame_of c t fs).
Proof. exact (good_prog frame_table). Qed.
Print Assumptions C17_program_roundtrip.

(* non-vacuity: one payload holding ACK (type 3, two ranges, ECN counts), PADDING x3, PING, PATH_CHALLENGE, CRYPTO, HANDSHAKE_DONE,
   DATAGRAM with length, STREAM with length, PATH_RESPONSE and a DATAGRAM to the end of the packet meets the hypothesis; its 59 bytes are
   pinned in C17AllP.all_classes_bytes and replayed on the implementation by the check *)
Example C17_all_classes_example : goods frame_table ex /\ parse_frames frame_table (concat (map enc_of ex)) = Ok (map snd ex).
Proof. exact (conj all_classes_good all_classes_parse). Qed.
