(* Property C17 -- statements only (part 1: termination, no invention; the round trip is in C17RT). *)
From Coq Require Import ZArith List.
Require Import PyLib Varint QuicFrames FrameTable C17P.
Open Scope Z_scope.

(* on arbitrary bytes the parser never runs out of its (length + 1) fuel: the Python loop terminates *)
Theorem C17_terminates : forall p, bytes_ok p -> parse_frames frame_table p <> Exn OutOfFuel.
Proof. exact parse_terminates. Qed.
Print Assumptions C17_terminates.

(* whatever it returns: every frame is at least one byte long (the loop makes progress) and every data
   field of every frame is a contiguous piece of the packet -- nothing is invented *)
Theorem C17_no_invention : forall p, bytes_ok p -> forall frs, parse_frames frame_table p = Ok frs ->
  Forall (fun fr => 1 <= f_len fr /\ Forall (fun d => exists a b, d = slice p a b) (f_datas fr)) frs.
Proof. intros p Hp frs H. exact (parse_sound p Hp _ frs H). Qed.
Print Assumptions C17_no_invention.

(* the class-level constants the model hard-wires are those of the source *)
Theorem C17_class_constants : forallb const_ok class_consts = true /\ length class_consts = 19%nat.
Proof. exact class_consts_ok. Qed.
Print Assumptions C17_class_constants.
