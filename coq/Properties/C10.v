(* Property C10 (server-port selection and port mapping) -- statements only. *)
From Coq Require Import ZArith List Bool.
Require Import PyLib Packet TlsSession OutputBuilder Frames Main QuicSession Cli CliConsts C07P C10P.
Import ListNotations.
Open Scope Z_scope.

(* TCP traffic that matches no session is looked at only when one of its ports is a default or user-selected server port ... *)
Theorem C10_only_watched_ports : forall o ss p,
  dispatch_tcp ss p = None -> mem_Z (p_dport p) (opt_server_ports o) = false -> mem_Z (p_sport p) (opt_server_ports o) = false ->
  handle_packet o ss p = ss.
Proof. exact no_session_without_watched_port. Qed.
Print Assumptions C10_only_watched_ports.

(* ... and then a session is opened whose server is the side using that port (C07_roles gives the roles of new_session) *)
Theorem C10_session_on_watched_port : forall o ss p,
  dispatch_tcp ss p = None -> mem_Z (p_dport p) (opt_server_ports o) || mem_Z (p_sport p) (opt_server_ports o) = true ->
  handle_packet o ss p = ss ++ [new_session p (opt_server_ports o)].
Proof. exact new_session_on_watched_port. Qed.
Print Assumptions C10_session_on_watched_port.

(* exported ports, TLS and QUIC alike: the client port is never changed; the server port is the original one without -m, the mapped
   one for listed ports and 8080 for the others with -m *)
Theorem C10_exported_ports_tls : forall o s,
  e_client_port (session_endpoints o s) = ts_client_port s /\
  e_server_port (session_endpoints o s) =
    (if opt_keep_ports o then ts_server_port s
     else match find (fun kv => fst kv =? ts_server_port s) (opt_portmap o) with Some kv => snd kv | None => 8080 end).
Proof. exact exported_ports_tls. Qed.
Print Assumptions C10_exported_ports_tls.

Theorem C10_exported_ports_quic : forall o s,
  e_client_port (quic_endpoints o s) = qs_client_port s /\
  e_server_port (quic_endpoints o s) =
    (if opt_keep_ports o then qs_server_port s
     else match find (fun kv => fst kv =? qs_server_port s) (opt_portmap o) with Some kv => snd kv | None => 8080 end).
Proof. exact exported_ports_quic. Qed.
Print Assumptions C10_exported_ports_quic.

(* the command line, as any sequence of "-p v+", "-m v*" and other options: the watched ports are 443, 44330, 443 and every -p value
   of every -p in order; the map comes from the last -m (bare: 443 -> 8080); the original ports are kept iff no -m occurs *)
Theorem C10_command_line : forall gs, forallb group_ok gs = true ->
  cli (flat_map group_toks gs) =
  (do pm <- get_port_map {| ns_serverports := []; ns_mapports := last_m gs; ns_keep := true |};
   do ps <- map_result pval_int (PInt 443 :: map PStr (p_values gs));
   Ok (base_server_ports ++ ps, pm, negb (has_m gs))).
Proof. exact cli_groups. Qed.
Print Assumptions C10_command_line.

Theorem C10_bare_m : get_port_map {| ns_serverports := []; ns_mapports := Some bare_m_default; ns_keep := false |} = Ok [(443, 8080)].
Proof. exact bare_m_map. Qed.
Print Assumptions C10_bare_m.
Theorem C10_trailing_comma : forall pm x, port_map_entry pm (x ++ [44]) = port_map_entry pm x.
Proof. exact comma_ignored. Qed.
Print Assumptions C10_trailing_comma.

(* the constants of the source, regenerated on every run, are the ones the model uses *)
Theorem C10_source_constants :
  cli_server_ports = base_server_ports /\ cli_reset_server_ports = base_server_ports /\
  cli_p_nargs = [43] /\ cli_p_action = [101; 120; 116; 101; 110; 100] /\ cli_p_default = [443] /\
  cli_m_nargs = [42] /\ cli_m_bare = bare_m_default /\ cli_default_port_tls = 8080 /\ cli_default_port_quic = 8080.
Proof. exact cli_constants_match. Qed.
Print Assumptions C10_source_constants.

(* non-vacuity: "-p 8443 -p 9443 -a -m 443:8081 8443:9000," *)
Example C10_example :
  cli (flat_map group_toks [GP [[56;52;52;51]]; GP [[57;52;52;51]]; GFlag; GM [[52;52;51;58;56;48;56;49]; [56;52;52;51;58;57;48;48;48;44]]]) =
  Ok ([443; 44330; 443; 8443; 9443], [(443, 8081); (8443, 9000)], false).
Proof. vm_compute. reflexivity. Qed.
