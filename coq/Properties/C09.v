(* Property C09 (the export depends only on which secrets are supplied, not on how) -- statements only. *)
From Coq Require Import ZArith List Bool.
From Coq Require String.
Require Import PyLib SuiteTypes Crypto KeySchedule QuicKeys Packet QuicFrames Main Keylog C09P C09OrderP C09SplitP.
Import ListNotations.
Open Scope Z_scope.

(* the keys of a text are the keys of its lines, in order, whether the lines end in LF or in CRLF *)
Theorem C09_line_ends : forall ls, ls <> [] -> Forall no_eol ls ->
  get_keys_from_string (join [10] ls) = flat_map key_of_line ls /\
  get_keys_from_string (join [13; 10] ls) = flat_map key_of_line ls.
Proof. exact keys_of_lines. Qed.
Print Assumptions C09_line_ends.

(* the log split at line boundaries over any number of texts -- secrets blocks --, each text with LF or CRLF between its lines and no
   terminator after its last line (or with one: an empty last line contributes nothing, C09_blank): text by text, the keys of the whole
   log in order.  Blocks are never joined: a block's last line ends with the block. *)
Theorem C09_split_over_blocks : forall lss, Forall (fun ls => ls <> [] /\ Forall no_eol ls) lss -> concat lss <> [] ->
  concat (map (fun ls => get_keys_from_string (join [10] ls)) lss) = get_keys_from_string (join [10] (concat lss)) /\
  concat (map (fun ls => get_keys_from_string (join [13; 10] ls)) lss) = get_keys_from_string (join [10] (concat lss)).
Proof. exact split_over_texts. Qed.
Print Assumptions C09_split_over_blocks.

(* comment lines, blank lines and anything that is not "LABEL random secret" contribute nothing, wherever they stand *)
Theorem C09_decorations : forall ls,
  flat_map key_of_line ls = flat_map key_of_line (filter (fun l => match match_line l with Some _ => true | None => false end) ls).
Proof. exact decorations_ignored. Qed.
Theorem C09_comment : forall l, key_of_line (35 :: l) = [].
Proof. exact comment_line. Qed.
Print Assumptions C09_comment.
Theorem C09_blank : key_of_line [] = [].
Proof. exact blank_line. Qed.
Print Assumptions C09_blank.
Print Assumptions C09_decorations.

(* upper- or lower-case hex digits give the same key *)
Theorem C09_hex_case : forall lab cr v,
  forallb is_label_char lab = true -> 3 <= len lab <= 32 -> forallb is_hex cr = true -> len cr = 64 ->
  forallb is_hex v = true -> 0 < len v -> Z.even (len v) = true ->
  key_of_line (line lab (map upper cr) (map upper v)) = key_of_line (line lab cr v).
Proof. exact hex_case_irrelevant. Qed.
Print Assumptions C09_hex_case.

(* the same secrets from a file or from decryption-secrets blocks (one or several) in front of the packets: the same run.
   The file's keys are the initial key log; a run without -s starts from the empty one. *)
Theorem C09_blocks_in_front : forall C tbl parts o ft ks0 blocks items,
  run C tbl parts o ft ks0 (map IDsb blocks ++ items) = run C tbl parts o ft (ks0 ++ concat blocks) items.
Proof. exact dsb_in_front. Qed.
Print Assumptions C09_blocks_in_front.

(* TLS over TCP: the blocks may stand anywhere in the capture *)
Theorem C09_blocks_anywhere_tls : forall C tbl parts o ks0 items,
  run_tls C tbl parts o ks0 items = run_tls C tbl parts o (ks0 ++ dsb_keys items) (packets_only items).
Proof. exact dsb_anywhere_tls. Qed.
Print Assumptions C09_blocks_anywhere_tls.

(* line order and duplicate lines, TLS 1.3: the derivation takes the last line per label, so two logs with the same lines -- in any
   order, with any repetitions -- whose lines for one label agree give the same keys *)
Theorem C09_order_and_duplicates_tls13 : forall C key_length h a b ka kb, same_lines a b -> consistent a ->
  dev_tls_13_keys C a key_length h = Ok ka -> dev_tls_13_keys C b key_length h = Ok kb -> ka = kb.
Proof. exact order_irrelevant_tls13. Qed.
Print Assumptions C09_order_and_duplicates_tls13.

(* QUIC: the same, over its six labels *)
Theorem C09_order_and_duplicates_quic : forall C key_length h v a b ka kb, same_lines a b -> consistent a ->
  dev_quic_keys C key_length a h v = Ok ka -> dev_quic_keys C key_length b h v = Ok kb -> ka = kb.
Proof. exact order_irrelevant_quic. Qed.
Print Assumptions C09_order_and_duplicates_quic.

(* TLS <= 1.2: only the first line of the connection is used; when all its lines are the same line, every order has the same first line *)
Theorem C09_first_line : forall C v cs a b cr sr, v <> TLS13 -> hd_error a = hd_error b ->
  derive_session_keys C v cs a cr sr = derive_session_keys C v cs b cr sr.
Proof. exact derive_uses_first_line. Qed.
Theorem C09_duplicates_first_line : forall (a b : list secret) x, (forall s, In s a -> s = x) -> (forall s, In s b -> s = x) -> a <> [] -> b <> [] -> hd_error a = hd_error b.
Proof. exact first_line_same. Qed.
Print Assumptions C09_duplicates_first_line.
Print Assumptions C09_first_line.

(* non-vacuity: a two-line log with CRLF, a comment and upper-case digits *)
Example C09_example :
  let l1 := line [82;83;65] (repeat 97 64) [48;49;65;98] in
  match_line l1 = Some ([82;83;65], repeat 97 64, [48;49;65;98]) /\
  get_keys_from_string (l1 ++ [13; 10; 35; 120; 13; 10] ++ l1 ++ [32; 10]) = key_of_line l1 ++ key_of_line l1 /\
  map s_value (key_of_line l1) = [Some [1; 171]].
Proof. vm_compute. repeat split; reflexivity. Qed.
