(* Model of QuicSession.get_full_packet_number and of the nonce formed by QuicDecryptor.decrypt. *)
From Coq Require Import ZArith List Bool.
Require Import PyLib.
Import ListNotations.
Open Scope Z_scope.

Inductive pn_space := SpInitial | SpHandshake | SpApp.   (* PACKET_TYPE_MAP: 0-RTT and 1-RTT share SpApp *)
Definition space_eqb (a b : pn_space) : bool :=
  match a, b with SpInitial, SpInitial | SpHandshake, SpHandshake | SpApp, SpApp => true | _, _ => false end.

(* the two dicts packet_number_server / packet_number_client *)
Record pn_state := { pn_server : pn_space -> Z; pn_client : pn_space -> Z }.
Definition pn_init : pn_state := {| pn_server := fun _ => 0; pn_client := fun _ => 0 |}.
Definition pn_get (s : pn_state) (isserver : bool) (sp : pn_space) : Z :=
  if isserver then pn_server s sp else pn_client s sp.
Definition pn_set (s : pn_state) (isserver : bool) (sp : pn_space) (v : Z) : pn_state :=
  if isserver then {| pn_server := fun x => if space_eqb x sp then v else pn_server s x; pn_client := pn_client s |}
  else {| pn_server := pn_server s; pn_client := fun x => if space_eqb x sp then v else pn_client s x |}.

(* the arithmetic core: (bytes returned, new largest) *)
Definition full_pn (largest_pkn : Z) (packet_num : bytes) : result (bytes * Z) :=
  let packet_number_int := from_be packet_num in
  if (packet_number_int >? largest_pkn) && (largest_pkn =? 0) then Ok (packet_num, packet_number_int)
  else
    let truncated_pkn := packet_number_int in
    let pkn_len_bits := len packet_num * 8 in
    let expected_pkn := largest_pkn + 1 in
    let pkn_window := Z.shiftl 1 pkn_len_bits in
    let pkn_hwindow := pkn_window / 2 in          (* integer half-window (Python //) *)
    let pkn_mask := pkn_window - 1 in
    let candidate_pkn := Z.lor (Z.land expected_pkn (Z.lnot pkn_mask)) truncated_pkn in
    let out_pkn :=
      if (candidate_pkn <=? expected_pkn - pkn_hwindow) && (candidate_pkn <? Z.shiftl 1 62 - pkn_window) then candidate_pkn + pkn_window
      else if (candidate_pkn >? expected_pkn + pkn_hwindow) && (candidate_pkn >=? pkn_window) then candidate_pkn - pkn_window
      else candidate_pkn in
    do b <- to_be out_pkn 8;
    Ok (b, if out_pkn >? largest_pkn then out_pkn else largest_pkn).

Definition get_full_packet_number (s : pn_state) (isserver : bool) (sp : pn_space) (packet_num : bytes)
  : result (bytes * pn_state) :=
  do r <- full_pn (pn_get s isserver sp) packet_num;
  let '(b, l) := r in Ok (b, pn_set s isserver sp l).

(* QuicDecryptor.decrypt: packet_number = b"\x00" * (len(iv) - len(pn)) + pn ; nonce = xor over zip *)
Definition quic_nonce (iv pn : bytes) : bytes := xor_zip (zeros (len iv - len pn) ++ pn) iv.
