(* Model of tlexport/quic/quic_key_generation.py *)
From Coq Require Import ZArith List Bool.
Require Import PyLib SuiteTypes Crypto KeySchedule.
Import ListNotations.
Open Scope Z_scope.

Inductive quic_version := QUnknown | QV1 | QV2.

Definition b_tls13_ : bytes := [116; 108; 115; 49; 51; 32].                       (* b"tls13 " *)
Definition b_client_in : bytes := [99; 108; 105; 101; 110; 116; 32; 105; 110].      (* b"client in" *)
Definition b_server_in : bytes := [115; 101; 114; 118; 101; 114; 32; 105; 110].     (* b"server in" *)
Definition b_quic_key : bytes := [113; 117; 105; 99; 32; 107; 101; 121].
Definition b_quic_iv : bytes := [113; 117; 105; 99; 32; 105; 118].
Definition b_quic_hp : bytes := [113; 117; 105; 99; 32; 104; 112].
Definition b_quic_ku : bytes := [113; 117; 105; 99; 32; 107; 117].
Definition b_quicv2_key : bytes := [113; 117; 105; 99; 118; 50; 32; 107; 101; 121].
Definition b_quicv2_iv : bytes := [113; 117; 105; 99; 118; 50; 32; 105; 118].
Definition b_quicv2_hp : bytes := [113; 117; 105; 99; 118; 50; 32; 104; 112].
Definition salt_v1 : bytes := [56; 118; 44; 247; 245; 89; 52; 179; 77; 23; 154; 230; 164; 200; 12; 173; 204; 187; 127; 10].
Definition salt_v2 : bytes := [13; 237; 227; 222; 247; 0; 166; 219; 129; 147; 129; 190; 110; 38; 157; 203; 249; 189; 46; 217].

(* key_length.to_bytes(2) + (len(label) + 6).to_bytes(1) + b"tls13 " + label + b"\x00" *)
Definition make_info (lbl : bytes) (key_length : Z) : result bytes :=
  do kl <- to_be key_length 2; do ll <- to_be (len lbl + 6) 1;
  Ok (kl ++ ll ++ b_tls13_ ++ lbl ++ [0]).

Section QK.
Variable C : Crypto.

Record initial_keys := { ci_key : bytes; ci_iv : bytes; ci_hp : bytes; si_key : bytes; si_iv : bytes; si_hp : bytes }.

Definition dev_initial_keys (connection_id : bytes) (v : quic_version) (chacha20 : bool) : result (option initial_keys) :=
  let key_length := if chacha20 then 32 else 16 in
  let hp_key_length := key_length in
  match v with
  | QUnknown => Ok None
  | _ =>
    let salt := match v with QV1 => salt_v1 | _ => salt_v2 end in
    let initial_secret := c_hkdf_extract C SHA256 salt connection_id in
    do ici <- make_info b_client_in 32; do client_initial <- c_hkdf_expand C SHA256 initial_secret ici 32;
    do isi <- make_info b_server_in 32; do server_initial <- c_hkdf_expand C SHA256 initial_secret isi 32;
    let key_label := match v with QV1 => b_quic_key | _ => b_quicv2_key end in
    let iv_label := match v with QV1 => b_quic_iv | _ => b_quicv2_iv end in
    let hp_label := match v with QV1 => b_quic_hp | _ => b_quicv2_hp end in
    do ik <- make_info key_label key_length; do iiv <- make_info iv_label 12; do ihp <- make_info hp_label hp_key_length;
    do ck <- c_hkdf_expand C SHA256 client_initial ik key_length;
    do civ <- c_hkdf_expand C SHA256 client_initial iiv 12;
    do chp <- c_hkdf_expand C SHA256 client_initial ihp key_length;
    do sk <- c_hkdf_expand C SHA256 server_initial ik key_length;
    do siv <- c_hkdf_expand C SHA256 server_initial iiv 12;
    do shp <- c_hkdf_expand C SHA256 server_initial ihp key_length;
    Ok (Some {| ci_key := ck; ci_iv := civ; ci_hp := chp; si_key := sk; si_iv := siv; si_hp := shp |})
  end.

(* key, iv, hp (and the secret itself) per traffic secret *)
Record tkeys := { t_key : bytes; t_iv : bytes; t_hp : bytes; t_sec : bytes }.
Record quic_keys := {
  q_chs : option tkeys; q_shs : option tkeys; q_capp : option tkeys; q_sapp : option tkeys;
  q_cearly : option tkeys; q_searly : option tkeys }.

Definition dev_quic_keys (key_length : Z) (secret_list : list secret) (h : hash_alg) (v : quic_version) : result quic_keys :=
  let v1 := match v with QV1 => true | _ => false end in
  do key_info <- make_info (if v1 then b_quic_key else b_quicv2_key) key_length;
  do iv_info <- make_info (if v1 then b_quic_iv else b_quicv2_iv) 12;
  do hp_info <- make_info (if v1 then b_quic_hp else b_quicv2_hp) key_length;
  let derive (s : secret) : result tkeys :=
    do v <- fromhex s;
    do k <- c_hkdf_expand C h v key_info key_length;
    do iv <- c_hkdf_expand C h v iv_info 12;
    do hp <- c_hkdf_expand C h v hp_info key_length;
    Ok {| t_key := k; t_iv := iv; t_hp := hp; t_sec := v |} in
  let step (acc : result quic_keys) (s : secret) : result quic_keys :=
    do k <- acc;
    match s_label s with
    | LClientHs => do t <- derive s; Ok {| q_chs := Some t; q_shs := q_shs k; q_capp := q_capp k; q_sapp := q_sapp k; q_cearly := q_cearly k; q_searly := q_searly k |}
    | LServerHs => do t <- derive s; Ok {| q_chs := q_chs k; q_shs := Some t; q_capp := q_capp k; q_sapp := q_sapp k; q_cearly := q_cearly k; q_searly := q_searly k |}
    | LClientApp => do t <- derive s; Ok {| q_chs := q_chs k; q_shs := q_shs k; q_capp := Some t; q_sapp := q_sapp k; q_cearly := q_cearly k; q_searly := q_searly k |}
    | LServerApp => do t <- derive s; Ok {| q_chs := q_chs k; q_shs := q_shs k; q_capp := q_capp k; q_sapp := Some t; q_cearly := q_cearly k; q_searly := q_searly k |}
    | LClientEarly => do t <- derive s; Ok {| q_chs := q_chs k; q_shs := q_shs k; q_capp := q_capp k; q_sapp := q_sapp k; q_cearly := Some t; q_searly := q_searly k |}
    | LServerEarly => do t <- derive s; Ok {| q_chs := q_chs k; q_shs := q_shs k; q_capp := q_capp k; q_sapp := q_sapp k; q_cearly := q_cearly k; q_searly := Some t |}
    | _ => Ok k
    end in
  do k <- fold_left step secret_list
            (Ok {| q_chs := None; q_shs := None; q_capp := None; q_sapp := None; q_cearly := None; q_searly := None |});
  (* building the dict reads the four handshake/application groups: UnboundLocalError when a label never occurred *)
  match q_chs k, q_shs k, q_capp k, q_sapp k with
  | Some _, Some _, Some _, Some _ => Ok k
  | _, _, _, _ => Exn UnboundLocal
  end.

(* one application-key generation, as held by a QuicDecryptor: [skey; siv; ckey; civ; ssec; csec] *)
Record app_gen := { g_skey : bytes; g_siv : bytes; g_ckey : bytes; g_civ : bytes; g_ssec : bytes; g_csec : bytes }.

Definition key_update (g : app_gen) (h : hash_alg) (key_length : Z) : result app_gen :=
  (* `if quic_version.V1:` is always true: the v1 labels are used for every version *)
  do key_info <- make_info b_quic_key key_length;
  do iv_info <- make_info b_quic_iv 12;
  do ku_info <- make_info b_quic_ku (digest_size h);
  do server_n_1 <- c_hkdf_expand C h (g_ssec g) ku_info (digest_size h);
  do client_n_1 <- c_hkdf_expand C h (g_csec g) ku_info (digest_size h);
  do ck <- c_hkdf_expand C h client_n_1 key_info key_length;
  do civ <- c_hkdf_expand C h client_n_1 iv_info 12;
  do sk <- c_hkdf_expand C h server_n_1 key_info key_length;
  do siv <- c_hkdf_expand C h server_n_1 iv_info 12;
  Ok {| g_skey := sk; g_siv := siv; g_ckey := ck; g_civ := civ; g_ssec := server_n_1; g_csec := client_n_1 |}.

Definition make_hp_mask (hp_key sample : bytes) : result bytes := c_ecb_enc C hp_key sample.
Definition make_chacha_hp_mask (hp_key sample : bytes) : result bytes := c_chacha_mask C hp_key sample.
End QK.
