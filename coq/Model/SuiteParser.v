(* Model of cipher_suite_parser.split_cipher_suite, generic in the two tables (which are
   regenerated from the source into Gen/SuiteTable.v on every run). *)
From Coq Require Import ZArith String List Bool Ascii.
Require Import SuiteTypes.
Import ListNotations.
Open Scope string_scope.

(* Python: p in s  (substring test) *)
Fixpoint is_prefix_s (p s : string) : bool :=
  match p, s with
  | EmptyString, _ => true
  | String a p', String b s' => Ascii.eqb a b && is_prefix_s p' s'
  | String _ _, EmptyString => false
  end.
Fixpoint is_substr (p s : string) : bool :=
  is_prefix_s p s || match s with EmptyString => false | String _ s' => is_substr p s' end.

(* dict lookup by code point; a Python dict literal keeps the LAST of equal keys, an association
   list read front-to-back the first: they agree under NoDup keys, which C14 proves of the table. *)
Fixpoint lookup (c : Z) (t : list (Z * string)) : option string :=
  match t with [] => None | (k, v) :: r => if Z.eqb k c then Some v else lookup c r end.

(* for p in parts[part]: if p in suite_string: ...; break *)
Fixpoint first_part {V} (t : list (string * V)) (s : string) : option V :=
  match t with [] => None | (k, v) :: r => if is_substr k s then Some v else first_part r s end.

Definition split_name (P : parts) (s : string) : suite :=
  let algo := first_part (p_algo P) s in
  let md := first_part (p_mode P) s in
  let kl := first_part (p_keylen P) s in
  let mac := first_part (p_mac P) s in
  let tag := match first_part (p_tag P) s with Some t => t | None => 16%Z end in
  let algo' :=
    match algo with
    | Some (AES, 0%Z) =>
        if is_substr "GCM" s then Some (AESGCM, 1%Z)
        else if is_substr "CCM" s then Some (AESCCM, 1%Z) else algo
    | _ => algo
    end in
  {| s_algo := algo'; s_mode := md; s_keylen := kl;
     s_mac := match mac with Some h => h | None => SHA256 end; s_tag := tag |}.

Definition split_cipher_suite (T : list (Z * string)) (P : parts) (c : Z) : option suite :=
  match lookup c T with None => None | Some s => Some (split_name P s) end.
