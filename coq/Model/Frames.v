(* Serialisation of the synthetic packets, byte for byte as scapy does it with the defaults TLExport uses
   (Ether / IP(id 1, flags 0, ttl 64) | IPv6(tc 0, fl 0, hlim 64) / TCP(dataofs 5, window 8192, urgptr 0) | UDP / Raw). *)
From Coq Require Import ZArith List Bool.
Require Import PyLib Checksum.
Import ListNotations.
Open Scope Z_scope.

(* struct.pack("!H"/"!I", n): struct.error when out of range *)
Definition pack (n k : Z) : result bytes := match to_be n k with Ok b => Ok b | Exn _ => Exn StructError end.

(* the Internet checksum field: complement of the folded sum (0 stays 0 for TCP and IP) *)
Definition inet_checksum (data : bytes) : result Z :=
  do s <- fold_loop 64 (sum16 (pad_even data)); Ok (65535 - s).

Record endpoints := {
  e_v6 : bool;
  e_server_ip : bytes; e_client_ip : bytes; e_server_mac : bytes; e_client_mac : bytes;
  e_server_port : Z; e_client_port : Z }.

Definition ether (src_mac dst_mac : bytes) (v6 : bool) (ip_packet : bytes) : bytes :=
  dst_mac ++ src_mac ++ (if v6 then [0x86; 0xDD] else [0x08; 0x00]) ++ ip_packet.

Definition ipv4 (src dst : bytes) (proto : Z) (payload : bytes) : result bytes :=
  do l <- pack (20 + len payload) 2;
  let hdr0 := [0x45; 0] ++ l ++ [0; 1; 0; 0; 64; proto] in
  do c <- inet_checksum (hdr0 ++ [0; 0] ++ src ++ dst);
  do cb <- pack c 2;
  Ok (hdr0 ++ cb ++ src ++ dst ++ payload).

Definition ipv6 (src dst : bytes) (nxt : Z) (payload : bytes) : result bytes :=
  do l <- pack (len payload) 2;
  Ok ([0x60; 0; 0; 0] ++ l ++ [nxt; 64] ++ src ++ dst ++ payload).

Definition pseudo (src dst : bytes) (proto l4len : Z) : result bytes :=
  if len src =? 4 then do l <- pack l4len 2; Ok (src ++ dst ++ [0; proto] ++ l)
  else do l <- pack l4len 4; Ok (src ++ dst ++ l ++ [0; 0; 0; proto]).

Definition tcp_segment (src dst : bytes) (sport dport seq ack flags : Z) (payload : bytes) : result bytes :=
  do sp <- pack sport 2; do dp <- pack dport 2; do sq <- pack seq 4; do ak <- pack ack 4;
  let h1 := sp ++ dp ++ sq ++ ak ++ [0x50; flags; 0x20; 0x00] in
  let h2 := [0; 0] in                       (* urgent pointer *)
  do ph <- pseudo src dst 6 (20 + len payload);
  do c <- inet_checksum (ph ++ h1 ++ [0; 0] ++ h2 ++ payload);
  do cb <- pack c 2;
  Ok (h1 ++ cb ++ h2 ++ payload).

Definition udp_datagram (src dst : bytes) (sport dport : Z) (payload : bytes) : result bytes :=
  do sp <- pack sport 2; do dp <- pack dport 2; do l <- pack (8 + len payload) 2;
  do ph <- pseudo src dst 17 (8 + len payload);
  do c <- inet_checksum (ph ++ sp ++ dp ++ l ++ [0; 0] ++ payload);
  do cb <- pack (if c =? 0 then 65535 else c) 2;          (* scapy: a zero UDP checksum is sent as 0xFFFF *)
  Ok (sp ++ dp ++ l ++ cb ++ payload).

Definition tcp_frame (e : endpoints) (from_server : bool) (flags seq ack : Z) (payload : bytes) : result bytes :=
  let src := if from_server then e_server_ip e else e_client_ip e in
  let dst := if from_server then e_client_ip e else e_server_ip e in
  let smac := if from_server then e_server_mac e else e_client_mac e in
  let dmac := if from_server then e_client_mac e else e_server_mac e in
  let sport := if from_server then e_server_port e else e_client_port e in
  let dport := if from_server then e_client_port e else e_server_port e in
  do seg <- tcp_segment src dst sport dport seq ack flags payload;
  do ip <- (if e_v6 e then ipv6 src dst 6 seg else ipv4 src dst 6 seg);
  Ok (ether smac dmac (e_v6 e) ip).

Definition udp_frame (e : endpoints) (from_server : bool) (payload : bytes) : result bytes :=
  let src := if from_server then e_server_ip e else e_client_ip e in
  let dst := if from_server then e_client_ip e else e_server_ip e in
  let smac := if from_server then e_server_mac e else e_client_mac e in
  let dmac := if from_server then e_client_mac e else e_server_mac e in
  let sport := if from_server then e_server_port e else e_client_port e in
  let dport := if from_server then e_client_port e else e_server_port e in
  do seg <- udp_datagram src dst sport dport payload;
  do ip <- (if e_v6 e then ipv6 src dst 17 seg else ipv4 src dst 17 seg);
  Ok (ether smac dmac (e_v6 e) ip).
