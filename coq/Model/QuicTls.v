(* Model of tlexport/quic/quic_tls_parser.py: CRYPTO-frame reassembly per (direction, packet type) and the TLS messages read from it *)
From Coq Require Import ZArith List Bool.
Require Import PyLib Varint QuicDissector.
Import ListNotations.
Open Scope Z_scope.

(* a CRYPTO frame as the parser sees it *)
Record cframe := { cf_offset : Z; cf_length : Z; cf_data : bytes; cf_id : Z }.   (* cf_id: object identity, for list.remove *)

(* per (direction, packet type): offset reached, frames waiting, bytes not yet consumed as messages *)
Record cstream := { cs_offset : Z; cs_frames : list cframe; cs_buffer : bytes }.
Definition cs0 : cstream := {| cs_offset := 0; cs_frames := []; cs_buffer := [] |}.

Record qtls := {
  qt_ciphersuite : option bytes; qt_client_random : option bytes; qt_alpn : option bytes; qt_tls_vers : option bytes;
  qt_new_data : bool; qt_greasy : bool;
  (* index: 0 Initial, 1 0-RTT, 2 1-RTT, 3 Handshake -- the order handle_buffer walks them *)
  qt_server : list cstream; qt_client : list cstream }.
Definition qtls0 : qtls :=
  {| qt_ciphersuite := None; qt_client_random := None; qt_alpn := None; qt_tls_vers := None; qt_new_data := false; qt_greasy := false;
     qt_server := [cs0; cs0; cs0; cs0]; qt_client := [cs0; cs0; cs0; cs0] |}.

Definition slot (t : qptype) : nat := match t with QInitial => 0 | QZeroRtt => 1 | QOneRtt => 2 | _ => 3 end%nat.

Fixpoint set_nth {A} (n : nat) (x : A) (l : list A) : list A :=
  match n, l with O, _ :: r => x :: r | S k, y :: r => y :: set_nth k x r | _, [] => [] end.

(* sort(key=offset): stable insertion *)
Fixpoint insert_cf (f : cframe) (l : list cframe) : list cframe :=
  match l with [] => [f] | x :: r => if cf_offset f <? cf_offset x then f :: x :: r else x :: insert_cf f r end.

Fixpoint remove_id (i : Z) (l : list cframe) : list cframe :=
  match l with [] => [] | x :: r => if cf_id x =? i then r else x :: remove_id i r end.

(* for crypto_frame in list(frames): if crypto_frame.offset == offset: consume it and remove it from the buffer
   (the loop runs over a copy of the sorted list, so every frame is looked at once, in offset order) *)
Fixpoint drain (snapshot : list cframe) (s : cstream) : cstream :=
  match snapshot with
  | [] => s
  | cf :: r =>
      if cf_offset cf =? cs_offset s then
        drain r {| cs_offset := cs_offset s + cf_length cf; cs_frames := remove_id (cf_id cf) (cs_frames s);
                   cs_buffer := cs_buffer s ++ cf_data cf |}
      else drain r s
  end.

(* ---- extensions ---- *)
Fixpoint ext_list (fuel : nat) (r : bytes) : list (bytes * Z * bytes) :=
  match fuel with
  | O => []
  | S f => if len r <? 4 then [] else
           let el := from_be (slice r 2 4) in
           if len r <? 4 + el then [] else (slice r 0 2, el, slice r 4 (4 + el)) :: ext_list f (slice_from r (4 + el))
  end.

(* get_quic_transport_parameters: any exception inside is swallowed by the caller; returns whether 0x2ab2 occurs *)
Fixpoint tp_walk (fuel : nat) (b : bytes) (acc : bool) : result bool :=
  match fuel with
  | O => Ok acc
  | S f =>
      if len b <? 1 then Ok acc else
      do tl <- get_variable_length_int_length (slice b 0 1);
      do t <- decode_variable_length_int (slice b 0 tl);
      do ll <- get_variable_length_int_length (slice b tl (tl + 1));
      do l <- decode_variable_length_int (slice b tl (tl + ll));
      tp_walk f (slice_from b (tl + ll + l)) (acc || (t =? 0x2ab2))
  end.

Definition apply_ext (q : qtls) (e : bytes * Z * bytes) : qtls :=
  let '(t, el, body) := e in
  let ty := from_be t in
  if ty =? 43 then
    if el =? 2 then {| qt_ciphersuite := qt_ciphersuite q; qt_client_random := qt_client_random q; qt_alpn := qt_alpn q; qt_tls_vers := Some body;
                       qt_new_data := qt_new_data q; qt_greasy := qt_greasy q; qt_server := qt_server q; qt_client := qt_client q |} else q
  else if ty =? 16 then
    if el <? 3 then q else
    let al := nth 2 body 0 in
    if negb (len body =? 3 + al) then q else
    {| qt_ciphersuite := qt_ciphersuite q; qt_client_random := qt_client_random q; qt_alpn := Some (slice body 3 (3 + al)); qt_tls_vers := qt_tls_vers q;
       qt_new_data := qt_new_data q; qt_greasy := qt_greasy q; qt_server := qt_server q; qt_client := qt_client q |}
  else if ty =? 57 then
    match tp_walk (S (length body)) body false with
    | Ok true => {| qt_ciphersuite := qt_ciphersuite q; qt_client_random := qt_client_random q; qt_alpn := qt_alpn q; qt_tls_vers := qt_tls_vers q;
                    qt_new_data := qt_new_data q; qt_greasy := true; qt_server := qt_server q; qt_client := qt_client q |}
    | _ => q       (* the parameters are collected first and the flag set afterwards: an exception leaves it unset *)
    end
  else q.

Definition get_extensions (q : qtls) (r : bytes) : qtls :=
  if negb (len (slice_from r 2) =? from_be (slice r 0 2)) then q
  else fold_left apply_ext (ext_list (S (length r)) (slice_from r 2)) q.

Definition set_new (q : qtls) (cs : option bytes) (cr : option bytes) (tv : option bytes) : qtls :=
  {| qt_ciphersuite := cs; qt_client_random := cr; qt_alpn := qt_alpn q; qt_tls_vers := tv; qt_new_data := qt_new_data q;
     qt_greasy := qt_greasy q; qt_server := qt_server q; qt_client := qt_client q |}.
Definition mark_new (q : qtls) : qtls :=
  {| qt_ciphersuite := qt_ciphersuite q; qt_client_random := qt_client_random q; qt_alpn := qt_alpn q; qt_tls_vers := qt_tls_vers q; qt_new_data := true;
     qt_greasy := qt_greasy q; qt_server := qt_server q; qt_client := qt_client q |}.

(* The parsers below can raise in the middle (an index past the end of a short message); the exception is caught far up, in
   QuicSession.decrypt_packet, and the attributes assigned before it stay assigned.  So they return the state reached and a
   flag: true = completed, false = an exception was raised at this point. *)
Definition handle_client_hello (q : qtls) (record : bytes) : qtls * bool :=
  if len record <? 38 then (q, true) else
  if len record <? 4 + from_be (slice record 1 4) then (q, true) else
  let r := slice_from record 4 in
  let q1 := set_new q (qt_ciphersuite q) (Some (slice r 2 34)) (Some (slice r 0 2)) in
  match index r 34 with
  | Exn _ => (q1, false)
  | Ok sid_len =>
      let idx := 35 + sid_len in
      let csl := from_be (slice r idx (idx + 2)) in
      let suites := slice r (idx + 2) (idx + 2 + csl) in
      let idx2 := idx + 2 + csl in
      let q2 := set_new q1 (Some (slice suites 0 2)) (qt_client_random q1) (qt_tls_vers q1) in
      match index r idx2 with
      | Exn _ => (q2, false)
      | Ok cml => (mark_new (get_extensions q2 (slice_from r (idx2 + 1 + cml))), true)
      end
  end.

Definition handle_server_hello (q : qtls) (record : bytes) : qtls * bool :=
  if len record <? 44 then (q, true) else
  let sid_len := nth 38 record 0 in
  let r := slice_from record (39 + sid_len) in
  let q1 := set_new q (Some (slice r 0 2)) (qt_client_random q) (qt_tls_vers q) in
  (mark_new (get_extensions q1 (slice_from r 3)), true).

Definition handle_encrypted_extensions (q : qtls) (record : bytes) : qtls :=
  if len record <? 6 then q else mark_new (get_extensions q (slice_from record 4)).

Definition handle_record (q : qtls) (t : Z) (record : bytes) : qtls * bool :=
  if t =? 1 then handle_client_hello q record
  else if t =? 2 then handle_server_hello q record
  else if t =? 8 then (handle_encrypted_extensions q record, true)
  else (q, true).

(* handle_buffer for one packet type: consume whole handshake messages from the buffer; (state, rest of buffer, completed?) *)
Fixpoint consume (fuel : nat) (q : qtls) (buf : bytes) : qtls * bytes * bool :=
  match fuel with
  | O => (q, buf, true)
  | S f =>
      if len buf <=? 4 then (q, buf, true) else
      let rl := from_be (slice buf 1 4) in
      if len buf <? 4 + rl then (q, buf, true) else
      let '(q', ok) := handle_record q (nth 0 buf 0) (slice buf 0 (4 + rl)) in
      if ok then consume f q' (slice_from buf (4 + rl)) else (q', buf, false)
  end.

Definition get_streams (q : qtls) (isserver : bool) : list cstream := if isserver then qt_server q else qt_client q.
Definition set_streams (q : qtls) (isserver : bool) (l : list cstream) : qtls :=
  {| qt_ciphersuite := qt_ciphersuite q; qt_client_random := qt_client_random q; qt_alpn := qt_alpn q; qt_tls_vers := qt_tls_vers q;
     qt_new_data := qt_new_data q; qt_greasy := qt_greasy q;
     qt_server := if isserver then l else qt_server q; qt_client := if isserver then qt_client q else l |}.

(* the buffer of a packet type is written back after every consumed message; on an exception the walk stops there *)
Fixpoint handle_buffer_from (n : nat) (slots : nat) (q : qtls) (isserver : bool) : qtls * bool :=
  match slots with
  | O => (q, true)
  | S k =>
      let s := nth n (get_streams q isserver) cs0 in
      let '(q', rest, ok) := consume (S (length (cs_buffer s))) q (cs_buffer s) in
      let s' := nth n (get_streams q' isserver) cs0 in
      let q'' := set_streams q' isserver (set_nth n {| cs_offset := cs_offset s'; cs_frames := cs_frames s'; cs_buffer := rest |} (get_streams q' isserver)) in
      if ok then handle_buffer_from (S n) k q'' isserver else (q'', false)
  end.

(* update_session: (state, completed?) *)
Definition update_session (q : qtls) (isserver : bool) (ptype : qptype) (cf : cframe) : qtls * bool :=
  let n := slot ptype in
  let s := nth n (get_streams q isserver) cs0 in
  let frames := insert_cf cf (cs_frames s) in
  let s1 := drain frames {| cs_offset := cs_offset s; cs_frames := frames; cs_buffer := cs_buffer s |} in
  handle_buffer_from 0 4 (set_streams q isserver (set_nth n s1 (get_streams q isserver))) isserver.
