(* The cryptography library as a PARAMETER of the model (never an axiom): every model and spec function that
   needs a primitive takes a (C : Crypto); theorems quantify over C and name the laws they assume. *)
From Coq Require Import ZArith List Bool.
Require Import PyLib SuiteTypes.
Import ListNotations.
Open Scope Z_scope.

Record Crypto := {
  c_hash : hash_alg -> bytes -> bytes;                                   (* hashes.Hash(h).update(m).finalize() *)
  c_hmac : hash_alg -> bytes -> bytes -> bytes;                          (* hmac.HMAC(key, h).update(m).finalize() *)
  c_hkdf_extract : hash_alg -> bytes -> bytes -> bytes;                  (* HKDF(h, salt=s)._extract(ikm) *)
  c_hkdf_expand : hash_alg -> bytes -> bytes -> Z -> result bytes;       (* HKDFExpand(h, n, info).derive(prk) *)
  c_aead_dec : alg -> Z -> bytes -> bytes -> bytes -> bytes -> result bytes;   (* alg tag key nonce ct aad *)
  c_aead_enc : alg -> Z -> bytes -> bytes -> bytes -> bytes -> result bytes;   (* spec side only *)
  c_cbc_dec : alg -> bytes -> bytes -> bytes -> result bytes;            (* alg key iv ct *)
  c_cbc_enc : alg -> bytes -> bytes -> bytes -> result bytes;            (* spec side only *)
  c_rc4 : bytes -> Z -> bytes -> result bytes;                           (* key, keystream offset, data *)
  c_ecb_enc : bytes -> bytes -> result bytes;                            (* AES-ECB(key).encrypt(block) *)
  c_chacha_mask : bytes -> bytes -> result bytes;                        (* ChaCha20(key, sample).encrypt(5 zero bytes) *)
  c_inflate : list bytes -> bytes -> result bytes                        (* zlib stream fed the earlier inputs, then this one: decompress + flush *)
}.
