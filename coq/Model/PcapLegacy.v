(* Model of dpkt.pcap.Reader as main.run uses it with -l: the 24-byte file header (magic read big-endian first; the three byte-swapped
   magics switch to little-endian; the two "modified pcap" magics have 24-byte packet headers), then packet header + caplen bytes until
   the file ends.  A read past the end returns what is left (Python's file.read); an empty read ends the loop; a packet header that is
   cut short raises dpkt.NeedData.  Result: nanosecond flag and (tv_sec, tv_usec-or-nsec, data) per packet -- the time arithmetic on
   them is TimeConv.legacy_us. *)
From Coq Require Import ZArith List Bool.
Require Import PyLib PcapngReader.
Import ListNotations.
Open Scope Z_scope.

(* (little-endian?, nanoseconds?, modified packet header?) *)
Definition magic_kind (m : Z) : option (bool * bool * bool) :=
  if m =? 0xa1b2c3d4 then Some (false, false, false) else if m =? 0xa1b23c4d then Some (false, true, false)
  else if m =? 0xa1b2cd34 then Some (false, false, true) else if m =? 0xd4c3b2a1 then Some (true, false, false)
  else if m =? 0x4d3cb2a1 then Some (true, true, false) else if m =? 0x34cdb2a1 then Some (true, false, true) else None.

Fixpoint legacy_packets (fuel : nat) (le : bool) (hl : Z) (rest : bytes) : result (list (Z * Z * bytes)) :=
  if len rest =? 0 then Ok []
  else if len rest <? hl then Exn NeedData
  else match fuel with
       | O => Exn OutOfFuel
       | S f => let cap := u32 le rest 8 in
                do more <- legacy_packets f le hl (slice_from rest (hl + cap));
                Ok ((u32 le rest 0, u32 le rest 4, slice rest hl (hl + cap)) :: more)
       end.

Definition read_legacy (d : bytes) : result (bool * list (Z * Z * bytes)) :=
  if len d <? 24 then Exn NeedData else
  match magic_kind (from_be (slice d 0 4)) with
  | None => Exn ValueError                                            (* 'invalid tcpdump header' *)
  | Some (le, nano, md) => do ps <- legacy_packets (S (length d)) le (if md then 24 else 16) (slice_from d 24); Ok (nano, ps)
  end.
