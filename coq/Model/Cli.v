(* Model of the port-related command-line handling of tlexport/main.py: arg_parser_init (-p, -m), MapPortsAction, get_port_map and
   the server_ports.extend of run().  A command line is a list of tokens: the options -p and -m, other (flag) options, and value
   strings.  argparse: "-p" (nargs='+', action='extend', default [443]) takes the value strings that follow, at least one; "-m"
   (nargs='*', MapPortsAction) takes the value strings that follow, possibly none. *)
From Coq Require Import ZArith List Bool.
Require Import PyLib.
Import ListNotations.
Open Scope Z_scope.

Inductive tok := TP | TM | TFlag | TVal (v : bytes).

Definition is_val (t : tok) : bool := match t with TVal _ => true | _ => false end.
Fixpoint take_vals (l : list tok) : list bytes * list tok :=
  match l with TVal v :: r => let '(vs, rest) := take_vals r in (v :: vs, rest) | _ => ([], l) end.

(* a port value as argparse hands it on: the default is the int 443, values from the command line are strings *)
Inductive pval := PInt (n : Z) | PStr (s : bytes).

Record ns := { ns_serverports : list pval; ns_mapports : option (list bytes); ns_keep : bool }.
Definition ns0 : ns := {| ns_serverports := [PInt 443]; ns_mapports := None; ns_keep := true |}.

Definition bare_m_default : list bytes := [[52; 52; 51; 58; 56; 48; 56; 48]].      (* ["443:8080"] *)

Fixpoint parse_args (fuel : nat) (l : list tok) (a : ns) : result ns :=
  match fuel with
  | O => Exn OutOfFuel
  | S f =>
      match l with
      | [] => Ok a
      | TP :: r => let '(vs, rest) := take_vals r in
                   match vs with
                   | [] => Exn SysExit                  (* expected at least one argument *)
                   | _ => parse_args f rest {| ns_serverports := ns_serverports a ++ map PStr vs; ns_mapports := ns_mapports a; ns_keep := ns_keep a |}
                   end
      | TM :: r => let '(vs, rest) := take_vals r in
                   parse_args f rest {| ns_serverports := ns_serverports a; ns_mapports := Some (match vs with [] => bare_m_default | _ => vs end); ns_keep := false |}
      | TFlag :: r => parse_args f r a
      | TVal _ :: _ => Exn SysExit                      (* unrecognized arguments *)
      end
  end.

(* int() on a string of decimal digits; anything else is a ValueError (signs, blanks and underscores are outside the modelled domain) *)
Definition is_digit (c : Z) : bool := (48 <=? c) && (c <=? 57).
Definition parse_int (s : bytes) : result Z :=
  match s with
  | [] => Exn ValueError
  | _ => if forallb is_digit s then Ok (fold_left (fun acc c => 10 * acc + (c - 48)) s 0) else Exn ValueError
  end.
Definition pval_int (p : pval) : result Z := match p with PInt n => Ok n | PStr s => parse_int s end.

Fixpoint map_result {A B} (f : A -> result B) (l : list A) : result (list B) :=
  match l with [] => Ok [] | x :: r => do y <- f x; do ys <- map_result f r; Ok (y :: ys) end.

(* str.split(":") *)
Fixpoint split_colon (s : bytes) (cur : bytes) : list bytes :=
  match s with
  | [] => [cur]
  | c :: r => if c =? 58 then cur :: split_colon r [] else split_colon r (cur ++ [c])
  end.

(* dict assignment *)
Fixpoint pm_set (k v : Z) (l : list (Z * Z)) : list (Z * Z) :=
  match l with [] => [(k, v)] | (k', v') :: r => if k' =? k then (k, v) :: r else (k', v') :: pm_set k v r end.

Definition port_map_entry (pm : list (Z * Z)) (i : bytes) : result (list (Z * Z)) :=
  let parts := split_colon (filter (fun c => negb (c =? 44)) i) [] in       (* i.replace(",", "").split(":") *)
  match parts with
  | a :: b :: _ => do sp <- parse_int a; do op <- parse_int b; Ok (pm_set sp op pm)
  | [a] => do sp <- parse_int a; Exn IndexError                              (* split[1] *)
  | [] => Exn IndexError
  end.

Definition get_port_map (a : ns) : result (list (Z * Z)) :=
  match ns_mapports a with
  | None => Ok []
  | Some l => fold_left (fun acc i => do pm <- acc; port_map_entry pm i) l (Ok [])
  end.

Definition base_server_ports : list Z := [443; 44330].

(* what run() works with: (server_ports, portmap, keep_original_ports) *)
Definition cli (l : list tok) : result (list Z * list (Z * Z) * bool) :=
  do a <- parse_args (S (length l)) l ns0;
  do pm <- get_port_map a;                        (* get_port_map runs before server_ports.extend *)
  do ps <- map_result pval_int (ns_serverports a);
  Ok (base_server_ports ++ ps, pm, ns_keep a).
