(* Time stamps: pcapng ticks -> float seconds (dpkt_dsb.Reader.__iter__) -> integer microseconds (dpkt.pcapng.Writer.writepkts).

     ts = self._tsoffset + (((ts_high << 32) | ts_low) / self._divisor)        int + (int / int)  -> float
     ts = intround(ts * 1e6)                                                   int(round(float * float))

   Python's int / int is the correctly rounded quotient; int + float converts the int (correctly rounded) and adds; float * float and
   float + float round the exact result once, to nearest even; round() of a float is the nearest integer, ties to even.  The binary64
   operations are Flocq's executable ones (binary_round, SFdiv_core_binary + binary_round_aux), whose correctness theorems are Flocq's. *)
From Coq Require Import ZArith Bool SpecFloat.
From Flocq Require Import BinarySingleNaN.
Open Scope Z_scope.

Definition rn (s : bool) (m : positive) (e : Z) : spec_float := binary_round 53 1024 mode_NE s m e.

(* the float nearest to the dyadic number m * 2^e *)
Definition rn_z (m e : Z) : spec_float :=
  match m with Z0 => S754_zero false | Zpos p => rn false p e | Zneg p => rn true p e end.

(* the float nearest to the rational n / d *)
Definition rn_div (n d : positive) : spec_float :=
  let '(mz, ez, lz) := SFdiv_core_binary 53 1024 (Zpos n) 0 (Zpos d) 0 in binary_round_aux 53 1024 mode_NE false mz ez lz.

(* a finite float as (signed mantissa, exponent) *)
Definition sf_dyadic (x : spec_float) : option (Z * Z) :=
  match x with
  | S754_zero _ => Some (0, 0)
  | S754_finite s m e => Some (if s then Zneg m else Zpos m, e)
  | _ => None
  end.

(* round(): the integer nearest to m * 2^e, ties to even *)
Definition rne_int (m e : Z) : Z :=
  if 0 <=? e then m * 2 ^ e else
  let d := 2 ^ (- e) in
  let q := m / d in let r := m mod d in
  if 2 * r <? d then q else if d <? 2 * r then q + 1 else if Z.even q then q else q + 1.

Definition obind {A B} (x : option A) (f : A -> option B) : option B := match x with Some a => f a | None => None end.

(* seconds as the reader yields them: offset + ticks / divisor *)
Definition read_ts (ticks divisor offset : Z) : option spec_float :=
  if (ticks <? 0) || (divisor <=? 0) then None else
  let x := match ticks with Zpos n => rn_div n (Z.to_pos divisor) | _ => S754_zero false end in
  obind (sf_dyadic x) (fun '(mx, ex) =>
  obind (sf_dyadic (rn_z offset 0)) (fun '(mo, eo) =>
  let e := Z.min ex eo in
  Some (rn_z (mx * 2 ^ (ex - e) + mo * 2 ^ (eo - e)) e))).

(* microseconds as the writer writes them: intround(ts * 1e6) *)
Definition write_us (ts : spec_float) : option Z :=
  obind (sf_dyadic ts) (fun '(mt, et) =>
  obind (sf_dyadic (rn_z (mt * 1000000) et)) (fun '(my, ey) => Some (rne_int my ey))).

Definition time_us (ticks divisor offset : Z) : option Z := obind (read_ts ticks divisor offset) write_us.

(* legacy pcap (-l), dpkt.pcap.Reader:  tv_sec + tv_usec / 1e6  (int + int / float: the same operations as above with the seconds as offset), and for the
   nanosecond magic  tv_sec + tv_usec / Decimal('1E9'),  an exact decimal that main.py's float(ts) rounds once *)
Definition legacy_us (nano : bool) (sec sub : Z) : option Z :=
  if nano then time_us (sec * 1000000000 + sub) 1000000000 0 else time_us sub 1000000 sec.
