(* Model of tlexport/decryptor.py *)
From Coq Require Import ZArith List Bool.
Require Import PyLib SuiteTypes Crypto KeySchedule Packet Reassembly.
Import ListNotations.
Open Scope Z_scope.

Inductive cipher_type := CT_Stream | CT_Block | CT_AEAD | CT_Unknown.

Definition get_cipher_type (a : option alg) : cipher_type :=
  match a with
  | Some AESCCM | Some AESGCM => CT_AEAD
  | Some AES | Some TripleDES | Some Camellia | Some IDEA => CT_Block
  | Some ChaCha20 | Some ChaCha20Poly1305 | Some ARC4 => CT_Stream
  | None => CT_Unknown
  end.

Record decryptor := {
  d_bulk : option alg; d_version : tls_version; d_mac_length : Z; d_tag_length : Z; d_block_length : Z;
  d_compression : Z; d_etm : bool; d_ctype : cipher_type;
  (* current keys; None models a Python None (TLS 1.3 with secrets missing from the key log) *)
  d_client_key : option bytes; d_server_key : option bytes; d_client_iv : option bytes; d_server_iv : option bytes;
  d_client_mac : bytes; d_server_mac : bytes;
  (* TLS 1.3: handshake and application keys *)
  d_c_hs_key : option bytes; d_s_hs_key : option bytes; d_c_app_key : option bytes; d_s_app_key : option bytes;
  d_c_hs_iv : option bytes; d_s_hs_iv : option bytes; d_c_app_iv : option bytes; d_s_app_iv : option bytes;
  d_client_seq : Z; d_server_seq : Z;
  d_last_block_client : option bytes; d_last_block_server : option bytes;   (* None: attribute absent (not TLS 1.0 / SSL 3.0) *)
  d_has_stream : bool;                                                       (* server_cipher / client_cipher exist *)
  d_rc4_client : Z; d_rc4_server : Z;                                        (* bytes of keystream consumed so far *)
  d_zc : list bytes; d_zs : list bytes }.                                    (* inputs fed to the two zlib streams *)

Definition byte_of (o : option bytes) : result bytes := match o with Some b => Ok b | None => Exn TypeError end.

Section Dec.
Variable C : Crypto.

(* Decryptor.__init__ *)
Definition new_decryptor (bulk : option alg) (keys : session_keys) (v : tls_version) (mac_length tag_length block_length : Z)
           (extensions : list (bytes * bytes)) (compression : Z) : result decryptor :=
  let etm := existsb (fun e => bytes_eqb (fst e) [0; 22]) extensions in
  let ct := get_cipher_type bulk in
  let is13 := version_eqb v TLS13 in
  do k <- (match keys, is13 with
           | K13 k, true =>
               (* parse_keys: a missing handshake key or iv is replaced by the application one *)
               let c_missing := match client_hs_key k, client_hs_iv k with Some _, Some _ => false | _, _ => true end in
               let s_missing := match server_hs_key k, server_hs_iv k with Some _, Some _ => false | _, _ => true end in
               let chk := if c_missing then client_app_key k else client_hs_key k in
               let chi := if c_missing then client_app_iv k else client_hs_iv k in
               let shk := if s_missing then server_app_key k else server_hs_key k in
               let shi := if s_missing then server_app_iv k else server_hs_iv k in
               Ok (chk, shk, chi, shi, [], [], (chk, shk, client_app_key k, server_app_key k), (chi, shi, client_app_iv k, server_app_iv k))
           | K12 k, false =>
               Ok (Some (client_key k), Some (server_key k), Some (client_iv k), Some (server_iv k), client_mac k, server_mac k,
                   (None, None, None, None), (None, None, None, None))
           | _, _ => Exn KeyError      (* keys dict of the other shape *)
           end);
  let '(ck, sk, civ, siv, cmac, smac, (chk, shk, cak, sak), (chi, shi, cai, sai)) := k in
  let legacy := version_eqb v TLS10 || version_eqb v SSL30 in
  let stream := match ct, bulk with CT_Stream, Some ChaCha20Poly1305 => false | CT_Stream, _ => true | _, _ => false end in
  (* Cipher(self.bulk_alg(self.server_key), mode=None): ARC4 accepts 5..32-byte keys; ChaCha20 needs a nonce: TypeError *)
  do _ <- (if stream then match bulk with
                          | Some ARC4 => do key <- byte_of sk; do key2 <- byte_of ck;
                                         if (5 <=? len key) && (len key <=? 32) && (5 <=? len key2) && (len key2 <=? 32) then Ok tt else Exn ValueError
                          | _ => Exn TypeError end
           else Ok tt);
  Ok {| d_bulk := bulk; d_version := v; d_mac_length := mac_length; d_tag_length := tag_length; d_block_length := block_length;
        d_compression := compression; d_etm := etm; d_ctype := ct;
        d_client_key := ck; d_server_key := sk; d_client_iv := civ; d_server_iv := siv; d_client_mac := cmac; d_server_mac := smac;
        d_c_hs_key := chk; d_s_hs_key := shk; d_c_app_key := cak; d_s_app_key := sak;
        d_c_hs_iv := chi; d_s_hs_iv := shi; d_c_app_iv := cai; d_s_app_iv := sai;
        d_client_seq := 0; d_server_seq := 0;
        d_last_block_client := if legacy then civ else None; d_last_block_server := if legacy then siv else None;
        d_has_stream := stream; d_rc4_client := 0; d_rc4_server := 0; d_zc := []; d_zs := [] |}.

Definition set_seq (d : decryptor) (isserver : bool) (n : Z) : decryptor :=
  {| d_bulk := d_bulk d; d_version := d_version d; d_mac_length := d_mac_length d; d_tag_length := d_tag_length d; d_block_length := d_block_length d;
     d_compression := d_compression d; d_etm := d_etm d; d_ctype := d_ctype d;
     d_client_key := d_client_key d; d_server_key := d_server_key d; d_client_iv := d_client_iv d; d_server_iv := d_server_iv d;
     d_client_mac := d_client_mac d; d_server_mac := d_server_mac d;
     d_c_hs_key := d_c_hs_key d; d_s_hs_key := d_s_hs_key d; d_c_app_key := d_c_app_key d; d_s_app_key := d_s_app_key d;
     d_c_hs_iv := d_c_hs_iv d; d_s_hs_iv := d_s_hs_iv d; d_c_app_iv := d_c_app_iv d; d_s_app_iv := d_s_app_iv d;
     d_client_seq := if isserver then d_client_seq d else n; d_server_seq := if isserver then n else d_server_seq d;
     d_last_block_client := d_last_block_client d; d_last_block_server := d_last_block_server d;
     d_has_stream := d_has_stream d; d_rc4_client := d_rc4_client d; d_rc4_server := d_rc4_server d; d_zc := d_zc d; d_zs := d_zs d |}.

Definition set_last_block (d : decryptor) (isserver : bool) (b : bytes) : decryptor :=
  {| d_bulk := d_bulk d; d_version := d_version d; d_mac_length := d_mac_length d; d_tag_length := d_tag_length d; d_block_length := d_block_length d;
     d_compression := d_compression d; d_etm := d_etm d; d_ctype := d_ctype d;
     d_client_key := d_client_key d; d_server_key := d_server_key d; d_client_iv := d_client_iv d; d_server_iv := d_server_iv d;
     d_client_mac := d_client_mac d; d_server_mac := d_server_mac d;
     d_c_hs_key := d_c_hs_key d; d_s_hs_key := d_s_hs_key d; d_c_app_key := d_c_app_key d; d_s_app_key := d_s_app_key d;
     d_c_hs_iv := d_c_hs_iv d; d_s_hs_iv := d_s_hs_iv d; d_c_app_iv := d_c_app_iv d; d_s_app_iv := d_s_app_iv d;
     d_client_seq := d_client_seq d; d_server_seq := d_server_seq d;
     d_last_block_client := if isserver then d_last_block_client d else Some b; d_last_block_server := if isserver then Some b else d_last_block_server d;
     d_has_stream := d_has_stream d; d_rc4_client := d_rc4_client d; d_rc4_server := d_rc4_server d; d_zc := d_zc d; d_zs := d_zs d |}.

Definition add_rc4 (d : decryptor) (isserver : bool) (n : Z) : decryptor :=
  {| d_bulk := d_bulk d; d_version := d_version d; d_mac_length := d_mac_length d; d_tag_length := d_tag_length d; d_block_length := d_block_length d;
     d_compression := d_compression d; d_etm := d_etm d; d_ctype := d_ctype d;
     d_client_key := d_client_key d; d_server_key := d_server_key d; d_client_iv := d_client_iv d; d_server_iv := d_server_iv d;
     d_client_mac := d_client_mac d; d_server_mac := d_server_mac d;
     d_c_hs_key := d_c_hs_key d; d_s_hs_key := d_s_hs_key d; d_c_app_key := d_c_app_key d; d_s_app_key := d_s_app_key d;
     d_c_hs_iv := d_c_hs_iv d; d_s_hs_iv := d_s_hs_iv d; d_c_app_iv := d_c_app_iv d; d_s_app_iv := d_s_app_iv d;
     d_client_seq := d_client_seq d; d_server_seq := d_server_seq d;
     d_last_block_client := d_last_block_client d; d_last_block_server := d_last_block_server d;
     d_has_stream := d_has_stream d;
     d_rc4_client := if isserver then d_rc4_client d else d_rc4_client d + n; d_rc4_server := if isserver then d_rc4_server d + n else d_rc4_server d;
     d_zc := d_zc d; d_zs := d_zs d |}.

Definition add_z (d : decryptor) (isserver : bool) (x : bytes) : decryptor :=
  {| d_bulk := d_bulk d; d_version := d_version d; d_mac_length := d_mac_length d; d_tag_length := d_tag_length d; d_block_length := d_block_length d;
     d_compression := d_compression d; d_etm := d_etm d; d_ctype := d_ctype d;
     d_client_key := d_client_key d; d_server_key := d_server_key d; d_client_iv := d_client_iv d; d_server_iv := d_server_iv d;
     d_client_mac := d_client_mac d; d_server_mac := d_server_mac d;
     d_c_hs_key := d_c_hs_key d; d_s_hs_key := d_s_hs_key d; d_c_app_key := d_c_app_key d; d_s_app_key := d_s_app_key d;
     d_c_hs_iv := d_c_hs_iv d; d_s_hs_iv := d_s_hs_iv d; d_c_app_iv := d_c_app_iv d; d_s_app_iv := d_s_app_iv d;
     d_client_seq := d_client_seq d; d_server_seq := d_server_seq d;
     d_last_block_client := d_last_block_client d; d_last_block_server := d_last_block_server d;
     d_has_stream := d_has_stream d; d_rc4_client := d_rc4_client d; d_rc4_server := d_rc4_server d;
     d_zc := if isserver then d_zc d else d_zc d ++ [x]; d_zs := if isserver then d_zs d ++ [x] else d_zs d |}.

(* update_keys: handshake -> application keys, sequence number 0.  The log line formats all four values with .hex() first *)
Definition update_keys (d : decryptor) (isserver : bool) : result decryptor :=
  let hk := if isserver then d_s_hs_key d else d_c_hs_key d in
  let ak := if isserver then d_s_app_key d else d_c_app_key d in
  let hi := if isserver then d_s_hs_iv d else d_c_hs_iv d in
  let ai := if isserver then d_s_app_iv d else d_c_app_iv d in
  match hk, ak, hi, ai with
  | Some _, Some _, Some _, Some _ =>
      Ok {| d_bulk := d_bulk d; d_version := d_version d; d_mac_length := d_mac_length d; d_tag_length := d_tag_length d; d_block_length := d_block_length d;
            d_compression := d_compression d; d_etm := d_etm d; d_ctype := d_ctype d;
            d_client_key := if isserver then d_client_key d else ak; d_server_key := if isserver then ak else d_server_key d;
            d_client_iv := if isserver then d_client_iv d else ai; d_server_iv := if isserver then ai else d_server_iv d;
            d_client_mac := d_client_mac d; d_server_mac := d_server_mac d;
            d_c_hs_key := d_c_hs_key d; d_s_hs_key := d_s_hs_key d; d_c_app_key := d_c_app_key d; d_s_app_key := d_s_app_key d;
            d_c_hs_iv := d_c_hs_iv d; d_s_hs_iv := d_s_hs_iv d; d_c_app_iv := d_c_app_iv d; d_s_app_iv := d_s_app_iv d;
            d_client_seq := if isserver then d_client_seq d else 0; d_server_seq := if isserver then 0 else d_server_seq d;
            d_last_block_client := d_last_block_client d; d_last_block_server := d_last_block_server d;
            d_has_stream := d_has_stream d; d_rc4_client := d_rc4_client d; d_rc4_server := d_rc4_server d; d_zc := d_zc d; d_zs := d_zs d |}
  | _, _, _, _ => Exn AttributeError
  end.

(* decryptor.byte_xor(a, b): b left-padded with zeros to len(a); bytes(negative) raises ValueError *)
Definition byte_xor (a b : bytes) : result bytes :=
  let diff := len a - len b in
  if diff <? 0 then Exn ValueError else Ok (xor_zip a (zeros diff ++ b)).

Definition cur_key (d : decryptor) (isserver : bool) := if isserver then d_server_key d else d_client_key d.
Definition cur_iv (d : decryptor) (isserver : bool) := if isserver then d_server_iv d else d_client_iv d.
Definition cur_seq (d : decryptor) (isserver : bool) := if isserver then d_server_seq d else d_client_seq d.

Definition inflate_if (d : decryptor) (isserver : bool) (x : bytes) : result (decryptor * bytes) :=
  if d_compression d =? 1 then
    do y <- c_inflate C (if isserver then d_zs d else d_zc d) x; Ok (add_z d isserver x, y)
  else Ok (d, x).

(* one's own result type: Some plaintext, or None when decrypt() falls through all branches *)
Definition decrypt_tls13 (d : decryptor) (r : tls_record) (isserver : bool) (a : alg) : result (decryptor * bytes) :=
  do rt <- to_be (r_type r) 1;
  let aad := rt ++ r_version r ++ r_length r in
  do iv <- byte_of (cur_iv d isserver);       (* iv.hex() in the log line: AttributeError on None; kind does not matter, it is caught *)
  do key <- byte_of (cur_key d isserver);
  let seq := cur_seq d isserver in
  do s8 <- to_be seq 8;
  do nonce <- byte_xor iv s8;
  do pt <- c_aead_dec C a (d_tag_length d) key nonce (r_body r) aad;
  Ok (set_seq d isserver (seq + 1), pt).

Definition decrypt_generic_stream (d : decryptor) (r : tls_record) (isserver : bool) : result (decryptor * bytes) :=
  if negb (d_has_stream d) then Exn AttributeError else
  do key <- byte_of (cur_key d isserver);
  let off := if isserver then d_rc4_server d else d_rc4_client d in
  do dec <- c_rc4 C key off (r_body r);
  Ok (add_rc4 d isserver (len (r_body r)), slice_drop_last dec (d_mac_length d)).

Definition decrypt_tls12_aead (d : decryptor) (r : tls_record) (isserver : bool) (a : alg) : result (decryptor * bytes) :=
  do key <- byte_of (cur_key d isserver); do iv <- byte_of (cur_iv d isserver);
  let seq := cur_seq d isserver in
  let clen := len (r_body r) - 8 - d_tag_length d in
  do s8 <- to_be seq 8; do cl <- to_be clen 2;
  let aad := s8 ++ slice (r_raw r) 0 3 ++ cl in
  let nonce := iv ++ slice (r_body r) 0 8 in
  do pt <- c_aead_dec C a (d_tag_length d) key nonce (slice_from (r_body r) 8) aad;
  inflate_if (set_seq d isserver (seq + 1)) isserver pt.

Definition strip_cbc (d : decryptor) (decrypted : bytes) : result bytes :=
  do padding_length <- index decrypted (-1);
  let x := slice_drop_last decrypted (padding_length + 1) in
  Ok (if d_etm d then x else slice_drop_last x (d_mac_length d)).

Definition decrypt_tls12_block (d : decryptor) (r : tls_record) (isserver : bool) (a : alg) : result (decryptor * bytes) :=
  do key <- byte_of (cur_key d isserver);
  let bs := match a with AES | Camellia => 16 | _ => 8 end in
  let iv := slice (r_body r) 0 bs in
  let ct := slice_from (r_body r) bs in
  let ct := if d_etm d then slice_drop_last ct (d_mac_length d) else ct in
  do dec <- c_cbc_dec C a key iv ct;
  do pt <- strip_cbc d dec;
  inflate_if d isserver pt.

Definition decrypt_last_block_iv_cbc (d : decryptor) (r : tls_record) (isserver : bool) (a : alg) : result (decryptor * bytes) :=
  do key <- byte_of (cur_key d isserver);
  do iv <- (match (if isserver then d_last_block_server d else d_last_block_client d) with Some b => Ok b | None => Exn AttributeError end);
  let ct := if d_etm d then slice_drop_last (r_body r) (d_mac_length d) else r_body r in
  do dec <- c_cbc_dec C a key iv ct;
  do pt <- strip_cbc d dec;
  let idx := d_block_length d / 8 in
  let d' := set_last_block d isserver (slice_last ct idx) in
  inflate_if d' isserver pt.

Definition decrypt_tls12_chacha20 (d : decryptor) (r : tls_record) (isserver : bool) : result (decryptor * bytes) :=
  do key <- byte_of (cur_key d isserver); do iv <- byte_of (cur_iv d isserver);
  let seq := cur_seq d isserver in
  do s8 <- to_be seq 8; do rt <- to_be (r_type r) 1; do l2 <- to_be (len (r_body r) - 16) 2;
  let aad := s8 ++ rt ++ r_version r ++ l2 in
  do nonce <- byte_xor iv s8;
  do pt <- c_aead_dec C ChaCha20Poly1305 16 key nonce (r_body r) aad;
  inflate_if (set_seq d isserver (seq + 1)) isserver pt.

(* Decryptor.decrypt: the dispatch; None = fell through (returns None) *)
Definition decrypt (d : decryptor) (r : tls_record) (isserver : bool) : result (decryptor * option bytes) :=
  let some x := rmap (fun p => (fst p, Some (snd p))) x in
  let is v := version_eqb (d_version d) v in
  match d_ctype d with
  | CT_AEAD => if is TLS13 then some (decrypt_tls13 d r isserver (match d_bulk d with Some AESCCM => AESCCM | _ => AESGCM end))
               else some (decrypt_tls12_aead d r isserver (match d_bulk d with Some AESCCM => AESCCM | _ => AESGCM end))
  | _ =>
    if is TLS13 then some (decrypt_tls13 d r isserver ChaCha20Poly1305)
    else if is TLS12 && (match d_bulk d with Some ChaCha20Poly1305 => true | _ => false end) then some (decrypt_tls12_chacha20 d r isserver)
    else match d_ctype d, d_bulk d with
         | CT_Stream, _ => some (decrypt_generic_stream d r isserver)
         | CT_Block, Some a => if is TLS12 || is TLS11 then some (decrypt_tls12_block d r isserver a)
                               else some (decrypt_last_block_iv_cbc d r isserver a)
         | _, _ => Ok (d, None)
         end
  end.
End Dec.
