(* Model of tlexport/quic/quic_decode.py *)
From Coq Require Import ZArith List Bool.
Require Import PyLib.
Import ListNotations.
Open Scope Z_scope.

(* get_variable_length_int_length(b): v = b[0]; 1 << (v >> 6) *)
Definition get_variable_length_int_length (b : bytes) : result Z :=
  do v <- index b 0; Ok (Z.shiftl 1 (Z.shiftr v 6)).

(* for i in range(1, length): v = (v << 8) + b[i] *)
Fixpoint varint_loop (b : bytes) (i : Z) (n : nat) (v : Z) : result Z :=
  match n with
  | O => Ok v
  | S n' => do x <- index b i; varint_loop b (i + 1) n' (Z.shiftl v 8 + x)
  end.

Definition decode_variable_length_int (b : bytes) : result Z :=
  do v <- index b 0;
  let length := Z.shiftl 1 (Z.shiftr v 6) in
  varint_loop b 1 (Z.to_nat (length - 1)) (Z.land v 63).
