(* Model of tlexport/session.py: the TLS-over-TCP session (record handling, key lookup, the decrypt() driver). *)
From Coq Require Import ZArith List Bool.
From Coq Require String.
Require Import PyLib SuiteTypes SuiteParser Crypto KeySchedule Packet Reassembly Decryptor.
Import ListNotations.
Open Scope Z_scope.

(* (plaintext | None, record, isserver) *)
(* te_meta = true: an entry the code appends only under -a (exp_meta); the handlers below emit every entry with its tag and
   the option is applied where the traffic is read (session_traffic): no handler's state depends on it *)
Record traffic_entry := { te_data : option bytes; te_record : tls_record; te_isserver : bool; te_meta : bool }.

Inductive version_attr := VUndefined | VSet (v : tls_version).    (* self.tls_version: TlsVersion.UNDEFINED until a ServerHello sets it *)

(* the part of a Session the record handlers read and write (decrypt()-time state) *)
Record tcore := {
  ts_can_decrypt : bool; ts_client_hello_seen : bool; ts_server_cc : bool; ts_client_cc : bool;
  ts_client_random : bytes; ts_version : version_attr;
  ts_extensions : list (bytes * bytes); ts_compression : Z;
  ts_decryptor : option decryptor;
  ts_hs_client : bytes; ts_hs_server : bytes;
  ts_pending_client : Z; ts_pending_server : Z;      (* handshake_pending: bytes of a fragmented plaintext handshake message still to come *)
  ts_partial_client : bytes; ts_partial_server : bytes }.   (* handshake_partial: the first bytes of a message header cut by a record boundary *)      (* handshake_buffer: decrypted TLS 1.3 handshake bytes not yet consumed as whole messages *)

(* a Session: endpoint identity (fixed by the first packet), the buffered packets with the duplicate memory, and the core *)
Record tsession := {
  ts_server_ip : bytes; ts_server_port : Z; ts_server_mac : bytes;
  ts_client_ip : bytes; ts_client_port : Z; ts_client_mac : bytes; ts_ipv6 : bool;
  ts_packet_buffer : list packet; ts_seen_server : list Z; ts_seen_client : list Z;
  ts_core : tcore }.

Definition from_server_id (server_ip : bytes) (server_port : Z) (p : packet) : bool :=
  ip_eqb (p_src p) server_ip && (p_sport p =? server_port).
Definition from_server (s : tsession) (p : packet) : bool := from_server_id (ts_server_ip s) (ts_server_port s) p.

(* ---- record-level helpers to rebuild the record with one field changed ---- *)
Definition upd (s : tcore) (can ch scc ccc : bool) (cr : bytes) (v : version_attr) (ext : list (bytes * bytes)) (comp : Z)
           (d : option decryptor) : tcore :=
  {| ts_can_decrypt := can; ts_client_hello_seen := ch; ts_server_cc := scc; ts_client_cc := ccc;
     ts_client_random := cr; ts_version := v; ts_extensions := ext; ts_compression := comp;
     ts_decryptor := d; ts_hs_client := ts_hs_client s; ts_hs_server := ts_hs_server s;
     ts_pending_client := ts_pending_client s; ts_pending_server := ts_pending_server s;
     ts_partial_client := ts_partial_client s; ts_partial_server := ts_partial_server s |}.
Definition set_can (s : tcore) (b : bool) := upd s b (ts_client_hello_seen s) (ts_server_cc s) (ts_client_cc s) (ts_client_random s) (ts_version s) (ts_extensions s) (ts_compression s) (ts_decryptor s).
Definition set_dec (s : tcore) (d : option decryptor) := upd s (ts_can_decrypt s) (ts_client_hello_seen s) (ts_server_cc s) (ts_client_cc s) (ts_client_random s) (ts_version s) (ts_extensions s) (ts_compression s) d.
Definition set_hs (s : tcore) (isserver : bool) (b : bytes) : tcore :=
  {| ts_can_decrypt := ts_can_decrypt s; ts_client_hello_seen := ts_client_hello_seen s; ts_server_cc := ts_server_cc s; ts_client_cc := ts_client_cc s;
     ts_client_random := ts_client_random s; ts_version := ts_version s; ts_extensions := ts_extensions s; ts_compression := ts_compression s;
     ts_decryptor := ts_decryptor s;
     ts_hs_client := if isserver then ts_hs_client s else b; ts_hs_server := if isserver then b else ts_hs_server s;
     ts_pending_client := ts_pending_client s; ts_pending_server := ts_pending_server s;
     ts_partial_client := ts_partial_client s; ts_partial_server := ts_partial_server s |}.
Definition set_pending (s : tcore) (isserver : bool) (n : Z) (partial : bytes) : tcore :=
  {| ts_can_decrypt := ts_can_decrypt s; ts_client_hello_seen := ts_client_hello_seen s; ts_server_cc := ts_server_cc s; ts_client_cc := ts_client_cc s;
     ts_client_random := ts_client_random s; ts_version := ts_version s; ts_extensions := ts_extensions s; ts_compression := ts_compression s;
     ts_decryptor := ts_decryptor s; ts_hs_client := ts_hs_client s; ts_hs_server := ts_hs_server s;
     ts_pending_client := if isserver then ts_pending_client s else n; ts_pending_server := if isserver then n else ts_pending_server s;
     ts_partial_client := if isserver then ts_partial_client s else partial; ts_partial_server := if isserver then partial else ts_partial_server s |}.
Section Sess.
Variable C : Crypto.
Variable suite_table : list (Z * String.string).
Variable suite_parts : parts.
Variable keylog : list secret.          (* the module-level key log at decrypt() time: file lines, then every DSB's lines *)

(* find_session_secrets: the lines whose client random equals this session's, in key-log order *)
Definition find_session_secrets (s : tcore) : list secret :=
  filter (fun k => bytes_eqb (s_random k) (ts_client_random s)) keylog.

(* generate_keys *)
Definition generate_keys (s : tcore) (v : tls_version) (ciphersuite : bytes) (server_random : bytes) : result tcore :=
  match split_cipher_suite suite_table suite_parts (from_be ciphersuite) with
  | None => Ok (set_can s false)
  | Some cs =>
    let secret_list := find_session_secrets s in
    match secret_list with
    | [] => Ok (set_can s false)
    | _ =>
      (* keys stay unassigned when the first matching line has a label the version's branch does not handle *)
      match derive_session_keys C v cs secret_list (ts_client_random s) server_random with
      (* keys stay None when the first matching line has a label the version's branch does not handle; any exception of the derivation
         or of Decryptor.__init__ is caught where generate_keys is called: the session cannot be decrypted, nothing else changes *)
      | Exn _ => Ok (set_can s false)
      | Ok keys =>
        let block_size := match algo_of cs with
                          | Some AES | Some AESCCM | Some AESGCM | Some Camellia => 128
                          | Some TripleDES | Some IDEA => 64 | _ => 0 end in
        match new_decryptor (algo_of cs) keys v (digest_size (s_mac cs)) (s_tag cs) block_size (ts_extensions s) (ts_compression s) with
        | Ok d => Ok (set_dec s (Some d))
        | Exn _ => Ok (set_can s false)
        end
      end
    end
  end.

Definition handle_tls_client_hello (s : tcore) (r : tls_record) : tcore :=
  upd s false true false false (slice (r_body r) 6 38) (ts_version s) (ts_extensions s) (ts_compression s) (ts_decryptor s).

(* the extension walk: bounded by the declared length; a dict, so a later duplicate replaces the earlier value *)
Fixpoint ext_walk (fuel : nat) (bin : bytes) (i total : Z) (acc : list (bytes * bytes)) : list (bytes * bytes) :=
  if i <? total then
    match fuel with
    | O => acc
    | S f => let el := from_be (slice bin (i + 2) (i + 4)) in
             let k := slice bin i (i + 2) in
             let v := slice bin (i + 4) (i + 4 + el) in
             ext_walk f bin (i + el + 4) total (filter (fun e => negb (bytes_eqb (fst e) k)) acc ++ [(k, v)])
    end
  else acc.
Definition ext_get (k : bytes) (l : list (bytes * bytes)) : option bytes :=
  match find (fun e => bytes_eqb (fst e) k) l with Some e => Some (snd e) | None => None end.

Definition handle_tls_server_hello (s : tcore) (r : tls_record) : result tcore :=
  let b := r_body r in
  (* without a ClientHello there is no client random to look keys up with; truncated hellos are ignored *)
  if negb (ts_client_hello_seen s) then Ok s else
  if len b <? 39 then Ok (set_can s false) else
  let server_random := slice b 6 38 in
  let sid_len := nth 38 b 0 in
  let idx := 38 + sid_len + 1 in
  if len b <? idx + 3 then Ok (set_can s false) else
  let ciphersuite := slice b idx (idx + 2) in
  let compression := nth (Z.to_nat (idx + 2)) b 0 in
  (* the optional extensions field ends with the ServerHello message, not with the record *)
  let message_end := 4 + from_be (slice b 1 4) in
  let has_ext := idx + 5 <=? message_end in
  let extensions_length := if has_ext then from_be (slice b (idx + 3) (idx + 5)) else 0 in
  let extensions_bin := if has_ext then slice b (idx + 5) (Z.min (idx + 5 + extensions_length) message_end) else [] in
  let exts := ext_walk (S (Z.to_nat extensions_length)) extensions_bin 0 extensions_length [] in
  let is_tls13 := match ext_get [0; 43] exts with Some v => bytes_eqb v [3; 4] | None => false end in
  let s1 := upd s true true (ts_server_cc s) (ts_client_cc s) (ts_client_random s) (ts_version s) exts compression (ts_decryptor s) in
  let rv := from_be (r_version r) in
  let hv := from_be (slice b 4 6) in
  let ver := if rv =? 0x0300 then Some SSL30 else if rv =? 0x0302 then Some TLS11
             else if hv =? 0x0301 then Some TLS10 else if hv =? 0x0303 then Some (if is_tls13 then TLS13 else TLS12) else None in
  match ver with
  | None => Ok (set_can s1 false)
  | Some v =>
      let s2 := upd s1 (ts_can_decrypt s1) true (ts_server_cc s1) (ts_client_cc s1) (ts_client_random s1) (VSet v) exts compression (ts_decryptor s1) in
      generate_keys s2 v ciphersuite server_random
  end.

(* handle_handshake_finished; every exception inside is caught by the caller, leaving the session as it was.
   The decrypted Finished is exported under -a when it is not empty. *)
Definition handle_handshake_finished (s : tcore) (r : tls_record) (isserver : bool) : tcore * list traffic_entry :=
  match ts_decryptor s with
  | None => (s, [])
  | Some d =>
      let go := (if isserver then ts_server_cc s else ts_client_cc s) && ts_can_decrypt s in
      if go then
        match decrypt C d r isserver with
        | Ok (d', pt) =>
            (set_dec s (Some d'),
             if negb (match pt with Some [] => true | _ => false end)
             then [ {| te_data := pt; te_record := r; te_isserver := isserver; te_meta := true |} ] else [])
        | Exn _ => (s, [])
        end
      else (s, [])            (* exp_meta and an unbound _plaintext: UnboundLocalError, caught *)
  end.

(* the walk over the message headers of a plaintext handshake record, starting behind the bytes that continue a fragmented message:
   the index where it stops (each round adds at least 4) *)
Fixpoint hs_headers (fuel : nat) (b : bytes) (index : Z) : Z :=
  if index + 4 <=? len b then
    match fuel with O => index | S f => hs_headers f b (index + 4 + from_be (slice b (index + 1) (index + 4))) end
  else index.

Definition handle_tls_handshake_record (s : tcore) (r : tls_record) (isserver : bool) : result (tcore * list traffic_entry) :=
  if ts_server_cc s || ts_client_cc s then Ok (handle_handshake_finished s r isserver)
  else match r_body r with
       | [] => Ok (s, [])                             (* empty handshake record: ignored *)
       | t :: _ =>
           let continued := if isserver then ts_pending_server s else ts_pending_client s in
           let partial := if isserver then ts_partial_server s else ts_partial_client s in
           let data := partial ++ r_body r in
           let index := hs_headers (S (length data)) data continued in
           let s := set_pending s isserver (Z.max (index - len data) 0) (slice_from data index) in
           if (0 <? continued) || (0 <? len partial) then Ok (s, [])   (* the record starts inside a fragmented message or header *)
           else if t =? 1 then Ok (handle_tls_client_hello s r, [])
           else if t =? 2 then rmap (fun c => (c, [])) (handle_tls_server_hello s r)
           else Ok (handle_handshake_finished s r isserver)
       end.

Definition handle_alert (s : tcore) (alert_level : Z) : tcore :=
  if (alert_level =? 1) && negb (match ts_version s with VSet TLS13 => true | _ => false end) then s
  else upd s false false (ts_server_cc s) (ts_client_cc s) (ts_client_random s) (ts_version s) (ts_extensions s) (ts_compression s) (ts_decryptor s).

(* index of the last non-zero byte + 1 (TLS 1.3 inner plaintext: content || type || zero padding) *)
Fixpoint strip_zeros_rev (l : bytes) : bytes := match l with 0 :: r => strip_zeros_rev r | _ => l end.
Definition strip_padding (p : bytes) : bytes := rev (strip_zeros_rev (rev p)).

(* handle_decrypted_tls_13_handshake_record: the record's bytes are appended to the direction's buffer and whole messages are
   consumed from its front; a Finished (type 20) switches the direction to its application keys.  When update_keys raises, the
   message is already consumed and the exception ends the loop (caught by the caller): (decryptor, buffer left) *)
Fixpoint hs13_consume (fuel : nat) (d : decryptor) (buf : bytes) (isserver : bool) : decryptor * bytes :=
  if len buf <? 4 then (d, buf) else
  let l := from_be (slice buf 1 4) in
  if len buf <? 4 + l then (d, buf) else
  match fuel with
  | O => (d, buf)
  | S f =>
      let t := nth 0 buf 0 in
      let rest := slice_from buf (4 + l) in
      if t =? 20 then match update_keys d isserver with Ok d' => hs13_consume f d' rest isserver | Exn _ => (d, rest) end
      else hs13_consume f d rest isserver
  end.

Definition handle_tls_13_application_record (s : tcore) (d : decryptor) (r : tls_record) (isserver : bool) : tcore * list traffic_entry :=
  match decrypt C d r isserver with
  | Ok (d', Some pt0) =>
      let pt := strip_padding pt0 in
      let s' := set_dec s (Some d') in
      match rev pt with
      | [] => (s', [])
      | t :: body_rev =>
          if t =? 22 then
            let buf := (if isserver then ts_hs_server s else ts_hs_client s) ++ rev body_rev in
            let '(d'', remaining) := hs13_consume (S (length buf)) d' buf isserver in
            (set_hs (set_dec s' (Some d'')) isserver remaining, [])
          else if t =? 23 then (s', [ {| te_data := Some (rev body_rev); te_record := r; te_isserver := isserver; te_meta := false |} ])
          else (s', [])
      end
  | Ok (d', None) => (set_dec s (Some d'), [])     (* plaintext[-1:] on None: TypeError, caught *)
  | Exn _ => (s, [])
  end.

Definition handle_tls_application_record (s : tcore) (d : decryptor) (r : tls_record) (isserver : bool) : tcore * list traffic_entry :=
  match decrypt C d r isserver with
  | Ok (d', pt) => (set_dec s (Some d'), [ {| te_data := pt; te_record := r; te_isserver := isserver; te_meta := false |} ])
  | Exn _ => (s, [])
  end.

Definition meta_entry (r : tls_record) (isserver : bool) : traffic_entry :=
  {| te_data := Some (r_raw r); te_record := r; te_isserver := isserver; te_meta := true |}.

Definition handle_tls_record (s : tcore) (r : tls_record) (isserver : bool) : result (tcore * list traffic_entry) :=
  if r_type r =? 0x16 then
    do x <- handle_tls_handshake_record s r isserver;
    Ok (fst x, snd x ++ [meta_entry r isserver])
  else if r_type r =? 0x17 then
    match ts_can_decrypt s, ts_decryptor s with
    | true, Some d =>
        match ts_version s with
        | VSet TLS13 => Ok (handle_tls_13_application_record s d r isserver)
        | VSet _ => Ok (handle_tls_application_record s d r isserver)
        | VUndefined => Ok (set_can s false, [])
        end
    | _, _ => Ok (s, [])
    end
  else if r_type r =? 0x15 then
    let s' := match r_body r with [] => s | lvl :: _ => handle_alert s lvl end in
    Ok (s', [meta_entry r isserver])
  else if r_type r =? 0x14 then
    let s' := upd s (ts_can_decrypt s) (ts_client_hello_seen s) (if isserver then true else ts_server_cc s) (if isserver then ts_client_cc s else true)
                  (ts_client_random s) (ts_version s) (ts_extensions s) (ts_compression s) (ts_decryptor s) in
    Ok (s', [meta_entry r isserver])
  else Ok (s, []).

Fixpoint handle_records (s : tcore) (rs : list tls_record) (isserver : bool) : result (tcore * list traffic_entry) :=
  match rs with
  | [] => Ok (s, [])
  | r :: t => do x <- handle_tls_record s r isserver; do y <- handle_records (fst x) t isserver; Ok (fst y, snd x ++ snd y)
  end.

(* one step of get_tls_records: a buffered packet is appended to its direction's buffer (server_packet_buffer /
   client_packet_buffer, which no record handler ever touches), framed, and the released records are handled *)
Record rstate := { rs_server_pbuf : list packet; rs_client_pbuf : list packet; rs_server_next : option Z; rs_client_next : option Z;
                   rs_core : tcore; rs_traffic : list traffic_entry }.

Definition feed_packet (server_ip : bytes) (server_port : Z) (st : rstate) (p : packet) : result rstate :=
  if from_server_id server_ip server_port p then
    do r <- extract (rs_server_next st) (rs_server_pbuf st ++ [p]);
    let '(nx, buf, recs) := r in
    do x <- handle_records (rs_core st) recs true;
    Ok {| rs_server_pbuf := buf; rs_client_pbuf := rs_client_pbuf st; rs_server_next := nx; rs_client_next := rs_client_next st;
          rs_core := fst x; rs_traffic := rs_traffic st ++ snd x |}
  else
    do r <- extract (rs_client_next st) (rs_client_pbuf st ++ [p]);
    let '(nx, buf, recs) := r in
    do x <- handle_records (rs_core st) recs false;
    Ok {| rs_server_pbuf := rs_server_pbuf st; rs_client_pbuf := buf; rs_server_next := rs_server_next st; rs_client_next := nx;
          rs_core := fst x; rs_traffic := rs_traffic st ++ snd x |}.

Fixpoint get_tls_records (server_ip : bytes) (server_port : Z) (st : rstate) (ps : list packet) : result rstate :=
  match ps with [] => Ok st | p :: t => do st' <- feed_packet server_ip server_port st p; get_tls_records server_ip server_port st' t end.
End Sess.

Definition matches_session (s : tsession) (p : packet) : bool :=
  (ip_eqb (p_src p) (ts_server_ip s) && (p_sport p =? ts_server_port s) && ip_eqb (p_dst p) (ts_client_ip s) && (p_dport p =? ts_client_port s))
  || (ip_eqb (p_src p) (ts_client_ip s) && (p_sport p =? ts_client_port s) && ip_eqb (p_dst p) (ts_server_ip s) && (p_dport p =? ts_server_port s)).

(* Session.handle_packet: drop a segment whose sequence number was already seen in its direction *)
Definition session_handle_packet (s : tsession) (p : packet) : tsession :=
  let srv := from_server s p in
  let seen := if srv then ts_seen_server s else ts_seen_client s in
  if mem_Z (p_seq p) seen then s else
  {| ts_server_ip := ts_server_ip s; ts_server_port := ts_server_port s; ts_server_mac := ts_server_mac s;
     ts_client_ip := ts_client_ip s; ts_client_port := ts_client_port s; ts_client_mac := ts_client_mac s; ts_ipv6 := ts_ipv6 s;
     ts_packet_buffer := ts_packet_buffer s ++ [p];
     ts_seen_server := if srv then ts_seen_server s ++ [p_seq p] else ts_seen_server s;
     ts_seen_client := if srv then ts_seen_client s else ts_seen_client s ++ [p_seq p];
     ts_core := ts_core s |}.

Definition core0 : tcore :=
  {| ts_can_decrypt := false; ts_client_hello_seen := false; ts_server_cc := false; ts_client_cc := false;
     ts_client_random := []; ts_version := VUndefined; ts_extensions := []; ts_compression := 0;
     ts_decryptor := None; ts_hs_client := []; ts_hs_server := []; ts_pending_client := 0; ts_pending_server := 0;
     ts_partial_client := []; ts_partial_server := [] |}.

(* Session.__init__ + set_client_and_server_ports + the first handle_packet *)
Definition new_session (p : packet) (server_ports : list Z) : tsession :=
  let from_srv := mem_Z (p_sport p) server_ports in
  session_handle_packet
  {| ts_server_ip := if from_srv then p_src p else p_dst p; ts_server_port := if from_srv then p_sport p else p_dport p;
     ts_server_mac := if from_srv then p_smac p else p_dmac p;
     ts_client_ip := if from_srv then p_dst p else p_src p; ts_client_port := if from_srv then p_dport p else p_sport p;
     ts_client_mac := if from_srv then p_dmac p else p_smac p; ts_ipv6 := p_v6 p;
     ts_packet_buffer := []; ts_seen_server := []; ts_seen_client := []; ts_core := core0 |} p.
