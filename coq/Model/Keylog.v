(* Model of tlexport/keylog_reader.py: get_keys_from_string on the text of a key-log file or of a decryption-secrets block.
   Text = list of character codes.  A line is accepted when it matches, as a whole,
       ([A-Z]|_|0){3,32} ([a-fA-F]|[0-9]){64} (([a-fA-F]|[0-9]){2})+ *
   and is then split at blanks: label, client random, secret (Key.__init__).  The three regex parts cannot overlap (blanks separate
   them and do not occur inside), so matching is deterministic: maximal run of label characters, blank, exactly 64 hex digits,
   blank, a maximal run of hex digits of even non-zero length, then blanks only. *)
From Coq Require Import ZArith List Bool.
Require Import PyLib SuiteTypes Crypto KeySchedule.
Import ListNotations.
Open Scope Z_scope.

Definition is_label_char (c : Z) : bool := ((65 <=? c) && (c <=? 90)) || (c =? 95) || (c =? 48).
Definition is_hex (c : Z) : bool := ((48 <=? c) && (c <=? 57)) || ((97 <=? c) && (c <=? 102)) || ((65 <=? c) && (c <=? 70)).

Fixpoint span (f : Z -> bool) (l : bytes) : bytes * bytes :=
  match l with
  | c :: r => if f c then let '(a, b) := span f r in (c :: a, b) else ([], l)
  | [] => ([], [])
  end.

Definition hexval (c : Z) : Z := if c <=? 57 then c - 48 else if c <=? 70 then c - 55 else c - 87.
Fixpoint unhex (l : bytes) : bytes :=
  match l with a :: b :: r => (16 * hexval a + hexval b) :: unhex r | _ => [] end.

(* the label names the derivation code compares with *)
Definition label_of (s : bytes) : label :=
  if bytes_eqb s [67;76;73;69;78;84;95;82;65;78;68;79;77] then LClientRandom
  else if bytes_eqb s [82;83;65] then LRsa
  else if bytes_eqb s [67;76;73;69;78;84;95;69;65;82;76;89;95;84;82;65;70;70;73;67;95;83;69;67;82;69;84] then LClientEarly
  else if bytes_eqb s [67;76;73;69;78;84;95;72;65;78;68;83;72;65;75;69;95;84;82;65;70;70;73;67;95;83;69;67;82;69;84] then LClientHs
  else if bytes_eqb s [83;69;82;86;69;82;95;72;65;78;68;83;72;65;75;69;95;84;82;65;70;70;73;67;95;83;69;67;82;69;84] then LServerHs
  else if bytes_eqb s [67;76;73;69;78;84;95;84;82;65;70;70;73;67;95;83;69;67;82;69;84;95;48] then LClientApp
  else if bytes_eqb s [83;69;82;86;69;82;95;84;82;65;70;70;73;67;95;83;69;67;82;69;84;95;48] then LServerApp
  else if bytes_eqb s [83;69;82;86;69;82;95;69;65;82;76;89;95;84;82;65;70;70;73;67;95;83;69;67;82;69;84] then LServerEarly
  else LOther.

(* get_key_from_line: the three fields as text, or None *)
Definition match_line (l : bytes) : option (bytes * bytes * bytes) :=
  let '(lab, r1) := span is_label_char l in
  if negb ((3 <=? len lab) && (len lab <=? 32)) then None else
  match r1 with
  | 32 :: r2 =>
      let '(cr, r3) := span is_hex r2 in
      if negb (len cr =? 64) then None else
      match r3 with
      | 32 :: r4 =>
          let '(v, r5) := span is_hex r4 in
          if (len v =? 0) || negb (Z.even (len v)) then None else
          if forallb (fun c => c =? 32) r5 then Some (lab, cr, v) else None
      | _ => None
      end
  | _ => None
  end.

Definition key_of_line (l : bytes) : list secret :=
  match match_line l with
  | Some (lab, cr, v) => [ {| s_label := label_of lab; s_random := unhex cr; s_value := Some (unhex v) |} ]
  | None => []
  end.

(* str.split("\n") *)
Fixpoint split_lines (s : bytes) (cur : bytes) : list bytes :=
  match s with
  | [] => [cur]
  | c :: r => if c =? 10 then cur :: split_lines r [] else split_lines r (cur ++ [c])
  end.

(* get_keys_from_string: key_str.replace("\r", "").split("\n") *)
Definition get_keys_from_string (text : bytes) : list secret :=
  flat_map key_of_line (split_lines (filter (fun c => negb (c =? 13)) text) []).
