(* Model of tlexport/dpkt_dsb.py: Reader.__init__ (byte order, version, first Interface Description Block and its time-stamp
   blk_options) and Reader.__iter__ (Enhanced Packet, Packet and Decryption Secrets blocks; everything else skipped).
   Faithful for files whose blocks are well formed (length fields consistent, blk_options well formed); the malformed cases of
   dpkt's block classes (NeedData, UnpackError) are collapsed into one error value. *)
From Coq Require Import ZArith List Bool.
Require Import PyLib.
Import ListNotations.
Open Scope Z_scope.

Definition dec (le : bool) (l : bytes) : Z := from_be (if le then rev l else l).
Definition u32 (le : bool) (d : bytes) (o : Z) : Z := dec le (slice d o (o + 4)).
Definition u16 (le : bool) (d : bytes) (o : Z) : Z := dec le (slice d o (o + 2)).
Definition i64 (le : bool) (d : bytes) (o : Z) : Z := let v := dec le (slice d o (o + 8)) in if v <? 2 ^ 63 then v else v - 2 ^ 64.
Definition align4 (n : Z) : Z := (n + 3) / 4 * 4.

(* the block structure: (type, whole block) from offset 0 on; a length below 8 makes file.read(negative) swallow the rest *)
Fixpoint blocks (fuel : nat) (le : bool) (d : bytes) : list (Z * bytes) :=
  match fuel with
  | O => []
  | S f =>
      if len d <? 8 then [] else
      let l := u32 le d 4 in
      let l' := if l <? 8 then len d else l in
      (u32 le d 0, slice d 0 l') :: blocks f le (slice_from d l')
  end.

(* blk_options of a block, from offset oo to len - 4: (code, data) until end-of-blk_options *)
Fixpoint blk_options (fuel : nat) (le : bool) (b : bytes) : list (Z * bytes) :=
  match fuel with
  | O => []
  | S f =>
      if len b <? 4 then [] else
      let code := u16 le b 0 in
      let l := u16 le b 2 in
      (code, slice b 4 (4 + l)) :: (if code =? 0 then [] else blk_options f le (slice_from b (4 + align4 l)))
  end.

Inductive ritem := RPkt (ticks : Z) (data : bytes) | RDsb (data : bytes).

(* what the reader knows about time: if_tsresol as (base, exponent), default (10, 6); if_tsoffset in seconds *)
Record tsinfo := { ts_base : Z; ts_exp : Z; ts_offset : Z }.

Definition signed_byte (b : Z) : Z := if b <? 128 then b else b - 256.

Definition idb_tsinfo (le : bool) (idb : bytes) : result tsinfo :=
  let opts := blk_options (S (length idb)) le (slice idb 16 (u32 le idb 4 - 4)) in
  fold_left (fun acc o =>
    do t <- acc;
    let '(code, data) := o in
    if code =? 9 then
      (if len data =? 1 then
         let v := signed_byte (nth 0 data 0) in              (* struct 'b' *)
         Ok {| ts_base := if Z.land v 128 =? 0 then 10 else 2; ts_exp := Z.land v 127; ts_offset := ts_offset t |}
       else Exn StructError)
    else if code =? 14 then
      (if len data =? 8 then Ok {| ts_base := ts_base t; ts_exp := ts_exp t; ts_offset := i64 le data 0 |} else Exn StructError)
    else Ok t) opts (Ok {| ts_base := 10; ts_exp := 6; ts_offset := 0 |}).

Definition item_of_block (le : bool) (tb : Z * bytes) : list ritem :=
  let '(t, b) := tb in
  if (t =? 6) || (t =? 2) then [RPkt (Z.lor (Z.shiftl (u32 le b 12) 32) (u32 le b 16)) (slice b 28 (28 + u32 le b 20))]
  else if t =? 10 then [RDsb (slice b 16 (16 + u32 le b 12))]
  else [].

Definition parse_file (d : bytes) : result (tsinfo * list ritem) :=
  if len d <? 28 then Exn ValueError else                          (* 'invalid pcapng header' *)
  if negb (from_be (slice d 0 4) =? 0x0A0D0D0A) then Exn ValueError else
  let bom := from_be (slice d 8 12) in
  do le <- (if bom =? 0x4D3C2B1A then Ok true else if bom =? 0x1A2B3C4D then Ok false else Exn ValueError);
  if negb (u16 le d 12 =? 1) then Exn ValueError else              (* version *)
  let shb_len := u32 le d 4 in
  match find (fun tb => fst tb =? 1) (blocks (S (length d)) le (slice_from d shb_len)) with
  | None => Exn ValueError                                          (* 'IDB not found' *)
  | Some (_, idb) =>
      do ti <- idb_tsinfo le idb;
      Ok (ti, flat_map (item_of_block le) (blocks (S (length d)) le d))
  end.
