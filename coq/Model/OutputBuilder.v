(* Model of tlexport/output_builder.py: the synthetic TCP conversation built from the exported records. *)
From Coq Require Import ZArith List Bool.
Require Import PyLib Packet Reassembly TlsSession.
Import ListNotations.
Open Scope Z_scope.

Inductive tcp_flags := F_S | F_SA | F_A | F_PA.

(* one synthetic segment, before serialisation *)
Record out_seg := { o_ts : Z; o_from_server : bool; o_flags : tcp_flags; o_seq : Z; o_ack : Z; o_payload : bytes }.

Fixpoint zrange (a : Z) (n : nat) : list Z := match n with O => [] | S k => a :: zrange (a + 1) k end.

(* the splitting loop of build_server_packet / build_client_packet *)
Definition split_parts (decrypted : bytes) (packet_count : Z) : result (list bytes) :=
  if packet_count =? 0 then Exn ZeroDivision else
  let record_len := len decrypted in
  let part_len := record_len / packet_count in                 (* floor(record_len / packet_count) *)
  let firsts := map (fun i => slice decrypted (i * part_len) (i * part_len + part_len)) (zrange 0 (Z.to_nat (packet_count - 1))) in
  let last_len := if packet_count - 1 >? 0 then (packet_count - 2) * part_len + part_len else 0 in
  Ok (if last_len <? record_len then firsts ++ [slice_from decrypted last_len] else firsts).

Record bstate := { b_server_seq : Z; b_client_seq : Z; b_out : list out_seg }.

(* one data segment and the peer's acknowledgement, both stamped ts *)
Definition emit (st : bstate) (isserver : bool) (part : bytes) (ts : Z) : bstate :=
  if isserver then
    let s' := b_server_seq st + len part in
    {| b_server_seq := s'; b_client_seq := b_client_seq st;
       b_out := b_out st ++ [ {| o_ts := ts; o_from_server := true; o_flags := F_PA; o_seq := b_server_seq st; o_ack := b_client_seq st; o_payload := part |};
                              {| o_ts := ts; o_from_server := false; o_flags := F_A; o_seq := b_client_seq st; o_ack := s'; o_payload := [] |} ] |}
  else
    let c' := b_client_seq st + len part in
    {| b_server_seq := b_server_seq st; b_client_seq := c';
       b_out := b_out st ++ [ {| o_ts := ts; o_from_server := false; o_flags := F_PA; o_seq := b_client_seq st; o_ack := b_server_seq st; o_payload := part |};
                              {| o_ts := ts; o_from_server := true; o_flags := F_A; o_seq := b_server_seq st; o_ack := c'; o_payload := [] |} ] |}.

Fixpoint emit_parts (st : bstate) (isserver : bool) (parts : list bytes) (ts : list Z) : result bstate :=
  match parts, ts with
  | [], _ => Ok st
  | p :: pr, t :: tr => emit_parts (emit st isserver p t) isserver pr tr
  | _ :: _, [] => Exn IndexError
  end.

Definition placeholder : bytes := [49; 50; 51; 51; 52; 53].     (* b'123345' *)

Definition handshake (ts0 : Z) : list out_seg :=
  [ {| o_ts := ts0; o_from_server := false; o_flags := F_S; o_seq := 0; o_ack := 0; o_payload := [] |};
    {| o_ts := ts0; o_from_server := true; o_flags := F_SA; o_seq := 0; o_ack := 1; o_payload := [] |};
    {| o_ts := ts0; o_from_server := false; o_flags := F_A; o_seq := 1; o_ack := 1; o_payload := [] |} ].

Definition build_entry (st : bstate) (e : traffic_entry) : result bstate :=
  let decrypted := match te_data e with Some d => d | None => placeholder end in
  let ts := map p_ts (r_meta (te_record e)) in
  do parts <- split_parts decrypted (len ts);
  emit_parts st (te_isserver e) parts ts.

Fixpoint build_entries (st : bstate) (es : list traffic_entry) : result bstate :=
  match es with [] => Ok st | e :: r => do st' <- build_entry st e; build_entries st' r end.

(* OutputBuilder.build *)
Definition build (traffic : list traffic_entry) : result (list out_seg) :=
  match traffic with
  | [] => Ok []
  | e :: _ =>
      match r_meta (te_record e) with
      | [] => Exn IndexError                      (* metadata[0] *)
      | p0 :: _ =>
          do st <- build_entries {| b_server_seq := 1; b_client_seq := 1; b_out := handshake (p_ts p0) |} traffic;
          Ok (b_out st)
      end
  end.

(* the server port written into the output conversation *)
Definition out_server_port (server_port : Z) (portmap : list (Z * Z)) (keep_original_ports : bool) : Z :=
  if keep_original_ports then server_port
  else match find (fun kv => fst kv =? server_port) portmap with Some kv => snd kv | None => 8080 end.
