(* Model of tlexport/checksums.py.  The packet is abstract: what the code reads from dpkt's objects. *)
From Coq Require Import ZArith List Bool.
Require Import PyLib.
Import ListNotations.
Open Scope Z_scope.

(* for i in range(0, len, 2): checksum += int.from_bytes(arr[i:i+2], 'big')   (arr already padded to even length) *)
Fixpoint sum16 (l : bytes) : Z :=
  match l with
  | a :: b :: r => a * 256 + b + sum16 r
  | [a] => a            (* unreachable after padding; from_bytes of one byte *)
  | [] => 0
  end.

Definition pad_even (l : bytes) : bytes := if Z.odd (len l) then l ++ [0] else l.

(* while checksum > 0xFFFF: checksum = (checksum >> 16) + (checksum & 0xFFFF) *)
Fixpoint fold_loop (fuel : nat) (s : Z) : result Z :=
  if s >? 65535 then
    match fuel with O => Exn OutOfFuel | S f => fold_loop f (Z.shiftr s 16 + Z.land s 65535) end
  else Ok s.

Definition ones_complement_checksum (arr : bytes) : result bytes :=
  let a := pad_even arr in
  do s <- fold_loop 64 (sum16 a);
  do out <- to_be s 2;
  (* out_arr[i] = ~out_arr[i] + 256 *)
  Ok (map (fun b => Z.lnot b + 256) out).

Record l4pkt := {
  ipv6 : bool;
  ip_src : bytes; ip_dst : bytes;
  proto : Z;             (* ip.p (IPv4); for IPv6 the field ip.nxt, which the code no longer uses *)
  seg : bytes;           (* bytes(packet.tcp) / bytes(packet.udp): header and payload *)
  field : Z }.           (* packet.tcp.sum / packet.udp.sum *)

(* upper: the upper-layer protocol that the IPv6 pseudo-header names (6 for TCP, 17 for UDP; RFC 8200 8.1), whatever extension
   headers the packet carries; IPv4 takes the header's protocol field *)
Definition pseudo_header (upper : Z) (p : l4pkt) : result bytes :=
  if ipv6 p then
    do l <- to_be (len (seg p)) 4;
    Ok (ip_src p ++ ip_dst p ++ l ++ [0; 0; 0] ++ [upper])
  else
    do pr <- to_be (proto p) 1; do l <- to_be (len (seg p)) 2;
    Ok (ip_src p ++ ip_dst p ++ [0] ++ pr ++ l).

(* data[off:off+2] = b"\x00\x00"  (slice assignment on a bytearray at least off+2 long) *)
Definition zero_field (d : bytes) (off : Z) : bytes := slice d 0 off ++ [0; 0] ++ slice_from d (off + 2).

(* the two compare one's-complement values: 0x0000 and 0xFFFF denote the same number *)
Definition same_checksum (calculated packet_checksum : bytes) : bool :=
  bytes_eqb calculated packet_checksum
  || (bytes_eqb calculated [0; 0] && bytes_eqb packet_checksum [255; 255]).

Definition calculate_checksum (off upper : Z) (p : l4pkt) : result bool :=
  do ph <- pseudo_header upper p;
  let data := zero_field (seg p) off in
  do calc <- ones_complement_checksum (ph ++ data);
  do pc <- to_be (field p) 2;
  Ok (same_checksum calc pc).

Definition calculate_checksum_tcp := calculate_checksum 16 6.
Definition calculate_checksum_udp := calculate_checksum 6 17.
