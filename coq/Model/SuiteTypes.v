(* Types shared by the generated suite table (Gen/SuiteTable.v), the parser model and the spec. *)
From Coq Require Import ZArith String List.
Import ListNotations.

(* classes of the `cryptography` package that the table refers to *)
Inductive alg := AES | TripleDES | ChaCha20Poly1305 | ARC4 | Camellia | IDEA | AESGCM | AESCCM | ChaCha20.
Inductive mode := M_CBC | M_CFB | M_CTR | M_GCM | M_CCM | M_POLY1305.
Inductive hash_alg := SHA256 | SHA384 | SHA1 | MD5.

Definition alg_eqb (a b : alg) : bool :=
  match a, b with
  | AES, AES | TripleDES, TripleDES | ChaCha20Poly1305, ChaCha20Poly1305 | ARC4, ARC4
  | Camellia, Camellia | IDEA, IDEA | AESGCM, AESGCM | AESCCM, AESCCM | ChaCha20, ChaCha20 => true
  | _, _ => false
  end.
Definition mode_eqb (a b : mode) : bool :=
  match a, b with
  | M_CBC, M_CBC | M_CFB, M_CFB | M_CTR, M_CTR | M_GCM, M_GCM | M_CCM, M_CCM | M_POLY1305, M_POLY1305 => true
  | _, _ => false
  end.
Definition hash_eqb (a b : hash_alg) : bool :=
  match a, b with
  | SHA256, SHA256 | SHA384, SHA384 | SHA1, SHA1 | MD5, MD5 => true
  | _, _ => false
  end.
Definition digest_size (h : hash_alg) : Z :=
  match h with SHA256 => 32 | SHA384 => 48 | SHA1 => 20 | MD5 => 16 end%Z.

(* The five ordered sub-tables of cipher_suite_parts, in source order (order decides the result). *)
Record parts := {
  p_algo : list (string * (alg * Z));
  p_mode : list (string * (mode * Z));
  p_keylen : list (string * Z);
  p_mac : list (string * hash_alg);
  p_tag : list (string * Z) }.

(* What split_cipher_suite returns.  None stands for the Python placeholder (None, 0). *)
Record suite := {
  s_algo : option (alg * Z);
  s_mode : option (mode * Z);
  s_keylen : option Z;
  s_mac : hash_alg;
  s_tag : Z }.
