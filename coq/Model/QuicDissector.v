(* Model of tlexport/quic/quic_dissector.py and quic_packet.py: one QUIC packet is cut off the front of a datagram and its
   header protection removed.  struct.unpack_from is modelled as a cursor that raises struct.error when the data is short. *)
From Coq Require Import ZArith List Bool.
Require Import PyLib SuiteTypes Crypto KeySchedule QuicKeys Varint.
Import ListNotations.
Open Scope Z_scope.

Inductive qptype := QInitial | QZeroRtt | QHandshake | QRetry | QVersionNeg | QOneRtt.
Definition qptype_eqb (a b : qptype) : bool :=
  match a, b with
  | QInitial, QInitial | QZeroRtt, QZeroRtt | QHandshake, QHandshake | QRetry, QRetry | QVersionNeg, QVersionNeg | QOneRtt, QOneRtt => true
  | _, _ => false
  end.

Record qpacket := {
  qp_type : qptype; qp_isserver : bool; qp_ts : Z * Z;      (* (time as written, identity of the float timestamp) *)
  qp_first_byte : bytes;                       (* one byte, header protection removed *)
  qp_version : bytes; qp_dcid_len : bytes; qp_dcid : bytes; qp_scid_len : bytes; qp_scid : bytes;
  qp_token_len_bytes : bytes; qp_token : bytes; qp_packet_len_bytes : bytes;
  qp_pn : bytes;                               (* the 1..4 packet-number bytes, unprotected *)
  qp_payload : bytes;
  qp_key_phase : Z;
  qp_supported : bytes }.                      (* Version Negotiation: the first supported version *)

(* the header-protection keys held in QuicSession.keys; None = key absent from the dict (KeyError) or None (TypeError) *)
Record hp_keys := {
  hp_client_initial : option bytes; hp_server_initial : option bytes;
  hp_client_handshake : option bytes; hp_server_handshake : option bytes;
  hp_client_app : option bytes; hp_server_app : option bytes;
  hp_client_early : option bytes }.
Definition hp_none : hp_keys :=
  {| hp_client_initial := None; hp_server_initial := None; hp_client_handshake := None; hp_server_handshake := None;
     hp_client_app := None; hp_server_app := None; hp_client_early := None |}.

Definition get_header_type_long (d : bytes) : result bool :=       (* datagram_data[0] >> 7 & 1 == 1 *)
  do b <- index d 0; Ok (Z.land (Z.shiftr b 7) 1 =? 1).

(* take n bytes at offset o: struct.error when the datagram is too short *)
Definition take (d : bytes) (o n : Z) : result bytes :=
  if (n <? 0) || (len d <? o + n) then Exn StructError else Ok (slice d o (o + n)).

Section Dis.
Variable C : Crypto.

(* remove_header_protection; chacha = the mask is made with ChaCha20 (1-RTT/Handshake/0-RTT packets of a 0x1303 connection) *)
Definition remove_header_protection (long_header chacha : bool) (sample : bytes) (first_packet_byte : Z) (hp_key : bytes)
           (d : bytes) (pn_offset : Z) : result (bytes * bytes * Z) :=
  do mask <- (if chacha then c_chacha_mask C hp_key sample else c_ecb_enc C hp_key sample);
  do m0 <- index mask 0;
  let fb := Z.lxor first_packet_byte (Z.land m0 (if long_header then 15 else 31)) in
  let pn_len := Z.land fb 3 + 1 in
  Ok ([fb], xor_zip (slice d pn_offset (pn_offset + pn_len)) (slice mask 1 (pn_len + 1)), pn_len).

Definition key_of (o : option bytes) : result bytes := match o with Some k => Ok k | None => Exn KeyError end.

Definition mk_long (t : qptype) (isserver : bool) (ts : Z * Z) (fb version dcid_len dcid scid_len scid tlb tok plb pn payload sup : bytes) : qpacket :=
  {| qp_type := t; qp_isserver := isserver; qp_ts := ts; qp_first_byte := fb; qp_version := version; qp_dcid_len := dcid_len; qp_dcid := dcid;
     qp_scid_len := scid_len; qp_scid := scid; qp_token_len_bytes := tlb; qp_token := tok; qp_packet_len_bytes := plb; qp_pn := pn;
     qp_payload := payload; qp_key_phase := 0; qp_supported := sup |}.

(* extract_quic_packet: Ok (packets found (0 or 1), rest of the datagram).  Every exception inside is caught by the code:
   the packets collected so far are returned and the rest of the datagram is dropped. *)
Definition extract_inner (d : bytes) (ts : Z * Z) (isserver : bool) (guessed_dcid : bytes) (keys : hp_keys) (chacha : bool)
  : result (list qpacket * bytes) :=
  do long <- get_header_type_long d;
  if from_be d =? 0 then Ok ([], []) else
  if long then
    do hdr <- take d 0 6;                                             (* "B4sB" *)
    do first <- index d 0;
    let version := slice d 1 5 in
    let ptype0 := Z.shiftr (Z.land first 48) 4 in
    do dl <- index d 5;
    do dcid <- take d 6 dl;
    do sl_b <- take d (6 + dl) 1;
    do scid_len <- decode_variable_length_int sl_b;                   (* a one-byte slice: IndexError when its prefix bits ask for more *)
    do scid <- take d (7 + dl) scid_len;
    do dcid_len_b <- to_be dl 1; do scid_len_b <- to_be scid_len 1;
    let o := 7 + dl + scid_len in
    let ptype := if from_be version =? 0 then QVersionNeg
                 else if ptype0 =? 0 then QInitial else if ptype0 =? 1 then QZeroRtt else if ptype0 =? 2 then QHandshake else QRetry in
    match ptype with
    | QVersionNeg =>
        do sup <- take d o 4;
        Ok ([mk_long QVersionNeg isserver ts [first] version dcid_len_b dcid scid_len_b scid [] [] [] [] [] sup], [])
    | QInitial =>
        do b1 <- take d o 1;
        do tll <- get_variable_length_int_length b1;
        do tlb <- take d o tll;
        do token_len <- decode_variable_length_int tlb;
        do token <- take d (o + tll) token_len;
        let o2 := o + tll + token_len in
        do b2 <- take d o2 1;
        do pll <- get_variable_length_int_length b2;
        do plb <- take d o2 pll;
        do packet_len <- decode_variable_length_int plb;
        do _chk <- to_be packet_len pll;                               (* .to_bytes(packet_len_len): cannot overflow *)
        let pn_offset := o2 + pll in
        let sample := slice d (pn_offset + 4) (pn_offset + 20) in
        do hp <- key_of (if isserver then hp_server_initial keys else hp_client_initial keys);
        do r <- remove_header_protection true false sample first hp d pn_offset;   (* Initial packets: always the AES mask *)
        let '(fb, pn, pn_len) := r in
        do _pn <- take d pn_offset pn_len;
        do payload <- take d (pn_offset + pn_len) (packet_len - pn_len);
        let total := pn_offset + pn_len + len payload in
        Ok ([mk_long QInitial isserver ts fb version dcid_len_b dcid scid_len_b scid tlb token plb pn payload []], slice_from d total)
    | QHandshake | QZeroRtt =>
        do b2 <- take d o 1;
        do pll <- get_variable_length_int_length b2;
        do plb <- take d o pll;
        do packet_len <- decode_variable_length_int plb;
        let pn_offset := o + pll in
        let sample := slice d (pn_offset + 4) (pn_offset + 20) in
        do hp <- key_of (match ptype with QHandshake => if isserver then hp_server_handshake keys else hp_client_handshake keys
                                         | _ => hp_client_early keys end);
        do r <- remove_header_protection true chacha sample first hp d pn_offset;
        let '(fb, pn, pn_len) := r in
        do _pn <- take d pn_offset pn_len;
        do payload <- take d (pn_offset + pn_len) (packet_len - pn_len);
        let total := pn_offset + pn_len + len payload in
        Ok ([mk_long ptype isserver ts fb version dcid_len_b dcid scid_len_b scid [] [] plb pn payload []], slice_from d total)
    | _ (* Retry *) =>
        let rest := slice_from d o in
        Ok ([mk_long QRetry isserver ts [first] version dcid_len_b dcid scid_len_b scid [] (slice_drop_last rest 16) [] [] [] []], [])
    end
  else
    do first <- index d 0;
    do _dc <- take d 1 (len guessed_dcid);
    let pn_offset := 1 + len guessed_dcid in
    let sample := slice d (pn_offset + 4) (pn_offset + 20) in
    do hp <- key_of (if isserver then hp_server_app keys else hp_client_app keys);
    do r <- remove_header_protection false chacha sample first hp d pn_offset;
    let '(fb, pn, pn_len) := r in
    do _pn <- take d pn_offset pn_len;
    do fb0 <- index fb 0;
    let payload := slice_from d (pn_offset + pn_len) in
    Ok ([ {| qp_type := QOneRtt; qp_isserver := isserver; qp_ts := ts; qp_first_byte := fb; qp_version := []; qp_dcid_len := []; qp_dcid := guessed_dcid;
             qp_scid_len := []; qp_scid := []; qp_token_len_bytes := []; qp_token := []; qp_packet_len_bytes := []; qp_pn := pn;
             qp_payload := payload; qp_key_phase := Z.land (Z.shiftr fb0 2) 1; qp_supported := [] |} ], []).

Definition extract_quic_packet (d : bytes) (ts : Z * Z) (isserver : bool) (guessed_dcid : bytes) (keys : hp_keys) (chacha : bool)
  : list qpacket * bytes :=
  match extract_inner d ts isserver guessed_dcid keys chacha with
  | Ok r => r
  | Exn _ => ([], [])
  end.
End Dis.
