(* Model of tlexport/quic/quic_session.py, quic_decryptor.py and quic_output_builder.py *)
From Coq Require Import ZArith List Bool.
Require Import PyLib SuiteTypes Crypto KeySchedule QuicKeys Varint QuicFrames QuicPn QuicDissector QuicTls Packet Frames.
Import ListNotations.
Open Scope Z_scope.

(* what the output buffer holds: CRYPTO, STREAM and pseudo Version-Negotiation frames with their source packet's time and direction *)
Inductive okind := OCrypto | OStream | OVersionNeg.
Record oframe := { of_kind : okind; of_data : bytes; of_ts : Z * Z; of_isserver : bool }.

Record qdec := { qd_skey : bytes; qd_siv : bytes; qd_ckey : bytes; qd_civ : bytes }.

Record qsession := {
  qs_server_ip : bytes; qs_server_port : Z; qs_server_mac : bytes;
  qs_client_ip : bytes; qs_client_port : Z; qs_client_mac : bytes; qs_ipv6 : bool;
  qs_version : quic_version;
  qs_client_cids : list bytes; qs_server_cids : list bytes;      (* Python sets: kept duplicate-free *)
  qs_hp : hp_keys;
  qs_initial : option qdec; qs_handshake : option qdec; qs_app : option (list app_gen); qs_early : option (bytes * bytes);
  qs_epoch_client : Z; qs_epoch_server : Z; qs_phase_client : Z; qs_phase_server : Z;
  qs_hash : option hash_alg; qs_cipher : option alg; qs_keylen : Z;
  qs_tls : qtls;
  qs_pn : pn_state;
  qs_output : list oframe;
  qs_ids : Z }.                                                  (* next object identity for CRYPTO frames *)

Definition set_add (x : bytes) (l : list bytes) : list bytes := if mem_bytes x l then l else l ++ [x].

(* a functional-update helper: every field given explicitly *)
Definition qs_with (s : qsession) (ver : quic_version) (cc sc : list bytes) (hp : hp_keys) (ini hs : option qdec) (app : option (list app_gen))
           (early : option (bytes * bytes)) (ec es pc ps : Z) (h : option hash_alg) (ci : option alg) (kl : Z) (tls : qtls) (pn : pn_state)
           (out : list oframe) (ids : Z) : qsession :=
  {| qs_server_ip := qs_server_ip s; qs_server_port := qs_server_port s; qs_server_mac := qs_server_mac s;
     qs_client_ip := qs_client_ip s; qs_client_port := qs_client_port s; qs_client_mac := qs_client_mac s; qs_ipv6 := qs_ipv6 s;
     qs_version := ver; qs_client_cids := cc; qs_server_cids := sc; qs_hp := hp; qs_initial := ini; qs_handshake := hs; qs_app := app; qs_early := early;
     qs_epoch_client := ec; qs_epoch_server := es; qs_phase_client := pc; qs_phase_server := ps; qs_hash := h; qs_cipher := ci; qs_keylen := kl;
     qs_tls := tls; qs_pn := pn; qs_output := out; qs_ids := ids |}.
Definition upd_tls (s : qsession) (t : qtls) := qs_with s (qs_version s) (qs_client_cids s) (qs_server_cids s) (qs_hp s) (qs_initial s) (qs_handshake s) (qs_app s) (qs_early s) (qs_epoch_client s) (qs_epoch_server s) (qs_phase_client s) (qs_phase_server s) (qs_hash s) (qs_cipher s) (qs_keylen s) t (qs_pn s) (qs_output s) (qs_ids s).
Definition upd_out (s : qsession) (o : list oframe) := qs_with s (qs_version s) (qs_client_cids s) (qs_server_cids s) (qs_hp s) (qs_initial s) (qs_handshake s) (qs_app s) (qs_early s) (qs_epoch_client s) (qs_epoch_server s) (qs_phase_client s) (qs_phase_server s) (qs_hash s) (qs_cipher s) (qs_keylen s) (qs_tls s) (qs_pn s) o (qs_ids s).
Definition upd_pn (s : qsession) (p : pn_state) := qs_with s (qs_version s) (qs_client_cids s) (qs_server_cids s) (qs_hp s) (qs_initial s) (qs_handshake s) (qs_app s) (qs_early s) (qs_epoch_client s) (qs_epoch_server s) (qs_phase_client s) (qs_phase_server s) (qs_hash s) (qs_cipher s) (qs_keylen s) (qs_tls s) p (qs_output s) (qs_ids s).
Definition upd_cids (s : qsession) (cc sc : list bytes) := qs_with s (qs_version s) cc sc (qs_hp s) (qs_initial s) (qs_handshake s) (qs_app s) (qs_early s) (qs_epoch_client s) (qs_epoch_server s) (qs_phase_client s) (qs_phase_server s) (qs_hash s) (qs_cipher s) (qs_keylen s) (qs_tls s) (qs_pn s) (qs_output s) (qs_ids s).

Definition new_qsession (p : packet) (server_ports : list Z) : qsession :=
  let from_srv := mem_Z (p_sport p) server_ports in
  {| qs_server_ip := if from_srv then p_src p else p_dst p; qs_server_port := if from_srv then p_sport p else p_dport p;
     qs_server_mac := if from_srv then p_smac p else p_dmac p;
     qs_client_ip := if from_srv then p_dst p else p_src p; qs_client_port := if from_srv then p_dport p else p_sport p;
     qs_client_mac := if from_srv then p_dmac p else p_smac p; qs_ipv6 := p_v6 p;
     qs_version := QUnknown; qs_client_cids := []; qs_server_cids := []; qs_hp := hp_none;
     qs_initial := None; qs_handshake := None; qs_app := None; qs_early := None;
     qs_epoch_client := 0; qs_epoch_server := 0; qs_phase_client := 0; qs_phase_server := 0;
     qs_hash := None; qs_cipher := None; qs_keylen := 0; qs_tls := qtls0; qs_pn := pn_init; qs_output := []; qs_ids := 0 |}.

Definition matches_session_dgram (s : qsession) (p : packet) : bool :=
  (ip_eqb (p_src p) (qs_server_ip s) && (p_sport p =? qs_server_port s) && ip_eqb (p_dst p) (qs_client_ip s) && (p_dport p =? qs_client_port s))
  || (ip_eqb (p_src p) (qs_client_ip s) && (p_sport p =? qs_client_port s) && ip_eqb (p_dst p) (qs_server_ip s) && (p_dport p =? qs_server_port s)).

Definition packet_isserver (s : qsession) (p : packet) (dcid : bytes) : bool :=
  if ip_eqb (p_src p) (qs_server_ip s) && (p_sport p =? qs_server_port s) then true
  else if ip_eqb (p_src p) (qs_client_ip s) && (p_sport p =? qs_client_port s) then false
  else if (0 <? len dcid) && mem_bytes dcid (qs_server_cids s) then false
  else if (0 <? len dcid) && mem_bytes dcid (qs_client_cids s) then true
  else negb (ip_eqb (p_src p) (qs_client_ip s) && (p_sport p =? qs_client_port s)).

Definition space_of (t : qptype) : pn_space := match t with QInitial => SpInitial | QHandshake => SpHandshake | _ => SpApp end.

Section QS.
Variable C : Crypto.
Variable keylog : list secret.

(* set_initial_decryptor(dcid, False) *)
Definition set_initial_decryptor (s : qsession) (dcid : bytes) : result qsession :=
  do k <- dev_initial_keys C dcid (qs_version s) false;
  match k with
  | None => Ok s                                  (* unknown version: can_decrypt = False, nothing installed *)
  | Some ik =>
      let hp := qs_hp s in
      let hp' := {| hp_client_initial := Some (ci_hp ik); hp_server_initial := Some (si_hp ik);
                    hp_client_handshake := hp_client_handshake hp; hp_server_handshake := hp_server_handshake hp;
                    hp_client_app := hp_client_app hp; hp_server_app := hp_server_app hp; hp_client_early := hp_client_early hp |} in
      Ok (qs_with s (qs_version s) (qs_client_cids s) (qs_server_cids s) hp'
                  (Some {| qd_skey := si_key ik; qd_siv := si_iv ik; qd_ckey := ci_key ik; qd_civ := ci_iv ik |})
                  (qs_handshake s) (qs_app s) (qs_early s) (qs_epoch_client s) (qs_epoch_server s) (qs_phase_client s) (qs_phase_server s)
                  (qs_hash s) (qs_cipher s) (qs_keylen s) (qs_tls s) (qs_pn s) (qs_output s) (qs_ids s))
  end.

(* cipher(key): the AEAD constructors check the key length *)
Definition key_ok (a : alg) (k : bytes) : bool :=
  match a with
  | ChaCha20Poly1305 => len k =? 32
  | _ => (len k =? 16) || (len k =? 24) || (len k =? 32)
  end.

(* set_tls_decryptors: (state, completed?)  -- an exception from dev_quic_keys leaves hash/cipher/key length set and nothing else *)
Definition set_tls_decryptors (s : qsession) (client_random ciphersuite : bytes) : qsession * bool :=
  let code := from_be ciphersuite in
  let choice := if (len ciphersuite =? 2) && (code =? 0x1301) then Some (SHA256, AESGCM, 16)
                else if (len ciphersuite =? 2) && (code =? 0x1302) then Some (SHA384, AESGCM, 32)
                else if (len ciphersuite =? 2) && (code =? 0x1303) then Some (SHA256, ChaCha20Poly1305, 32)
                else if (len ciphersuite =? 2) && (code =? 0x1304) then Some (SHA256, AESCCM, 16) else None in
  match choice with
  | None => (s, true)
  | Some (h, ci, kl) =>
      let s1 := qs_with s (qs_version s) (qs_client_cids s) (qs_server_cids s) (qs_hp s) (qs_initial s) (qs_handshake s) (qs_app s) (qs_early s)
                        (qs_epoch_client s) (qs_epoch_server s) (qs_phase_client s) (qs_phase_server s) (Some h) (Some ci) kl (qs_tls s) (qs_pn s) (qs_output s) (qs_ids s) in
      let session_keys := filter (fun k => bytes_eqb (s_random k) client_random) keylog in
      match dev_quic_keys C kl session_keys h (qs_version s) with
      | Exn _ => (s1, false)
      | Ok k =>
          match q_chs k, q_shs k, q_capp k, q_sapp k with
          | Some chs, Some shs, Some capp, Some sapp =>
              let hp := qs_hp s1 in
              let hp' := {| hp_client_initial := hp_client_initial hp; hp_server_initial := hp_server_initial hp;
                            hp_client_handshake := Some (t_hp chs); hp_server_handshake := Some (t_hp shs);
                            hp_client_app := Some (t_hp capp); hp_server_app := Some (t_hp sapp);
                            hp_client_early := match q_cearly k with Some e => Some (t_hp e) | None => None end |} in
              let with_hp hsd appd ear :=
                qs_with s1 (qs_version s1) (qs_client_cids s1) (qs_server_cids s1) hp' (qs_initial s1) hsd appd ear
                        (qs_epoch_client s1) (qs_epoch_server s1) (qs_phase_client s1) (qs_phase_server s1) (qs_hash s1) (qs_cipher s1) (qs_keylen s1)
                        (qs_tls s1) (qs_pn s1) (qs_output s1) (qs_ids s1) in
              if negb (key_ok ci (t_key shs) && key_ok ci (t_key chs)) then (with_hp (qs_handshake s1) (qs_app s1) (qs_early s1), true)
              else
                let hsd := Some {| qd_skey := t_key shs; qd_siv := t_iv shs; qd_ckey := t_key chs; qd_civ := t_iv chs |} in
                if negb (key_ok ci (t_key sapp) && key_ok ci (t_key capp)) then (with_hp hsd (qs_app s1) (qs_early s1), true)
                else
                  let appd := Some [ {| g_skey := t_key sapp; g_siv := t_iv sapp; g_ckey := t_key capp; g_civ := t_iv capp;
                                        g_ssec := t_sec sapp; g_csec := t_sec capp |} ] in
                  let ear := match q_cearly k with
                             | Some e => if key_ok ci (t_key e) then Some (t_key e, t_iv e) else qs_early s1
                             | None => qs_early s1 end in
                  (with_hp hsd appd ear, true)
          | _, _, _, _ => (s1, false)
          end
      end
  end.

(* handle_crypto_frame: (state, completed?) *)
Definition handle_crypto_frame (s : qsession) (pk : qpacket) (offset clen : Z) (data : bytes) : qsession * bool :=
  let cf := {| cf_offset := offset; cf_length := clen; cf_data := data; cf_id := qs_ids s |} in
  let s0 := qs_with s (qs_version s) (qs_client_cids s) (qs_server_cids s) (qs_hp s) (qs_initial s) (qs_handshake s) (qs_app s) (qs_early s)
                    (qs_epoch_client s) (qs_epoch_server s) (qs_phase_client s) (qs_phase_server s) (qs_hash s) (qs_cipher s) (qs_keylen s)
                    (qs_tls s) (qs_pn s) (qs_output s) (qs_ids s + 1) in
  let '(t1, ok1) := update_session (qs_tls s0) (qp_isserver pk) (qp_type pk) cf in
  let s1 := upd_tls s0 t1 in
  if negb ok1 then (s1, false) else
  let '(s2, ok2) :=
    if qt_new_data t1 then
      match qt_client_random t1, qt_ciphersuite t1 with
      | Some cr, Some cs => set_tls_decryptors s1 cr cs
      | _, _ => (s1, true)
      end
    else (s1, true) in
  if negb ok2 then (s2, false) else
  let t2 := qs_tls s2 in
  let t3 := if qt_new_data t2 then
              {| qt_ciphersuite := qt_ciphersuite t2; qt_client_random := qt_client_random t2; qt_alpn := qt_alpn t2; qt_tls_vers := qt_tls_vers t2;
                 qt_new_data := false; qt_greasy := qt_greasy t2; qt_server := qt_server t2; qt_client := qt_client t2 |} else t2 in
  (upd_out (upd_tls s2 t3) (qs_output s2 ++ [ {| of_kind := OCrypto; of_data := data; of_ts := qp_ts pk; of_isserver := qp_isserver pk |} ]), true).

(* handle_frame for one parsed frame *)
Definition handle_frame (s : qsession) (pk : qpacket) (f : frame) : qsession * bool :=
  match f_cls f with
  | CCrypto => handle_crypto_frame s pk (nth 0 (f_ints f) 0) (nth 1 (f_ints f) 0) (nth 0 (f_datas f) [])
  | CStream => (upd_out s (qs_output s ++ [ {| of_kind := OStream; of_data := nth 0 (f_datas f) []; of_ts := qp_ts pk; of_isserver := qp_isserver pk |} ]), true)
  | CNewConnectionId =>
      let cid := nth 0 (f_datas f) [] in
      (if qp_isserver pk then upd_cids s (qs_client_cids s) (set_add cid (qs_server_cids s))
       else upd_cids s (set_add cid (qs_client_cids s)) (qs_server_cids s), true)
  | _ => (s, true)
  end.

Fixpoint handle_frames (s : qsession) (pk : qpacket) (fs : list frame) : qsession :=
  match fs with
  | [] => s
  | f :: r => let '(s', ok) := handle_frame s pk f in if ok then handle_frames s' pk r else s'
  end.

(* check_key_epoch *)
Definition check_key_epoch (s : qsession) (key_phase : Z) (isserver : bool) : result qsession :=
  let ec := if negb isserver && negb (qs_phase_client s =? key_phase) then qs_epoch_client s + 1 else qs_epoch_client s in
  let es := if isserver && negb (qs_phase_server s =? key_phase) then qs_epoch_server s + 1 else qs_epoch_server s in
  let pc := if isserver then qs_phase_client s else key_phase in
  let ps := if isserver then key_phase else qs_phase_server s in
  match qs_app s with
  | None => Exn KeyError                         (* self.decryptors["Application"] *)
  | Some gens =>
      do gens' <- (if (ec =? len gens) || (es =? len gens) then
                     match rev gens, qs_hash s with
                     | last :: _, Some h => do g <- key_update C last h (qs_keylen s); Ok (gens ++ [g])
                     | _, _ => Exn AttributeError
                     end
                   else Ok gens);
      Ok (qs_with s (qs_version s) (qs_client_cids s) (qs_server_cids s) (qs_hp s) (qs_initial s) (qs_handshake s) (Some gens') (qs_early s)
                  ec es pc ps (qs_hash s) (qs_cipher s) (qs_keylen s) (qs_tls s) (qs_pn s) (qs_output s) (qs_ids s))
  end.

(* QuicDecryptor.decrypt *)
Definition quic_decrypt (a : alg) (key iv : bytes) (ct pn aad : bytes) : result bytes :=
  c_aead_dec C a 16 key (quic_nonce iv pn) ct aad.

Variable ftable : list (list Z * fclass).

(* what check_key_epoch leaves behind when it raises: the epoch and phase counters are advanced first *)
Definition bump_epoch (s : qsession) (key_phase : Z) (isserver : bool) : qsession :=
  let ec := if negb isserver && negb (qs_phase_client s =? key_phase) then qs_epoch_client s + 1 else qs_epoch_client s in
  let es := if isserver && negb (qs_phase_server s =? key_phase) then qs_epoch_server s + 1 else qs_epoch_server s in
  let pc := if isserver then qs_phase_client s else key_phase in
  let ps := if isserver then key_phase else qs_phase_server s in
  qs_with s (qs_version s) (qs_client_cids s) (qs_server_cids s) (qs_hp s) (qs_initial s) (qs_handshake s) (qs_app s) (qs_early s)
          ec es pc ps (qs_hash s) (qs_cipher s) (qs_keylen s) (qs_tls s) (qs_pn s) (qs_output s) (qs_ids s).

(* the first part of decrypt_packet's try block: the decryptor for the packet, None when selecting it raises (no decryptor of that
   kind, key epoch outside the list of generations, key update failing) *)
Definition select_decryptor (s : qsession) (pk : qpacket) : qsession * option (alg * (bytes * bytes)) :=
  match qp_type pk with
  | QOneRtt =>
      match check_key_epoch s (qp_key_phase pk) (qp_isserver pk) with
      | Exn _ => (bump_epoch s (qp_key_phase pk) (qp_isserver pk), None)
      | Ok s1 =>
          match qs_app s1, qs_cipher s1 with
          | Some gens, Some ci =>
              let ep := if qp_isserver pk then qs_epoch_server s1 else qs_epoch_client s1 in
              match nth_error gens (Z.to_nat ep) with
              | Some g => (s1, Some (ci, if qp_isserver pk then (g_skey g, g_siv g) else (g_ckey g, g_civ g)))
              | None => (s1, None)
              end
          | _, _ => (s1, None)
          end
      end
  | QInitial => match qs_initial s with
                | Some d => (s, Some (AESGCM, if qp_isserver pk then (qd_skey d, qd_siv d) else (qd_ckey d, qd_civ d))) | None => (s, None) end
  | QHandshake => match qs_handshake s, qs_cipher s with
                  | Some d, Some ci => (s, Some (ci, if qp_isserver pk then (qd_skey d, qd_siv d) else (qd_ckey d, qd_civ d))) | _, _ => (s, None) end
  | _ => match qs_early s, qs_cipher s with
         | Some (k, iv), Some ci => (s, Some (ci, (k, iv))) | _, _ => (s, None) end      (* 0-RTT: client keys whatever the direction flag *)
  end.

(* decrypt_packet: everything happens inside one try; an exception is reported ("Could not decrypt Quic Packet") and the run goes on *)
Definition decrypt_packet (s : qsession) (pk : qpacket) : result qsession :=
  match select_decryptor s pk with
  | (s1, None) => Ok s1
  | (s1, Some (ci, (key, iv))) =>
    match get_full_packet_number (qs_pn s1) (qp_isserver pk) (space_of (qp_type pk)) (qp_pn pk) with
    | Exn _ => Ok s1
    | Ok (pn, pns) =>
        let s2 := upd_pn s1 pns in
        let aad := match qp_type pk with
                   | QInitial => qp_first_byte pk ++ qp_version pk ++ qp_dcid_len pk ++ qp_dcid pk ++ qp_scid_len pk ++ qp_scid pk ++
                                 qp_token_len_bytes pk ++ qp_token pk ++ qp_packet_len_bytes pk ++ qp_pn pk
                   | QOneRtt => qp_first_byte pk ++ qp_dcid pk ++ qp_pn pk
                   | _ => qp_first_byte pk ++ qp_version pk ++ qp_dcid_len pk ++ qp_dcid pk ++ qp_scid_len pk ++ qp_scid pk ++ qp_packet_len_bytes pk ++ qp_pn pk
                   end in
        match (if (match qp_type pk with QZeroRtt => true | _ => false end) && qp_isserver pk
               then Exn AttributeError            (* an early decryptor has no server side *)
               else quic_decrypt ci key iv (qp_payload pk) pn aad) with
        | Exn _ => Ok s1                   (* a packet that does not authenticate leaves the largest packet numbers alone *)
        | Ok payload =>
            match parse_frames ftable payload with
            | Exn _ => Ok s2
            | Ok fs => Ok (handle_frames s2 pk fs)
            end
        end
  end
  end.

(* QuicSession.handle_quic_packet for the packet just extracted *)
Definition process_qpacket (s : qsession) (pk : qpacket) : result qsession :=
  do s1 <- (match qp_type pk with
            | QRetry | QVersionNeg => Ok s
            | _ => decrypt_packet s pk
            end);
  let s2 := match qp_type pk with
            | QVersionNeg => upd_out s1 (qs_output s1 ++ [ {| of_kind := OVersionNeg; of_data := qp_supported pk; of_ts := qp_ts pk; of_isserver := qp_isserver pk |} ])
            | QRetry => qs_with s1 (qs_version s1) (qs_client_cids s1) (qs_server_cids s1) hp_none None None None None
                                (qs_epoch_client s1) (qs_epoch_server s1) (qs_phase_client s1) (qs_phase_server s1) None None 0 qtls0 (qs_pn s1) (qs_output s1) (qs_ids s1)
            | _ => s1
            end in
  Ok (match qp_type pk with
      | QInitial => if qp_isserver pk then upd_cids s2 (set_add (qp_dcid pk) (qs_client_cids s2)) (set_add (qp_scid pk) (qs_server_cids s2))
                    else upd_cids s2 (set_add (qp_scid pk) (qs_client_cids s2)) (set_add (qp_dcid pk) (qs_server_cids s2))
      | _ => s2
      end).

(* the while loop of QuicSession.handle_packet over the (possibly coalesced) datagram *)
Fixpoint process_datagram (fuel : nat) (s : qsession) (d : bytes) (ts : Z * Z) (isserver : bool) (dcid : bytes) : result qsession :=
  match d with
  | [] => Ok s
  | _ =>
      match fuel with
      | O => Exn OutOfFuel
      | S f =>
          let chacha := match qt_ciphersuite (qs_tls s) with Some cs => bytes_eqb cs [0x13; 0x03] | None => false end in
          let '(pkts, rest) := extract_quic_packet C d ts isserver dcid (qs_hp s) chacha in
          do s' <- (fix go (s : qsession) (l : list qpacket) : result qsession :=
                      match l with [] => Ok s | pk :: r => do s1 <- process_qpacket s pk; go s1 r end) s pkts;
          process_datagram f s' rest ts isserver dcid
      end
  end.

Definition quic_handle_packet (s : qsession) (p : packet) (dcid : bytes) (ver : quic_version) : result qsession :=
  let s0 := match qs_version s with
            | QUnknown => qs_with s ver (qs_client_cids s) (qs_server_cids s) (qs_hp s) (qs_initial s) (qs_handshake s) (qs_app s) (qs_early s)
                                  (qs_epoch_client s) (qs_epoch_server s) (qs_phase_client s) (qs_phase_server s) (qs_hash s) (qs_cipher s) (qs_keylen s)
                                  (qs_tls s) (qs_pn s) (qs_output s) (qs_ids s)
            | _ => s end in
  do s1 <- (match qs_initial s0 with None => set_initial_decryptor s0 dcid | Some _ => Ok s0 end);
  let isserver := packet_isserver s1 p dcid in
  process_datagram (S (length (p_data p))) s1 (p_data p) (p_ts p, p_tsid p) isserver dcid.
End QS.

(* ---------- QUICOutputbuilder.build ---------- *)
Record odgram := { od_ts : Z; od_isserver : bool; od_payload : bytes }.

Definition frame_data (metadata : bool) (f : oframe) : option bytes :=
  match of_kind f with
  | OStream => Some (of_data f)
  | OCrypto | OVersionNeg => if metadata then Some (of_data f) else None
  end.

(* frames are appended to the current datagram while capture time and direction stay the same; a final flush always happens *)
Fixpoint group (metadata : bool) (fs : list oframe) (ts : Z * Z) (isserver : bool) (cur : bytes) : list odgram :=
  match fs with
  | [] => [ {| od_ts := fst ts; od_isserver := isserver; od_payload := cur |} ]
  | f :: r =>
      match frame_data metadata f with
      | None => group metadata r ts isserver cur
      | Some d =>
          if (snd (of_ts f) =? snd ts) && Bool.eqb (of_isserver f) isserver then group metadata r ts isserver (cur ++ d)
          else {| od_ts := fst ts; od_isserver := isserver; od_payload := cur |} :: group metadata r (of_ts f) (of_isserver f) d
      end
  end.

Definition quic_build (metadata : bool) (out : list oframe) : list odgram :=
  match out with
  | [] => []                                         (* build_output: nothing decrypted, nothing written *)
  | f :: _ => group metadata out (of_ts f) (of_isserver f) []
  end.
