(* Model of tlexport/main.py: run() as a left fold over the capture, then per-session decryption and the output file. *)
From Coq Require Import ZArith List Bool.
From Coq Require String.
Require Import PyLib SuiteTypes SuiteParser Crypto KeySchedule QuicKeys Packet Reassembly Decryptor TlsSession OutputBuilder Frames Checksum PcapngWriter QuicFrames QuicDissector QuicSession.
Import ListNotations.
Open Scope Z_scope.

Record options := {
  opt_server_ports : list Z;          (* server_ports after extend(): [443; 44330] ++ the -p values (default [443]) *)
  opt_checksum : bool;                (* -c *)
  opt_portmap : list (Z * Z);         (* get_port_map *)
  opt_keep_ports : bool;              (* keep_original_ports: True unless -m was given *)
  opt_metadata : bool;                (* -a *)
  opt_greasy : bool }.                (* -g *)

(* what the reader yields: a packet, or the key-log lines of a decryption-secrets block *)
Inductive item := IPacket (p : packet) | IDsb (keys : list secret).

Definition l4pkt_of (p : packet) : l4pkt :=
  {| ipv6 := p_v6 p; ip_src := p_src p; ip_dst := p_dst p; proto := p_proto p; seg := p_seg p; field := p_sum p |}.

Section Run.
Variable C : Crypto.
Variable suite_table : list (Z * String.string).
Variable suite_parts : parts.
Variable o : options.

(* handle_packet: the first matching session takes the segment; otherwise a new session if a watched port is involved *)
Fixpoint dispatch_tcp (ss : list tsession) (p : packet) : option (list tsession) :=
  match ss with
  | [] => None
  | s :: r => if matches_session s p then Some (session_handle_packet s p :: r)
              else match dispatch_tcp r p with Some r' => Some (s :: r') | None => None end
  end.
Definition handle_packet (ss : list tsession) (p : packet) : list tsession :=
  match dispatch_tcp ss p with
  | Some ss' => ss'
  | None => if mem_Z (p_dport p) (opt_server_ports o) || mem_Z (p_sport p) (opt_server_ports o)
            then ss ++ [new_session p (opt_server_ports o)] else ss
  end.

Record mstate := { m_sessions : list tsession; m_keylog : list secret }.

(* one iteration of the reading loop (TLS over TCP part) *)
Definition step_tcp (st : mstate) (p : packet) : result mstate :=
  if len (p_data p) =? 0 then Ok st else
  do ok <- (if opt_checksum o then calculate_checksum_tcp (l4pkt_of p) else Ok true);
  if ok then Ok {| m_sessions := handle_packet (m_sessions st) p; m_keylog := m_keylog st |} else Ok st.

(* Session.decrypt(): replay the buffered packets, then build the conversation and serialise it *)
Definition session_endpoints (s : tsession) : endpoints :=
  {| e_v6 := ts_ipv6 s; e_server_ip := ts_server_ip s; e_client_ip := ts_client_ip s;
     e_server_mac := ts_server_mac s; e_client_mac := ts_client_mac s;
     e_server_port := out_server_port (ts_server_port s) (opt_portmap o) (opt_keep_ports o); e_client_port := ts_client_port s |}.

Definition flag_bits (f : tcp_flags) : Z := match f with F_S => 0x02 | F_SA => 0x12 | F_A => 0x10 | F_PA => 0x18 end.

Fixpoint serialise (e : endpoints) (segs : list out_seg) : result (list (Z * bytes)) :=
  match segs with
  | [] => Ok []
  | g :: r => do f <- tcp_frame e (o_from_server g) (flag_bits (o_flags g)) (o_seq g) (o_ack g) (o_payload g);
              do rest <- serialise e r; Ok ((o_ts g, f) :: rest)
  end.

Definition session_traffic (keylog : list secret) (s : tsession) : result (list traffic_entry) :=
  do st <- get_tls_records C suite_table suite_parts keylog (ts_server_ip s) (ts_server_port s)
                          {| rs_server_pbuf := []; rs_client_pbuf := []; rs_server_next := None; rs_client_next := None; rs_core := ts_core s; rs_traffic := [] |} (ts_packet_buffer s);
  (* application_traffic: the entries tagged te_meta exist only when -a was given *)
  Ok (if opt_metadata o then rs_traffic st else filter (fun e => negb (te_meta e)) (rs_traffic st)).

Definition session_segments (keylog : list secret) (s : tsession) : result (list out_seg) :=
  do tr <- session_traffic keylog s; build tr.

(* the TLS-over-TCP part of run(): read everything, then decrypt every session in creation order *)
Definition read_item_tls (st : result mstate) (it : item) : result mstate :=
  do m <- st;
  match it with
  | IDsb ks => Ok {| m_sessions := m_sessions m; m_keylog := m_keylog m ++ ks |}
  | IPacket p => match p_kind p with L4Tcp => step_tcp m p | _ => Ok m end
  end.

Fixpoint decrypt_all (keylog : list secret) (ss : list tsession) : result (list (Z * bytes)) :=
  match ss with
  | [] => Ok []
  | s :: r => do segs <- session_segments keylog s;
              do fr <- serialise (session_endpoints s) segs;
              do rest <- decrypt_all keylog r; Ok (fr ++ rest)
  end.

Definition run_tls (keylog0 : list secret) (items : list item) : result (list (Z * bytes)) :=
  do m <- fold_left read_item_tls items (Ok {| m_sessions := []; m_keylog := keylog0 |});
  decrypt_all (m_keylog m) (m_sessions m).

(* ---------------- QUIC ---------------- *)
Variable ftable : list (list Z * fclass).

(* bytes ordering used to make the connection-ID scan deterministic: longer IDs first, then lexicographic *)
Fixpoint bytes_ltb (a b : bytes) : bool :=
  match a, b with
  | [], [] => false | [], _ :: _ => true | _ :: _, [] => false
  | x :: a', y :: b' => (x <? y) || ((x =? y) && bytes_ltb a' b')
  end.
Definition cid_before (a b : bytes) : bool := (len b <? len a) || ((len a =? len b) && bytes_ltb a b).
Fixpoint insert_cid (c : bytes) (l : list bytes) : list bytes :=
  match l with [] => [c] | x :: r => if cid_before c x then c :: x :: r else x :: insert_cid c r end.
Definition scan_order (cids : list bytes) : list bytes :=
  fold_left (fun acc c => insert_cid c acc) (filter (fun c => negb (len c =? 0)) cids) [].
Definition cid_union (a b : list bytes) : list bytes := fold_left (fun acc c => set_add c acc) b a.

(* known_cid: the connection ID of the session that the datagram is addressed to *)
Definition known_cid (s : qsession) (p : packet) (long : bool) (dcid : bytes) : option bytes :=
  if long then (if (0 <? len dcid) && (mem_bytes dcid (qs_client_cids s) || mem_bytes dcid (qs_server_cids s)) then Some dcid else None)
  else let from_server := ip_eqb (p_src p) (qs_server_ip s) && (p_sport p =? qs_server_port s) in
       find (fun cid => is_prefix cid (slice_from (p_data p) 1)) (scan_order (if from_server then qs_client_cids s else qs_server_cids s)).

(* first pass: the first session whose socket addresses are the datagram's *)
Fixpoint dispatch_by_addr (keylog : list secret) (ss : list qsession) (p : packet) (long : bool) (dcid : bytes) (ver : quic_version)
  : result (option (list qsession)) :=
  match ss with
  | [] => Ok None
  | s :: r =>
      if matches_session_dgram s p then
        do s' <- quic_handle_packet C keylog ftable s p (match known_cid s p long dcid with Some c => c | None => dcid end) ver; Ok (Some (s' :: r))
      else do r' <- dispatch_by_addr keylog r p long dcid ver; Ok (match r' with Some l => Some (s :: l) | None => None end)
  end.

(* second pass: the first session that knows the connection ID *)
Fixpoint dispatch_by_cid (keylog : list secret) (ss : list qsession) (p : packet) (long : bool) (dcid : bytes) (ver : quic_version)
  : result (option (list qsession)) :=
  match ss with
  | [] => Ok None
  | s :: r =>
      match known_cid s p long dcid with
      | Some cid => do s' <- quic_handle_packet C keylog ftable s p cid ver; Ok (Some (s' :: r))
      | None => do r' <- dispatch_by_cid keylog r p long dcid ver; Ok (match r' with Some l => Some (s :: l) | None => None end)
      end
  end.

Definition dispatch_quic (keylog : list secret) (ss : list qsession) (p : packet) (long : bool) (dcid : bytes) (ver : quic_version)
  : result (option (list qsession)) :=
  do r <- dispatch_by_addr keylog ss p long dcid ver;
  match r with Some l => Ok (Some l) | None => dispatch_by_cid keylog ss p long dcid ver end.

Definition handle_quic_packet (keylog : list secret) (ss : list qsession) (p : packet) : result (list qsession) :=
  let d := p_data p in
  do long <- get_header_type_long d;
  if long && (len d <? 6) then Ok ss else          (* a long header needs at least first byte, version and DCID length *)
  let dcid := if long then slice d 6 (6 + nth 5 d 0) else [] in
  let vnum := from_be (slice d 1 5) in
  let ver := if long then (if vnum =? 1 then QV1 else if vnum =? 2 then QV2 else QUnknown) else QUnknown in
  do r <- dispatch_quic keylog ss p long dcid ver;
  match r with
  | Some ss' => Ok ss'
  | None => if long then do s' <- quic_handle_packet C keylog ftable (new_qsession p (opt_server_ports o)) p dcid ver; Ok (ss ++ [s'])
            else Ok ss
  end.

Record gstate := { g_sessions : list tsession; g_quic : list qsession; g_keylog : list secret }.

Definition read_item (st : result gstate) (it : item) : result gstate :=
  do g <- st;
  match it with
  | IDsb ks => Ok {| g_sessions := g_sessions g; g_quic := g_quic g; g_keylog := g_keylog g ++ ks |}
  | IPacket p =>
      match p_kind p with
      | L4Tcp => do m <- step_tcp {| m_sessions := g_sessions g; m_keylog := g_keylog g |} p;
                 Ok {| g_sessions := m_sessions m; g_quic := g_quic g; g_keylog := g_keylog g |}
      | L4Udp =>
          if len (p_data p) =? 0 then Ok g else
          do ok <- (if opt_checksum o then calculate_checksum_udp (l4pkt_of p) else Ok true);
          if negb ok then Ok g else
          if (Z.shiftr (Z.land (nth 0 (p_data p) 0) 64) 6 =? 1) || opt_greasy o then
            do qs <- handle_quic_packet (g_keylog g) (g_quic g) p;
            Ok {| g_sessions := g_sessions g; g_quic := qs; g_keylog := g_keylog g |}
          else Ok g
      | L4Other => Ok g
      end
  end.

Definition quic_endpoints (s : qsession) : endpoints :=
  {| e_v6 := qs_ipv6 s; e_server_ip := qs_server_ip s; e_client_ip := qs_client_ip s;
     e_server_mac := qs_server_mac s; e_client_mac := qs_client_mac s;
     e_server_port := out_server_port (qs_server_port s) (opt_portmap o) (opt_keep_ports o); e_client_port := qs_client_port s |}.

Fixpoint serialise_quic (e : endpoints) (ds : list odgram) : result (list (Z * bytes)) :=
  match ds with
  | [] => Ok []
  | d :: r => do f <- udp_frame e (od_isserver d) (od_payload d); do rest <- serialise_quic e r; Ok ((od_ts d, f) :: rest)
  end.

Fixpoint build_all_quic (ss : list qsession) : result (list (Z * bytes)) :=
  match ss with
  | [] => Ok []
  | s :: r => do fr <- serialise_quic (quic_endpoints s) (quic_build (opt_metadata o) (qs_output s));
              do rest <- build_all_quic r; Ok (fr ++ rest)
  end.

(* run(): read everything, decrypt the TLS sessions, then append what the QUIC sessions collected *)
Definition run (keylog0 : list secret) (items : list item) : result (list (Z * bytes)) :=
  do g <- fold_left read_item items (Ok {| g_sessions := []; g_quic := []; g_keylog := keylog0 |});
  do tls <- decrypt_all (g_keylog g) (g_sessions g);
  do quic <- build_all_quic (g_quic g);
  Ok (tls ++ quic).
End Run.
