(* Model of tlexport/main.py: run() as a left fold over the capture, then per-session decryption and the output file. *)
From Coq Require Import ZArith List Bool.
From Coq Require String.
Require Import PyLib SuiteTypes SuiteParser Crypto KeySchedule Packet Reassembly Decryptor TlsSession OutputBuilder Frames Checksum PcapngWriter.
Import ListNotations.
Open Scope Z_scope.

Record options := {
  opt_server_ports : list Z;          (* server_ports after extend(): [443; 44330] ++ the -p values (default [443]) *)
  opt_checksum : bool;                (* -c *)
  opt_portmap : list (Z * Z);         (* get_port_map *)
  opt_keep_ports : bool;              (* keep_original_ports: True unless -m was given *)
  opt_metadata : bool;                (* -a *)
  opt_greasy : bool }.                (* -g *)

(* what the reader yields: a packet, or the key-log lines of a decryption-secrets block *)
Inductive item := IPacket (p : packet) | IDsb (keys : list secret).

Definition l4pkt_of (p : packet) : l4pkt :=
  {| ipv6 := p_v6 p; ip_src := p_src p; ip_dst := p_dst p; proto := p_proto p; seg := p_seg p; field := p_sum p |}.

Section Run.
Variable C : Crypto.
Variable suite_table : list (Z * String.string).
Variable suite_parts : parts.
Variable o : options.

(* handle_packet: the first matching session takes the segment; otherwise a new session if a watched port is involved *)
Fixpoint dispatch_tcp (ss : list tsession) (p : packet) : option (list tsession) :=
  match ss with
  | [] => None
  | s :: r => if matches_session s p then Some (session_handle_packet s p :: r)
              else match dispatch_tcp r p with Some r' => Some (s :: r') | None => None end
  end.
Definition handle_packet (ss : list tsession) (p : packet) : list tsession :=
  match dispatch_tcp ss p with
  | Some ss' => ss'
  | None => if mem_Z (p_dport p) (opt_server_ports o) || mem_Z (p_sport p) (opt_server_ports o)
            then ss ++ [new_session p (opt_server_ports o)] else ss
  end.

Record mstate := { m_sessions : list tsession; m_keylog : list secret }.

(* one iteration of the reading loop (TLS over TCP part) *)
Definition step_tcp (st : mstate) (p : packet) : result mstate :=
  if len (p_data p) =? 0 then Ok st else
  do ok <- (if opt_checksum o then calculate_checksum_tcp (l4pkt_of p) else Ok true);
  if ok then Ok {| m_sessions := handle_packet (m_sessions st) p; m_keylog := m_keylog st |} else Ok st.

(* Session.decrypt(): replay the buffered packets, then build the conversation and serialise it *)
Definition session_endpoints (s : tsession) : endpoints :=
  {| e_v6 := ts_ipv6 s; e_server_ip := ts_server_ip s; e_client_ip := ts_client_ip s;
     e_server_mac := ts_server_mac s; e_client_mac := ts_client_mac s;
     e_server_port := out_server_port (ts_server_port s) (opt_portmap o) (opt_keep_ports o); e_client_port := ts_client_port s |}.

Definition flag_bits (f : tcp_flags) : Z := match f with F_S => 0x02 | F_SA => 0x12 | F_A => 0x10 | F_PA => 0x18 end.

Fixpoint serialise (e : endpoints) (segs : list out_seg) : result (list (Z * bytes)) :=
  match segs with
  | [] => Ok []
  | g :: r => do f <- tcp_frame e (o_from_server g) (flag_bits (o_flags g)) (o_seq g) (o_ack g) (o_payload g);
              do rest <- serialise e r; Ok ((o_ts g, f) :: rest)
  end.

Definition session_traffic (keylog : list secret) (s : tsession) : result (list traffic_entry) :=
  do st <- get_tls_records C suite_table suite_parts keylog (ts_server_ip s) (ts_server_port s)
                          {| rs_server_pbuf := []; rs_client_pbuf := []; rs_server_next := None; rs_client_next := None; rs_core := ts_core s; rs_traffic := [] |} (ts_packet_buffer s);
  (* application_traffic: the entries tagged te_meta exist only when -a was given *)
  Ok (if opt_metadata o then rs_traffic st else filter (fun e => negb (te_meta e)) (rs_traffic st)).

Definition session_segments (keylog : list secret) (s : tsession) : result (list out_seg) :=
  do tr <- session_traffic keylog s; build tr.

(* the TLS-over-TCP part of run(): read everything, then decrypt every session in creation order *)
Definition read_item_tls (st : result mstate) (it : item) : result mstate :=
  do m <- st;
  match it with
  | IDsb ks => Ok {| m_sessions := m_sessions m; m_keylog := m_keylog m ++ ks |}
  | IPacket p => match p_kind p with L4Tcp => step_tcp m p | _ => Ok m end
  end.

Fixpoint decrypt_all (keylog : list secret) (ss : list tsession) : result (list (Z * bytes)) :=
  match ss with
  | [] => Ok []
  | s :: r => do segs <- session_segments keylog s;
              do fr <- serialise (session_endpoints s) segs;
              do rest <- decrypt_all keylog r; Ok (fr ++ rest)
  end.

Definition run_tls (keylog0 : list secret) (items : list item) : result (list (Z * bytes)) :=
  do m <- fold_left read_item_tls items (Ok {| m_sessions := []; m_keylog := keylog0 |});
  decrypt_all (m_keylog m) (m_sessions m).
End Run.
