(* Model of the TCP reassembly and record framing of session.py:
   Session.handle_packet (duplicate suppression), extract_server_buf / extract_client_buf (sort, contiguity test,
   all-or-nothing record walk, provenance), TlsRecord. *)
From Coq Require Import ZArith List Bool.
Require Import PyLib Packet.
Import ListNotations.
Open Scope Z_scope.

Record tls_record := {
  r_type : Z;             (* binary[0] *)
  r_version : bytes;      (* binary[1:3] *)
  r_length : bytes;       (* binary[3:5] *)
  r_body : bytes;         (* binary[5:] : "record.binary" *)
  r_raw : bytes;          (* the whole record *)
  r_meta : list packet }. (* metadata: the buffered packets whose byte range intersects the record's *)

(* seq_cmp(a, b) < 0: a sorts before b, in serial number arithmetic modulo 2^32 *)
Definition seq_cmp (a b : Z) : Z := (a - b + 2147483648) mod 4294967296 - 2147483648.
Definition seq_lt (a b : Z) : bool := seq_cmp a b <? 0.

(* list.sort(key=cmp_to_key(seq_cmp)): stable; a new element goes after the elements it does not sort before *)
Fixpoint insert_seq (p : packet) (b : list packet) : list packet :=
  match b with
  | [] => [p]
  | x :: r => if seq_lt (p_seq p) (p_seq x) then p :: x :: r else x :: insert_seq p r
  end.
Definition sort_seq (b : list packet) : list packet := fold_left (fun acc p => insert_seq p acc) b [].

(* for i in range(len-1): (buf[i].seq + len(buf[i].tls_data)) & 0xFFFFFFFF != buf[i+1].seq -> return *)
Fixpoint contiguous (b : list packet) : bool :=
  match b with
  | p1 :: ((p2 :: _) as r) => ((p_seq p1 + len (p_data p1)) mod 4294967296 =? p_seq p2) && contiguous r
  | _ => true
  end.

Definition rec_len (d : bytes) (i : Z) : Z := from_be (slice d (i + 3) (i + 5)) + 5.

(* first walk: need_data?  true = the data ends exactly on a record boundary *)
Fixpoint walk (fuel : nat) (d : bytes) (i : Z) : result bool :=
  if len d - i =? 0 then Ok true
  else if len d - i <? 5 then Ok false
  else match fuel with O => Exn OutOfFuel | S f => walk f d (i + rec_len d i) end.

(* packet_ranges: (start, end, packet) *)
Fixpoint ranges (b : list packet) (off : Z) : list (Z * Z * packet) :=
  match b with [] => [] | p :: r => (off, off + len (p_data p), p) :: ranges r (off + len (p_data p)) end.

Definition overlapping (rs : list (Z * Z * packet)) (index record_len : Z) : list packet :=
  map (fun t => snd t) (filter (fun t => let '(a, b, _) := t in (index <? b) && (index + record_len >? a)) rs).

Definition mk_record (binary : bytes) (meta : list packet) : tls_record :=
  {| r_type := nth 0 binary 0; r_version := slice binary 1 3; r_length := slice binary 3 5;
     r_body := slice_from binary 5; r_raw := binary; r_meta := meta |}.

(* second walk: cut the records *)
Fixpoint cut (fuel : nat) (d : bytes) (rs : list (Z * Z * packet)) (i : Z) : result (list tls_record) :=
  if i =? len d then Ok []
  else match fuel with
       | O => Exn OutOfFuel
       | S f => let rl := rec_len d i in
                do rest <- cut f d rs (i + rl);
                Ok (mk_record (slice d i (i + rl)) (overlapping rs i rl) :: rest)
       end.

(* extract_*_buf after appending the packet.  next = the *_next_seq attribute: None until the direction's buffer has been consumed
   once, then the sequence number of the next byte expected.  Result: (next', new buffer, records released). *)
Definition extract (next : option Z) (buf : list packet) : result (option Z * list packet * list tls_record) :=
  let b := sort_seq buf in
  let gate := match next, b with Some n, p :: _ => p_seq p =? n | _, _ => true end in
  if gate && contiguous b then
    let d := concat (map p_data b) in
    do complete <- walk (S (length d)) d 0;
    if complete then
      do recs <- cut (S (length d)) d (ranges b 0) 0;
      Ok (match rev b with last :: _ => Some ((p_seq last + len (p_data last)) mod 4294967296) | [] => next end, [], recs)
    else Ok (next, b, [])
  else Ok (next, b, []).
