(* Model of dpkt.pcapng.Writer(file, snaplen=20000) on a little-endian host: SHB, IDB, one EPB per packet.
   Time stamps are microsecond counts (the float arithmetic of reader and writer is modelled in TimeFloat.v). *)
From Coq Require Import ZArith List Bool.
Require Import PyLib.
Import ListNotations.
Open Scope Z_scope.

(* little-endian fixed-width integers *)
Definition le (n k : Z) : bytes := rev (to_be_total (n mod 2 ^ (8 * k)) k).

Definition shb : bytes :=
  le 0x0A0D0D0A 4 ++ le 28 4 ++ le 0x1A2B3C4D 4 ++ le 1 2 ++ le 0 2 ++ [255;255;255;255;255;255;255;255] ++ le 28 4.
Definition idb (snaplen : Z) : bytes := le 1 4 ++ le 20 4 ++ le 1 2 ++ le 0 2 ++ le snaplen 4 ++ le 20 4.

Definition pad4 (b : bytes) : bytes := b ++ zeros ((4 - len b mod 4) mod 4).

Definition epb (ts_us : Z) (pkt : bytes) : bytes :=
  let n := len pkt in
  let total := 32 + len (pad4 pkt) in
  le 6 4 ++ le total 4 ++ le 0 4 ++ le (Z.shiftr ts_us 32) 4 ++ le (Z.land ts_us 0xffffffff) 4 ++ le n 4 ++ le n 4 ++ pad4 pkt ++ le total 4.

Definition write_file (pkts : list (Z * bytes)) : bytes :=
  shb ++ idb 20000 ++ concat (map (fun p => epb (fst p) (snd p)) pkts).
