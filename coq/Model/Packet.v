(* The abstract packet: what the code reads from the objects dpkt builds for a frame (Packet class of packet.py).
   dpkt's frame parsing itself is modelled, not verified: the model's input starts here. *)
From Coq Require Import ZArith List Bool.
Require Import PyLib.
Import ListNotations.
Open Scope Z_scope.

Inductive l4kind := L4Tcp | L4Udp | L4Other.   (* tcp_packet / udp_packet / neither (non-IP, other protocol) *)

Record packet := {
  p_ts : Z;                 (* capture time, in the units of the container's resolution (opaque to sessions and builders) *)
  p_tsid : Z;               (* identity of the reader's float timestamp (its IEEE-754 bit pattern): two packets carry equal
                               float timestamps iff these are equal; equal p_tsid implies equal p_ts.  Only the QUIC builder compares timestamps *)
  p_kind : l4kind;
  p_v6 : bool;
  p_src : bytes; p_dst : bytes;          (* ip.src / ip.dst *)
  p_smac : bytes; p_dmac : bytes;        (* ethernet.src / ethernet.dst *)
  p_sport : Z; p_dport : Z;
  p_seq : Z;                             (* tcp.seq (0 for UDP) *)
  p_data : bytes;                        (* tcp.data / udp.data : "tls_data" *)
  (* for the -c option *)
  p_proto : Z; p_seg : bytes; p_sum : Z }.

Definition ip_eqb (a b : bytes) : bool := bytes_eqb a b.
