(* Model of tlexport/quic/quic_frame.py: the frame classes' constructors and parse_frames.
   A frame is kept as: class, first byte, total length, the decoded integer fields in reading order,
   and the byte-string fields in reading order.  The dispatch table is regenerated (Gen/FrameTable.v). *)
From Coq Require Import ZArith List Bool.
Require Import PyLib Varint.
Import ListNotations.
Open Scope Z_scope.

Inductive fclass :=
| CPadding | CPing | CAck | CResetStream | CStopSending | CCrypto | CNewToken | CStream | CMaxData | CMaxStreamData
| CMaxStreams | CDataBlocked | CStreamDataBlocked | CStreamsBlocked | CNewConnectionId | CRetireConnectionId
| CPathChallenge | CPathResponse | CConnectionClose | CDatagram | CHandshakeDone | CGeneric.

Record frame := { f_cls : fclass; f_type : Z; f_len : Z; f_ints : list Z; f_datas : list bytes }.

(* reader state: (length so far = read index, ints, datas), all lists in reverse reading order *)
Definition rstate := (Z * list Z * list bytes)%type.

(* self.length += get_variable_length_int_length(payload[index:index+1]); x = decode_variable_length_int(payload[index:self.length]) *)
Definition read_var (p : bytes) (st : rstate) : result rstate :=
  let '(idx, ints, datas) := st in
  do w <- get_variable_length_int_length (slice p idx (idx + 1));
  let l := idx + w in
  do v <- decode_variable_length_int (slice p idx l);
  Ok (l, v :: ints, datas).

(* x = payload[self.length]; self.length += 1 *)
Definition read_byte (p : bytes) (st : rstate) : result rstate :=
  let '(idx, ints, datas) := st in
  do v <- index p idx; Ok (idx + 1, v :: ints, datas).

(* data = payload[index : index + n]; self.length += n  (slices clamp, the length does not) *)
Definition read_data (p : bytes) (n : Z) (st : rstate) : rstate :=
  let '(idx, ints, datas) := st in (idx + n, ints, slice p idx (idx + n) :: datas).

Definition last_int (st : rstate) : Z := match st with (_, v :: _, _) => v | _ => 0 end.

(* data = payload[index:]; self.length = len(payload) *)
Definition read_rest (p : bytes) (st : rstate) : rstate :=
  let '(idx, ints, datas) := st in (len p, ints, slice p idx (len p) :: datas).

Inductive fld := V | B | D | Fx (n : Z) | Rest.

Fixpoint run_prog (p : bytes) (prog : list fld) (st : rstate) : result rstate :=
  match prog with
  | [] => Ok st
  | V :: r => do st' <- read_var p st; run_prog p r st'
  | B :: r => do st' <- read_byte p st; run_prog p r st'
  | D :: r => run_prog p r (read_data p (last_int st) st)
  | Fx n :: r => run_prog p r (read_data p n st)
  | Rest :: r => run_prog p r (read_rest p st)
  end.

(* AckFrame: range_count pairs of varints; every successful pair consumes at least two bytes *)
Fixpoint read_pairs (p : bytes) (fuel : nat) (count : Z) (st : rstate) : result rstate :=
  if count <=? 0 then Ok st else
  match fuel with
  | O => Exn OutOfFuel
  | S f => do st1 <- read_var p st; do st2 <- read_var p st1; read_pairs p f (count - 1) st2
  end.

(* PaddingFrame: index of the first non-zero byte, or len(payload) *)
Fixpoint padding_len (p : bytes) (i : Z) : Z :=
  match p with [] => i | x :: r => if x =? 0 then padding_len r (i + 1) else i end.

Definition mk (c : fclass) (t : Z) (st : rstate) : frame :=
  let '(l, ints, datas) := st in {| f_cls := c; f_type := t; f_len := l; f_ints := rev ints; f_datas := rev datas |}.

Definition st0 : rstate := (1, [], []).

Definition prog_of (c : fclass) (t : Z) : list fld :=
  match c with
  | CPing | CHandshakeDone => []
  | CResetStream => [V; V; V]
  | CStopSending => [V; V]
  | CCrypto => [V; V; D]
  | CNewToken => [V; D]
  | CMaxData | CMaxStreams | CDataBlocked | CStreamsBlocked | CRetireConnectionId => [V]
  | CMaxStreamData | CStreamDataBlocked => [V; V]
  | CNewConnectionId => [V; V; B; D; Fx 16]
  | CConnectionClose => if t =? 0x1c then [V; V; V; D] else [V; V; D]
  | CStream => [V] ++ (if Z.testbit t 2 then [V] else []) ++ (if Z.testbit t 1 then [V; D] else [Rest])
  | _ => []
  end.

(* one constructor call: class c applied to payload p (whose first byte is t) *)
Definition parse_one (c : fclass) (p : bytes) : result frame :=
  match c with
  | CPadding =>
      (* length = 1; for i, byte in enumerate(payload): if byte != 0: length = i; return *)
      Ok {| f_cls := CPadding; f_type := 0; f_len := padding_len p 0; f_ints := []; f_datas := [] |}
  | CPing => Ok (mk CPing 1 st0)
  | CHandshakeDone => Ok (mk CHandshakeDone 0x1e st0)
  | CPathChallenge => Ok {| f_cls := CPathChallenge; f_type := 0x1a; f_len := 9; f_ints := []; f_datas := [slice p 1 9] |}
  | CPathResponse => Ok {| f_cls := CPathResponse; f_type := 0x1b; f_len := 9; f_ints := []; f_datas := [slice p 1 9] |}
  | CAck =>
      do t <- index p 0;
      do st1 <- run_prog p [V; V; V; V] st0;
      let count := match st1 with (_, _ :: c :: _, _) => c | _ => 0 end in
      do st2 <- read_pairs p (S (length p)) count st1;
      do st3 <- (if t =? 3 then run_prog p [V; V; V] st2 else Ok st2);
      Ok (mk CAck t st3)
  | CStream | CMaxStreams | CStreamsBlocked | CConnectionClose =>
      do t <- index p 0; do st <- run_prog p (prog_of c t) st0; Ok (mk c t st)
  | CDatagram =>
      do t <- index p 0;
      if Z.land t 1 =? 1 then
        (* var_int_length from payload[1:2]; payload_length from payload[1:1+vl]; data; length = 1 + vl + payload_length *)
        do st <- run_prog p [V; D] st0; Ok (mk CDatagram t st)
      else Ok {| f_cls := CDatagram; f_type := t; f_len := len p; f_ints := []; f_datas := [slice p 1 (len p)] |}
  | CGeneric =>
      (* length = 1 + vl(payload[1:2]); frame_length = dec(payload[1:length]); data = payload[1+length : 1+length+frame_length]; length += frame_length *)
      do t <- index p 0;
      do st <- read_var p st0;
      let '(l, ints, _) := st in
      let fl := last_int st in
      Ok {| f_cls := CGeneric; f_type := t; f_len := l + fl; f_ints := rev ints; f_datas := [slice p (1 + l) (1 + l + fl)] |}
  | _ =>
      let t := match p with x :: _ => x | [] => 0 end in
      do st <- run_prog p (prog_of c t) st0; Ok (mk c t st)
  end.

(* for k in keys: if payload[0] in k: key = k  -- the LAST matching key wins *)
Fixpoint dispatch (tbl : list (list Z * fclass)) (t : Z) (acc : option fclass) : option fclass :=
  match tbl with
  | [] => acc
  | (ks, c) :: r => dispatch r t (if mem_Z t ks then Some c else acc)
  end.

Fixpoint parse_frames_fuel (tbl : list (list Z * fclass)) (fuel : nat) (p : bytes) : result (list frame) :=
  match p with
  | [] => Ok []
  | t :: _ =>
      match fuel with
      | O => Exn OutOfFuel
      | S f =>
          let c := match dispatch tbl t None with Some c => c | None => CGeneric end in
          do fr <- parse_one c p;
          (* payload = payload[frame_length:]  (frame lengths are never negative) *)
          do rest <- parse_frames_fuel tbl f (slice_from p (f_len fr));
          Ok (fr :: rest)
      end
  end.

Definition parse_frames (tbl : list (list Z * fclass)) (p : bytes) : result (list frame) :=
  parse_frames_fuel tbl (S (length p)) p.
