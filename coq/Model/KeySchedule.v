(* Model of tlexport/key_derivator.py (all of it). *)
From Coq Require Import ZArith List Bool.
Require Import PyLib SuiteTypes Crypto.
Import ListNotations.
Open Scope Z_scope.

Inductive label := LClientRandom | LRsa | LClientEarly | LClientHs | LServerHs | LClientApp | LServerApp
                 | LServerEarly | LOther.
Definition label_eqb (a b : label) : bool :=
  match a, b with
  | LClientRandom, LClientRandom | LRsa, LRsa | LClientEarly, LClientEarly | LClientHs, LClientHs | LServerHs, LServerHs
  | LClientApp, LClientApp | LServerApp, LServerApp | LServerEarly, LServerEarly | LOther, LOther => true
  | _, _ => false
  end.

(* one accepted key-log line: label, client random (text of 64 hex digits), value: None when bytes.fromhex would raise *)
Record secret := { s_label : label; s_random : bytes; s_value : option bytes }.
Definition fromhex (s : secret) : result bytes := match s_value s with Some v => Ok v | None => Exn ValueError end.

Section KS.
Variable C : Crypto.

(* b"A", b"BB", ... : bytes(counter * sec_bits[counter - 1], 'utf-8'); IndexError beyond "J" *)
Definition ssl3_label (counter : Z) : result bytes :=
  if (1 <=? counter) && (counter <=? 10) then Ok (repeat (64 + counter) (Z.to_nat counter)) else Exn IndexError.

Fixpoint prf_ssl_30_loop (fuel : nat) (secret rnd : bytes) (counter : Z) (acc : bytes) (length : Z) : result bytes :=
  if len acc <? length then
    match fuel with
    | O => Exn OutOfFuel
    | S f =>
        do l <- ssl3_label counter;
        let a := c_hash C SHA1 (l ++ secret ++ rnd) in
        prf_ssl_30_loop f secret rnd (counter + 1) (acc ++ c_hash C MD5 (secret ++ a)) length
    end
  else Ok acc.

Definition prf_ssl_30 (secret client_random server_random : bytes) (length : Z) (non_key : bool) : result bytes :=
  let rnd := if non_key then client_random ++ server_random else server_random ++ client_random in
  do kb <- prf_ssl_30_loop 12 secret rnd 1 [] length;
  Ok (slice_to kb length).

(* while len(p) < length: a1 = HMAC(s, a0); p += HMAC(s, a1 + seed); a0 = a1 *)
Fixpoint p_hash_loop (fuel : nat) (h : hash_alg) (secret seed a0 acc : bytes) (length : Z) : result bytes :=
  if len acc <? length then
    match fuel with
    | O => Exn OutOfFuel
    | S f => let a1 := c_hmac C h secret a0 in
             p_hash_loop f h secret seed a1 (acc ++ c_hmac C h secret (a1 ++ seed)) length
    end
  else Ok acc.
Definition p_hash (h : hash_alg) (secret seed : bytes) (length : Z) : result bytes :=
  p_hash_loop (S (Z.to_nat length)) h secret seed seed [] length.

Definition prf_tls_10_11 (secret client_random server_random lbl : bytes) (length : Z) (non_key : bool) : result bytes :=
  let seed := lbl ++ (if non_key then client_random ++ server_random else server_random ++ client_random) in
  let l_s := len secret in
  let l_s1 := (l_s + 1) / 2 in                      (* math.ceil(l_s / 2) *)
  let s1 := slice_to secret l_s1 in
  let s2 := slice_from secret l_s1 in
  do p_md5 <- p_hash MD5 s1 seed length;
  do p_sha1 <- p_hash SHA1 s2 seed length;
  Ok (slice_to (xor_zip p_md5 p_sha1) length).

Definition prf_tls_12 (secret client_random server_random lbl : bytes) (length : Z) (mac_function : hash_alg) : result bytes :=
  let mac := if hash_eqb mac_function SHA384 then SHA384 else SHA256 in
  let seed := lbl ++ server_random ++ client_random in
  do blk <- p_hash mac secret seed length;
  Ok (slice_to blk length).

Definition key_expansion : bytes := [107; 101; 121; 32; 101; 120; 112; 97; 110; 115; 105; 111; 110].   (* b"key expansion" *)
Definition master_secret_label : bytes := [109; 97; 115; 116; 101; 114; 32; 115; 101; 99; 114; 101; 116]. (* b"master secret" *)

Record keys12 := { client_mac : bytes; server_mac : bytes; client_key : bytes; server_key : bytes;
                   client_iv : bytes; server_iv : bytes }.

Definition slice_keys (kb : bytes) (mac_length key_length iv_length : Z) : keys12 :=
  {| client_mac := slice kb 0 mac_length;
     server_mac := slice kb mac_length (2 * mac_length);
     client_key := slice kb (2 * mac_length) (2 * mac_length + key_length);
     server_key := slice kb (2 * mac_length + key_length) (2 * mac_length + 2 * key_length);
     client_iv := slice kb (2 * mac_length + 2 * key_length) (2 * mac_length + 2 * key_length + iv_length);
     server_iv := slice kb (2 * mac_length + 2 * key_length + iv_length) (2 * mac_length + 2 * key_length + 2 * iv_length) |}.

(* iv_length of dev_ssl_30_keys / dev_tls_10_11_keys: 16 for AES/Camellia, 8 for 3DES and IDEA, else 4 *)
Definition iv_length_legacy (a : option alg) : Z :=
  match a with Some AES | Some Camellia => 16 | Some TripleDES | Some IDEA => 8 | _ => 4 end.
(* iv_length of dev_tls_12_keys *)
Definition iv_length_12 (a : option alg) (use_aead : Z) : Z :=
  match a with
  | Some ChaCha20Poly1305 => 12
  | Some AES => 16
  | Some Camellia => if use_aead =? 0 then 16 else 4
  | _ => 4
  end.

Definition dev_ssl_30_keys (master_secret server_random client_random : bytes) (key_length mac_length key_block_length : Z)
           (cipher_algo : option alg) (use_aead : Z) : result keys12 :=
  let iv_length := iv_length_legacy cipher_algo in
  let mac_length := if use_aead =? 0 then mac_length else 0 in
  do kb <- prf_ssl_30 master_secret client_random server_random (key_block_length + 2 * iv_length) false;
  Ok (slice_keys kb mac_length key_length iv_length).

Definition dev_tls_10_11_keys (master_secret server_random client_random : bytes) (key_length mac_length key_block_length : Z)
           (cipher_algo : option alg) (use_aead : Z) : result keys12 :=
  let iv_length := iv_length_legacy cipher_algo in
  let mac_length := if use_aead =? 0 then mac_length else 0 in
  do kb <- prf_tls_10_11 master_secret client_random server_random key_expansion (key_block_length + 2 * iv_length) false;
  Ok (slice_keys kb mac_length key_length iv_length).

Definition dev_tls_12_keys (master_secret client_random server_random : bytes) (key_length mac_length key_block_length : Z)
           (cipher_algo : option alg) (use_aead : Z) (mac_function : hash_alg) : result keys12 :=
  let iv_length := iv_length_12 cipher_algo use_aead in
  let mac_length := if use_aead =? 0 then mac_length else 0 in
  do kb <- prf_tls_12 master_secret client_random server_random key_expansion (key_block_length + 2 * iv_length) mac_function;
  Ok (slice_keys kb mac_length key_length iv_length).

(* ---- TLS 1.3 ---- *)
Definition tls13_key_label : bytes := [116; 108; 115; 49; 51; 32; 107; 101; 121].   (* b"tls13 key" *)
Definition tls13_iv_label : bytes := [116; 108; 115; 49; 51; 32; 105; 118].          (* b"tls13 iv" *)

Record keys13 := {
  client_hs_key : option bytes; server_hs_key : option bytes; client_app_key : option bytes; server_app_key : option bytes;
  client_hs_iv : option bytes; server_hs_iv : option bytes; client_app_iv : option bytes; server_app_iv : option bytes }.
Definition keys13_none : keys13 :=
  {| client_hs_key := None; server_hs_key := None; client_app_key := None; server_app_key := None;
     client_hs_iv := None; server_hs_iv := None; client_app_iv := None; server_app_iv := None |}.

Definition dev_tls_13_keys (secret_list : list secret) (key_length : Z) (hash_fun : hash_alg) : result keys13 :=
  do kl <- to_be key_length 2;                       (* int(key_length).to_bytes(2, 'big') *)
  let iv_info := [0; 12] ++ [8] ++ tls13_iv_label ++ [0] in
  let key_info := kl ++ [9] ++ tls13_key_label ++ [0] in
  let step (acc : result keys13) (s : secret) : result keys13 :=
    do k <- acc;
    let derive := (do v <- fromhex s;
                   do key <- c_hkdf_expand C hash_fun v key_info (from_be kl);
                   do iv <- c_hkdf_expand C hash_fun v iv_info 12; Ok (key, iv)) in
    match s_label s with
    | LClientHs => do r <- derive; let '(key, iv) := r in
        Ok {| client_hs_key := Some key; server_hs_key := server_hs_key k; client_app_key := client_app_key k; server_app_key := server_app_key k;
              client_hs_iv := Some iv; server_hs_iv := server_hs_iv k; client_app_iv := client_app_iv k; server_app_iv := server_app_iv k |}
    | LServerHs => do r <- derive; let '(key, iv) := r in
        Ok {| client_hs_key := client_hs_key k; server_hs_key := Some key; client_app_key := client_app_key k; server_app_key := server_app_key k;
              client_hs_iv := client_hs_iv k; server_hs_iv := Some iv; client_app_iv := client_app_iv k; server_app_iv := server_app_iv k |}
    | LClientApp => do r <- derive; let '(key, iv) := r in
        Ok {| client_hs_key := client_hs_key k; server_hs_key := server_hs_key k; client_app_key := Some key; server_app_key := server_app_key k;
              client_hs_iv := client_hs_iv k; server_hs_iv := server_hs_iv k; client_app_iv := Some iv; server_app_iv := server_app_iv k |}
    | LServerApp => do r <- derive; let '(key, iv) := r in
        Ok {| client_hs_key := client_hs_key k; server_hs_key := server_hs_key k; client_app_key := client_app_key k; server_app_key := Some key;
              client_hs_iv := client_hs_iv k; server_hs_iv := server_hs_iv k; client_app_iv := client_app_iv k; server_app_iv := Some iv |}
    | _ => Ok k
    end in
  fold_left step secret_list (Ok keys13_none).

(* ---- master secrets from a pre-master secret (RSA key-log lines) ---- *)
Definition gen_master_secret_ssl_30 (pms cr sr : bytes) : result bytes := prf_ssl_30 pms cr sr 48 true.
Definition gen_master_secret_tls_10_11 (pms cr sr : bytes) : result bytes := prf_tls_10_11 pms cr sr master_secret_label 48 true.
Definition gen_master_secret_tls_12 (pms cr sr : bytes) : bytes :=
  let seed := master_secret_label ++ cr ++ sr in
  let a1 := c_hmac C SHA256 pms seed in
  let a2 := c_hmac C SHA256 pms a1 in
  let p1 := c_hmac C SHA256 pms (a1 ++ seed) in
  let p2 := c_hmac C SHA256 pms (a2 ++ seed) in
  p1 ++ slice_to p2 16.

(* ---- Session.generate_keys: which function is called with which arguments ---- *)
Inductive tls_version := SSL30 | TLS10 | TLS11 | TLS12 | TLS13.
Definition version_eqb (a b : tls_version) : bool :=
  match a, b with SSL30, SSL30 | TLS10, TLS10 | TLS11, TLS11 | TLS12, TLS12 | TLS13, TLS13 => true | _, _ => false end.

Inductive session_keys := K12 (k : keys12) | K13 (k : keys13).

Definition algo_of (cs : suite) : option alg := match s_algo cs with Some (a, _) => Some a | None => None end.
Definition algo_flag (cs : suite) : Z := match s_algo cs with Some (_, f) => f | None => 0 end.
Definition mode_flag (cs : suite) : Z := match s_mode cs with Some (_, f) => f | None => 0 end.

(* secret_list is non-empty here (the caller returned earlier otherwise); secret = secret_list[0] *)
Definition derive_session_keys (v : tls_version) (cs : suite) (secret_list : list secret) (client_random server_random : bytes)
  : result session_keys :=
  match s_keylen cs with
  | None => Exn TypeError                      (* (None, 0) where an int is needed; unreachable for table suites (C14_suites_known) *)
  | Some key_length =>
    let mac_length := digest_size (s_mac cs) in
    let kbl := 2 * key_length + 2 * mac_length in
    match secret_list with
    | [] => Exn IndexError
    | sec :: _ =>
      match v with
      | TLS13 => rmap K13 (dev_tls_13_keys secret_list key_length (s_mac cs))
      | TLS12 =>
          match s_label sec with
          | LClientRandom => do ms <- fromhex sec;
              rmap K12 (dev_tls_12_keys ms client_random server_random key_length mac_length kbl (algo_of cs) (mode_flag cs) (s_mac cs))
          | LRsa => do pms <- fromhex sec;
              let ms := gen_master_secret_tls_12 pms client_random server_random in
              rmap K12 (dev_tls_12_keys ms client_random server_random key_length mac_length kbl (algo_of cs) (mode_flag cs) (s_mac cs))
          | _ => Exn UnboundLocal
          end
      | TLS10 | TLS11 =>
          match s_label sec with
          | LClientRandom => do ms <- fromhex sec;
              rmap K12 (dev_tls_10_11_keys ms server_random client_random key_length mac_length kbl (algo_of cs) (mode_flag cs))
          | LRsa => do pms <- fromhex sec;
              do ms <- gen_master_secret_tls_10_11 pms client_random server_random;
              (* the RSA branch hands (client_random, server_random) to parameters named (server_random, client_random) *)
              rmap K12 (dev_tls_10_11_keys ms client_random server_random key_length mac_length kbl (algo_of cs) (mode_flag cs))
          | _ => Exn UnboundLocal
          end
      | SSL30 =>
          match s_label sec with
          | LClientRandom => do ms <- fromhex sec;
              rmap K12 (dev_ssl_30_keys ms server_random client_random key_length mac_length kbl (algo_of cs) (algo_flag cs))
          | LRsa => do pms <- fromhex sec;
              do ms <- gen_master_secret_ssl_30 pms client_random server_random;
              rmap K12 (dev_ssl_30_keys ms client_random server_random key_length mac_length kbl (algo_of cs) (algo_flag cs))
          | _ => Exn UnboundLocal
          end
      end
    end
  end.

End KS.
