(* PyLib: the meaning this development gives to the Python operations the code uses.
   Python int -> Z; bytes/bytearray -> list Z (each 0..255 where bytes_ok is required).
   Exceptions are values.  No proofs here (see Proofs/PyLibP.v), so the model evaluates
   even when a proof is broken. *)
From Coq Require Import ZArith List Bool.
Import ListNotations.
Open Scope Z_scope.

Definition bytes := list Z.

Inductive exn :=
| IndexError | KeyError | AttributeError | UnboundLocal | ValueError | TypeError
| OverflowError | StructError | InvalidTag | NeedData | ZeroDivision | SysExit | OutOfFuel
| UnicodeError.

Inductive result (A : Type) := Ok (a : A) | Exn (e : exn).
Arguments Ok {A} a.
Arguments Exn {A} e.

Definition bind {A B} (m : result A) (f : A -> result B) : result B :=
  match m with Ok a => f a | Exn e => Exn e end.
Definition rmap {A B} (f : A -> B) (m : result A) : result B :=
  match m with Ok a => Ok (f a) | Exn e => Exn e end.
Notation "'do' x <- m ; f" := (bind m (fun x => f)) (at level 200, x pattern, m at level 100, f at level 200).
(* try: m  except Exception: h *)
Definition catch {A} (m : result A) (h : A) : A := match m with Ok a => a | Exn _ => h end.
Definition is_ok {A} (m : result A) : bool := match m with Ok _ => true | Exn _ => false end.

Definition len {A} (l : list A) : Z := Z.of_nat (length l).

(* d[a:b] for non-negative a, b (clamps, never raises) *)
(* counts are clamped to the list length before becoming a nat, so that a huge (attacker-chosen) bound never
   turns into a huge unary number when the model is executed; PyLibP.slice_eq shows the clamp changes nothing *)
Definition slice {A} (d : list A) (a b : Z) : list A :=
  firstn (Z.to_nat (Z.min (b - a) (len d))) (skipn (Z.to_nat (Z.min a (len d))) d).
(* d[a:] for non-negative a *)
Definition slice_from {A} (d : list A) (a : Z) : list A := skipn (Z.to_nat (Z.min a (len d))) d.
(* d[:b] for non-negative b *)
Definition slice_to {A} (d : list A) (b : Z) : list A := firstn (Z.to_nat (Z.min b (len d))) d.
(* d[:-n] for n >= 0.  Python: -0 == 0, so d[:-0] is the empty sequence. *)
Definition slice_drop_last {A} (d : list A) (n : Z) : list A :=
  if n =? 0 then [] else firstn (Z.to_nat (len d - n)) d.
(* d[-n:] for n >= 0.  Python: d[-0:] is all of d. *)
Definition slice_last {A} (d : list A) (n : Z) : list A :=
  if n =? 0 then d else skipn (Z.to_nat (len d - n)) d.
(* d[a:-n], a >= 0, n > 0 *)
Definition slice_mid {A} (d : list A) (a n : Z) : list A :=
  if n =? 0 then [] else firstn (Z.to_nat (len d - n - a)) (skipn (Z.to_nat a) d).

(* d[i], raising IndexError out of range; negative indices count from the end *)
Definition index (d : bytes) (i : Z) : result Z :=
  let j := if i <? 0 then len d + i else i in
  if (j <? 0) || (len d <=? j) then Exn IndexError else Ok (nth (Z.to_nat j) d 0).

(* int.from_bytes(l, 'big') *)
Fixpoint be_acc (l : bytes) (acc : Z) : Z :=
  match l with [] => acc | x :: r => be_acc r (acc * 256 + x) end.
Definition from_be (l : bytes) : Z := be_acc l 0.

(* n.to_bytes(k, 'big'), OverflowError when n is negative or does not fit *)
Fixpoint to_be_fuel (k : nat) (n : Z) (acc : bytes) : bytes :=
  match k with O => acc | S k' => to_be_fuel k' (n / 256) ((n mod 256) :: acc) end.
Definition to_be (n k : Z) : result bytes :=
  if (n <? 0) || (2 ^ (8 * k) <=? n) || (k <? 0) then Exn OverflowError
  else Ok (to_be_fuel (Z.to_nat k) n []).
(* total version, used where the range is established separately *)
Definition to_be_total (n k : Z) : bytes := to_be_fuel (Z.to_nat k) n [].

Definition zeros (n : Z) : bytes := repeat 0 (Z.to_nat n).

Definition bytes_ok (l : bytes) : Prop := Forall (fun b => 0 <= b < 256) l.
Definition bytes_okb (l : bytes) : bool := forallb (fun b => (0 <=? b) && (b <? 256)) l.

Fixpoint bytes_eqb (a b : bytes) : bool :=
  match a, b with
  | [], [] => true
  | x :: a', y :: b' => (x =? y) && bytes_eqb a' b'
  | _, _ => false
  end.

(* a in l, for a list of byte strings *)
Definition mem_bytes (a : bytes) (l : list bytes) : bool := existsb (bytes_eqb a) l.
Definition mem_Z (a : Z) (l : list Z) : bool := existsb (Z.eqb a) l.

(* zip-with xor (stops at the shorter, as Python's zip) *)
Fixpoint xor_zip (a b : bytes) : bytes :=
  match a, b with x :: a', y :: b' => Z.lxor x y :: xor_zip a' b' | _, _ => [] end.
Fixpoint and_zip (a b : bytes) : bytes :=
  match a, b with x :: a', y :: b' => Z.land x y :: and_zip a' b' | _, _ => [] end.

(* prefix test: p == d[:len p] *)
Fixpoint is_prefix (p d : bytes) : bool :=
  match p, d with
  | [], _ => true
  | x :: p', y :: d' => (x =? y) && is_prefix p' d'
  | _ :: _, [] => false
  end.

Fixpoint concat_bytes (l : list bytes) : bytes :=
  match l with [] => [] | x :: r => x ++ concat_bytes r end.

Definition option_bind {A B} (m : option A) (f : A -> option B) : option B :=
  match m with Some a => f a | None => None end.
