(* Extraction of the executable model for the correspondence check.
   Directives in use: those of ExtrOcamlBasic (bool, option, unit, list, prod, sumbool, sumor, comparison as
   OCaml's own types) and nothing else; Z/positive/N/nat/string/ascii stay the extracted inductives. *)
From Coq Require Import Extraction ExtrOcamlBasic ZArith String List.
From TLX Require Import PyLib SuiteTypes SuiteParser SuiteTable Iana QuicPn Rfc9000 Varint QuicFrames FrameTable Checksum.

Definition x_suite (c : Z) : option suite := split_cipher_suite table parts c.
Definition x_denote (n : string) : option denotation := denote n.
Definition x_iana (c : Z) : option string := iana_name c.

Definition x_full_pn := full_pn.
Definition x_rfc_pn := decode_packet_number.
Definition x_quic_nonce := quic_nonce.
Definition x_parse_frames := parse_frames frame_table.
Definition x_varint := decode_variable_length_int.
Definition x_varint_len := get_variable_length_int_length.
Definition x_cksum (off : Z) (v6 : bool) (src dst : bytes) (proto : Z) (sg : bytes) (fld : Z) :=
  calculate_checksum off {| ipv6 := v6; ip_src := src; ip_dst := dst; proto := proto; seg := sg; field := fld |}.
Definition x_occ := ones_complement_checksum.
Extraction "model.ml" x_cksum x_occ x_parse_frames x_varint x_varint_len x_full_pn x_rfc_pn x_quic_nonce x_suite x_denote x_iana index from_be to_be Z.add Z.mul Z.div Z.modulo Z.eqb Z.ltb.
