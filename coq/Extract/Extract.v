(* Extraction of the executable model for the correspondence check.
   Directives in use: those of ExtrOcamlBasic (bool, option, unit, list, prod, sumbool, sumor, comparison as
   OCaml's own types) and nothing else; Z/positive/N/nat/string/ascii stay the extracted inductives. *)
From Coq Require Import Extraction ExtrOcamlBasic ZArith String List.
From TLX Require Import PyLib SuiteTypes SuiteParser SuiteTable Iana QuicPn Rfc9000 Varint QuicFrames FrameTable Checksum Crypto KeySchedule QuicKeys Packet Reassembly Decryptor TlsSession OutputBuilder Frames PcapngWriter QuicDissector QuicTls QuicSession Main Cli Keylog PcapngReader TimeConv PcapLegacy.

Definition x_suite (c : Z) : option suite := split_cipher_suite table parts c.
Definition x_denote (n : string) : option denotation := denote n.
Definition x_iana (c : Z) : option string := iana_name c.

Definition x_full_pn := full_pn.
Definition x_rfc_pn := decode_packet_number.
Definition x_quic_nonce := quic_nonce.
Definition x_parse_frames := parse_frames frame_table.
Definition x_varint := decode_variable_length_int.
Definition x_varint_len := get_variable_length_int_length.
Definition x_cksum (off : Z) (v6 : bool) (src dst : bytes) (proto : Z) (sg : bytes) (fld : Z) :=
  calculate_checksum off (if Z.eqb off 16 then 6 else 17)%Z {| Checksum.ipv6 := v6; Checksum.ip_src := src; Checksum.ip_dst := dst; Checksum.proto := proto; Checksum.seg := sg; Checksum.field := fld |}.
Definition x_occ := ones_complement_checksum.
Definition x_derive_session_keys := derive_session_keys.
Definition x_dev_initial_keys := dev_initial_keys.
Definition x_dev_quic_keys := dev_quic_keys.
Definition x_key_update := key_update.
Definition x_prf_ssl_30 := prf_ssl_30.
Definition x_prf_tls_10_11 := prf_tls_10_11.
Definition x_prf_tls_12 := prf_tls_12.
Definition x_gen_ms_12 := gen_master_secret_tls_12.
Definition x_make_info := make_info.
Definition x_run_tls (C : Crypto) (o : options) := run_tls C table parts o.
Definition x_run (C : Crypto) (o : options) := run C table parts o frame_table.
Definition x_write_file := write_file.
Definition x_cli := cli.
Definition x_keylog := get_keys_from_string.
Definition x_pcapng := parse_file.
Definition x_time_us := time_us.
Definition x_legacy_us := legacy_us.
Definition x_read_legacy := read_legacy.

Extraction "model.ml" x_read_legacy x_legacy_us x_time_us x_pcapng x_keylog x_cli x_run x_run_tls x_write_file x_derive_session_keys x_dev_initial_keys x_dev_quic_keys x_key_update x_prf_ssl_30 x_prf_tls_10_11 x_prf_tls_12 x_gen_ms_12 x_make_info x_cksum x_occ x_parse_frames x_varint x_varint_len x_full_pn x_rfc_pn x_quic_nonce x_suite x_denote x_iana index from_be to_be Z.add Z.mul Z.div Z.modulo Z.eqb Z.ltb.
