(* Hand-written driver around the extracted model (Model = model.ml).
   One request per stdin line: "<cmd> <arg> ..."; one answer line "R <text>".
   While a request is evaluated the model may ask the crypto oracle: it prints "Q <prim> <args>" and reads one answer line. *)
type ostring = string
open Model

(* ---------- conversions ---------- *)
let rec pos_of_int (n : int) : positive =
  if n = 1 then XH else if n land 1 = 0 then XO (pos_of_int (n lsr 1)) else XI (pos_of_int (n lsr 1))
let z_of_int (n : int) : z = if n = 0 then Z0 else if n > 0 then Zpos (pos_of_int n) else Zneg (pos_of_int (- n))
let rec int_of_pos (p : positive) : int = match p with XH -> 1 | XO q -> 2 * int_of_pos q | XI q -> 2 * int_of_pos q + 1
let int_of_z (x : z) : int = match x with Z0 -> 0 | Zpos p -> int_of_pos p | Zneg p -> - (int_of_pos p)

let z16 = z_of_int 16
(* arbitrary-size integers travel as (optionally negative) hex strings *)
let z_of_hex (s : ostring) : z =
  let neg = String.length s > 0 && s.[0] = '-' in
  let s = if neg then String.sub s 1 (String.length s - 1) else s in
  let r = ref Z0 in
  String.iter (fun c ->
    let d = match c with '0'..'9' -> Char.code c - 48 | 'a'..'f' -> Char.code c - 87 | 'A'..'F' -> Char.code c - 55 | _ -> failwith "hex" in
    r := Z.add (Z.mul !r z16) (z_of_int d)) s;
  if neg then Z.opp !r else !r
let hex_of_z (x : z) : ostring =
  let neg, x = match x with Zneg p -> true, Zpos p | _ -> false, x in
  let buf = Buffer.create 16 in
  let rec go x acc = match x with
    | Z0 -> acc
    | _ -> let d = int_of_z (Z.modulo x z16) in go (Z.div x z16) (Printf.sprintf "%x" d :: acc) in
  let digits = go x [] in
  if neg then Buffer.add_char buf '-';
  (match digits with [] -> Buffer.add_char buf '0' | _ -> List.iter (Buffer.add_string buf) digits);
  Buffer.contents buf

let bytes_of_hex (s : ostring) : z list =
  if s = "-" then [] else begin
    let n = String.length s / 2 in
    List.init n (fun i -> z_of_int (int_of_string ("0x" ^ String.sub s (2 * i) 2)))
  end
let hex_of_bytes (l : z list) : ostring =
  if l = [] then "-" else String.concat "" (List.map (fun b -> Printf.sprintf "%02x" ((int_of_z b) land 0xff)) l)
(* bytes that may be out of range (model bug detector): print as-is when not a byte *)
let hex_of_bytes_strict (l : z list) : ostring =
  if List.for_all (fun b -> let i = int_of_z b in i >= 0 && i < 256) l then hex_of_bytes l
  else "NOTBYTES[" ^ String.concat "," (List.map (fun b -> string_of_int (int_of_z b)) l) ^ "]"

let ascii_of_char (c : char) : ascii =
  let n = Char.code c in let b i = (n lsr i) land 1 = 1 in
  Ascii (b 0, b 1, b 2, b 3, b 4, b 5, b 6, b 7)
let char_of_ascii (a : ascii) : char =
  let Ascii (b0, b1, b2, b3, b4, b5, b6, b7) = a in
  let v b i = if b then 1 lsl i else 0 in
  Char.chr (v b0 0 + v b1 1 + v b2 2 + v b3 3 + v b4 4 + v b5 5 + v b6 6 + v b7 7)
let rec cstring_of (s : ostring) (i : int) : Model.string =
  if i >= String.length s then EmptyString else String (ascii_of_char s.[i], cstring_of s (i + 1))
let coq_string (s : ostring) : Model.string = cstring_of s 0
let rec ocaml_string (s : Model.string) : ostring =
  match s with EmptyString -> "" | String (a, r) -> String.make 1 (char_of_ascii a) ^ ocaml_string r

let exn_name (e : exn) : ostring = match e with
  | IndexError -> "IndexError" | KeyError -> "KeyError" | AttributeError -> "AttributeError"
  | UnboundLocal -> "UnboundLocalError" | ValueError -> "ValueError" | TypeError -> "TypeError"
  | OverflowError -> "OverflowError" | StructError -> "StructError" | InvalidTag -> "InvalidTag"
  | NeedData -> "NeedData" | ZeroDivision -> "ZeroDivisionError" | SysExit -> "SystemExit" | OutOfFuel -> "OutOfFuel"
  | UnicodeError -> "UnicodeError"

let alg_name = function AES -> "AES" | TripleDES -> "TripleDES" | ChaCha20Poly1305 -> "ChaCha20Poly1305" | ARC4 -> "ARC4"
  | Camellia -> "Camellia" | IDEA -> "IDEA" | AESGCM -> "AESGCM" | AESCCM -> "AESCCM" | ChaCha20 -> "ChaCha20"
let mode_name = function M_CBC -> "CBC" | M_CFB -> "CFB" | M_CTR -> "CTR" | M_GCM -> "GCM" | M_CCM -> "AESCCM" | M_POLY1305 -> "ChaCha20Poly1305"
let hash_name = function SHA256 -> "SHA256" | SHA384 -> "SHA384" | SHA1 -> "SHA1" | MD5 -> "MD5"

let show_suite (s : suite) : ostring =
  Printf.sprintf "algo=%s mode=%s keylen=%s mac=%s tag=%d"
    (match s.s_algo with Some (a, f) -> alg_name a ^ "/" ^ string_of_int (int_of_z f) | None -> "None/0")
    (match s.s_mode with Some (m, f) -> mode_name m ^ "/" ^ string_of_int (int_of_z f) | None -> "None/0")
    (match s.s_keylen with Some k -> string_of_int (int_of_z k) | None -> "None/0")
    (hash_name s.s_mac) (int_of_z s.s_tag)

let fclass_name = function
  | CPadding -> "Padding" | CPing -> "Ping" | CAck -> "Ack" | CResetStream -> "ResetStream" | CStopSending -> "StopSending"
  | CCrypto -> "Crypto" | CNewToken -> "NewToken" | CStream -> "Stream" | CMaxData -> "MaxData" | CMaxStreamData -> "MaxStreamData"
  | CMaxStreams -> "MaxStreams" | CDataBlocked -> "DataBlocked" | CStreamDataBlocked -> "StreamDataBlocked"
  | CStreamsBlocked -> "StreamsBlocked" | CNewConnectionId -> "NewConnectionId" | CRetireConnectionId -> "RetireConnectionId"
  | CPathChallenge -> "PathChallenge" | CPathResponse -> "PathResponse" | CConnectionClose -> "ConnectionClose"
  | CDatagram -> "Datagram" | CHandshakeDone -> "HandshakeDone" | CGeneric -> "Generic"
let show_frame (f : frame) : ostring =
  let ints = match f.f_cls with CDatagram -> [] | _ -> f.f_ints in
  Printf.sprintf "%s|%s|%s|%s|%s" (fclass_name f.f_cls)
    (match f.f_cls with CGeneric -> "-" | _ -> hex_of_z f.f_type) (hex_of_z f.f_len)
    (String.concat "," (List.map hex_of_z ints)) (String.concat "," (List.map hex_of_bytes_strict f.f_datas))
let show_result (show : 'a -> ostring) (r : 'a result) : ostring =
  match r with Ok a -> "Ok " ^ show a | Exn e -> "Exn " ^ exn_name e

(* ---------- the crypto oracle: every primitive is asked over the pipe ---------- *)
let exn_of_name (n : ostring) : exn = match n with
  | "IndexError" -> IndexError | "KeyError" -> KeyError | "AttributeError" -> AttributeError | "UnboundLocalError" -> UnboundLocal
  | "ValueError" -> ValueError | "TypeError" -> TypeError | "OverflowError" -> OverflowError | "InvalidTag" -> InvalidTag
  | "ZeroDivisionError" -> ZeroDivision | _ -> ValueError
let query (parts : ostring list) : ostring =
  print_string ("Q " ^ String.concat " " parts ^ "\n"); flush stdout; String.trim (input_line stdin)
let q_total parts : z list = bytes_of_hex (query parts)
let q_result parts : z list result =
  let a = query parts in
  if String.length a > 0 && a.[0] = '!' then Exn (exn_of_name (String.sub a 1 (String.length a - 1))) else Ok (bytes_of_hex a)
let hb = hex_of_bytes
let pipe_crypto : crypto = {
  c_hash = (fun h m -> q_total ["hash"; hash_name h; hb m]);
  c_hmac = (fun h k m -> q_total ["hmac"; hash_name h; hb k; hb m]);
  c_hkdf_extract = (fun h s i -> q_total ["hkdf_extract"; hash_name h; hb s; hb i]);
  c_hkdf_expand = (fun h prk info n -> q_result ["hkdf_expand"; hash_name h; hb prk; hb info; hex_of_z n]);
  c_aead_dec = (fun a t k n ct aad -> q_result ["aead_dec"; alg_name a; hex_of_z t; hb k; hb n; hb ct; hb aad]);
  c_aead_enc = (fun a t k n pt aad -> q_result ["aead_enc"; alg_name a; hex_of_z t; hb k; hb n; hb pt; hb aad]);
  c_cbc_dec = (fun a k iv ct -> q_result ["cbc_dec"; alg_name a; hb k; hb iv; hb ct]);
  c_cbc_enc = (fun a k iv pt -> q_result ["cbc_enc"; alg_name a; hb k; hb iv; hb pt]);
  c_rc4 = (fun k off d -> q_result ["rc4"; hb k; hex_of_z off; hb d]);
  c_ecb_enc = (fun k b -> q_result ["ecb_enc"; hb k; hb b]);
  c_chacha_mask = (fun k smp -> q_result ["chacha_mask"; hb k; hb smp]);
  c_inflate = (fun hist x -> q_result ["inflate"; (if hist = [] then "-" else String.concat "," (List.map hb hist)); hb x]) }

let label_of (s : ostring) : label = match s with
  | "CLIENT_RANDOM" -> LClientRandom | "RSA" -> LRsa | "CLIENT_EARLY_TRAFFIC_SECRET" -> LClientEarly
  | "CLIENT_HANDSHAKE_TRAFFIC_SECRET" -> LClientHs | "SERVER_HANDSHAKE_TRAFFIC_SECRET" -> LServerHs
  | "CLIENT_TRAFFIC_SECRET_0" -> LClientApp | "SERVER_TRAFFIC_SECRET_0" -> LServerApp
  | "SERVER_EARLY_TRAFFIC_SECRET" -> LServerEarly | _ -> LOther
(* secrets: "label:randomhex:valuehex|!" joined by ',' ; "-" = none *)
let secrets_of (s : ostring) : secret list =
  if s = "-" then [] else List.map (fun e -> match String.split_on_char ':' e with
    | [l; r; v] -> { s_label = label_of l; s_random = bytes_of_hex r; s_value = (if v = "!" then None else Some (bytes_of_hex v)) }
    | _ -> failwith "secret") (String.split_on_char ',' s)
let version_of (s : ostring) : tls_version = match s with
  | "SSL30" -> SSL30 | "TLS10" -> TLS10 | "TLS11" -> TLS11 | "TLS12" -> TLS12 | "TLS13" -> TLS13 | _ -> failwith "version"
let hash_of (s : ostring) : hash_alg = match s with "SHA256" -> SHA256 | "SHA384" -> SHA384 | "SHA1" -> SHA1 | "MD5" -> MD5 | _ -> failwith "hash"
let qver_of (s : ostring) : quic_version = match s with "V1" -> QV1 | "V2" -> QV2 | _ -> QUnknown
let ob = function Some b -> hex_of_bytes_strict b | None -> "None"
let show_keys12 (k : keys12) = String.concat " " (List.map hex_of_bytes_strict [k.client_mac; k.server_mac; k.client_key; k.server_key; k.client_iv; k.server_iv])
let show_keys13 (k : keys13) = String.concat " " (List.map ob [k.client_hs_key; k.server_hs_key; k.client_app_key; k.server_app_key; k.client_hs_iv; k.server_hs_iv; k.client_app_iv; k.server_app_iv])
let show_tk = function Some t -> String.concat "/" (List.map hex_of_bytes_strict [t.t_key; t.t_iv; t.t_hp]) | None -> "None"

(* ---------- whole-run inputs ---------- *)
let split c s = if s = "" then [] else String.split_on_char c s
let zlist_of (s : ostring) : z list = if s = "-" then [] else List.map z_of_hex (split ',' s)
let portmap_of (s : ostring) = if s = "-" then [] else List.map (fun e -> match split '=' e with [a; b] -> (z_of_hex a, z_of_hex b) | _ -> failwith "portmap") (split ',' s)
(* options: ports;checksum;portmap;keep;meta;greasy *)
let options_of (s : ostring) : options = match split ';' s with
  | [ports; ck; pm; keep; meta; greasy] ->
      { opt_server_ports = zlist_of ports; opt_checksum = (ck = "1"); opt_portmap = portmap_of pm; opt_keep_ports = (keep = "1");
        opt_metadata = (meta = "1"); opt_greasy = (greasy = "1") }
  | _ -> failwith "options"
let kind_of = function "T" -> L4Tcp | "U" -> L4Udp | _ -> L4Other
(* items separated by '|': P~ts[.tsid]~kind~v6~src~dst~smac~dmac~sport~dport~seq~data~proto~seg~sum  or  D~secrets *)
let item_of (s : ostring) : item = match split '~' s with
  | ["P"; ts0; k; v6; src; dst; smac; dmac; sp; dp; seq; data; proto; sg; sum] ->
      let ts, tsid = (match split '.' ts0 with [a; b] -> (a, b) | _ -> (ts0, ts0)) in
      IPacket { p_ts = z_of_hex ts; p_tsid = z_of_hex tsid; p_kind = kind_of k; p_v6 = (v6 = "1"); p_src = bytes_of_hex src; p_dst = bytes_of_hex dst;
                p_smac = bytes_of_hex smac; p_dmac = bytes_of_hex dmac; p_sport = z_of_hex sp; p_dport = z_of_hex dp; p_seq = z_of_hex seq;
                p_data = bytes_of_hex data; p_proto = z_of_hex proto; p_seg = bytes_of_hex sg; p_sum = z_of_hex sum }
  | ["D"; secs] -> IDsb (secrets_of secs)
  | _ -> failwith "item"
let items_of (s : ostring) : item list = if s = "-" then [] else List.map item_of (split '|' s)
let show_pkts (l : (z * z list) list) : ostring = String.concat ";" (List.map (fun (ts, f) -> hex_of_z ts ^ ":" ^ hex_of_bytes_strict f) l)

(* ---------- dispatch ---------- *)
let handle (cmd : ostring) (args : ostring list) : ostring =
  match cmd, args with
  | "suite", [c] -> (match x_suite (z_of_hex c) with Some s -> show_suite s | None -> "None")
  | "denote", [n] -> (match x_denote (coq_string n) with
      | Some d -> Printf.sprintf "alg=%s keylen=%d hash=%s aead=%b tag=%d" (alg_name d.d_alg) (int_of_z d.d_keylen) (hash_name d.d_hash) d.d_aead (int_of_z d.d_tag)
      | None -> "None")
  | "iana", [c] -> (match x_iana (z_of_hex c) with Some n -> ocaml_string n | None -> "None")
  | "fullpn", [l; b] -> (match x_full_pn (z_of_hex l) (bytes_of_hex b) with
      | Ok (r, l') -> "Ok " ^ hex_of_bytes_strict r ^ " " ^ hex_of_z l'
      | Exn e -> "Exn " ^ exn_name e)
  | "rfcpn", [l; t; k] -> hex_of_z (x_rfc_pn (z_of_hex l) (z_of_hex t) (z_of_hex k))
  | "nonce", [iv; pn] -> hex_of_bytes_strict (x_quic_nonce (bytes_of_hex iv) (bytes_of_hex pn))
  | "frames", [p] -> show_result (fun fs -> String.concat ";" (List.map show_frame fs)) (x_parse_frames (bytes_of_hex p))
  | "varint", [b] -> show_result hex_of_z (x_varint (bytes_of_hex b))
  | "varintlen", [b] -> show_result hex_of_z (x_varint_len (bytes_of_hex b))
  | "cksum", [off; v6; src; dst; proto; sg; fld] ->
      show_result string_of_bool (x_cksum (z_of_hex off) (v6 = "1") (bytes_of_hex src) (bytes_of_hex dst) (z_of_hex proto) (bytes_of_hex sg) (z_of_hex fld))
  | "occ", [b] -> show_result hex_of_bytes_strict (x_occ (bytes_of_hex b))
  | "dsk", [v; code; secs; cr; sr] ->
      (match x_suite (z_of_hex code) with
       | None -> "NoSuite"
       | Some cs -> show_result (function K12 k -> "K12 " ^ show_keys12 k | K13 k -> "K13 " ^ show_keys13 k)
                      (x_derive_session_keys pipe_crypto (version_of v) cs (secrets_of secs) (bytes_of_hex cr) (bytes_of_hex sr)))
  | "qik", [cid; v; chacha] ->
      show_result (function None -> "None" | Some k -> String.concat " " (List.map hex_of_bytes_strict [k.ci_key; k.ci_iv; k.ci_hp; k.si_key; k.si_iv; k.si_hp]))
        (x_dev_initial_keys pipe_crypto (bytes_of_hex cid) (qver_of v) (chacha = "1"))
  | "qqk", [kl; secs; h; v] ->
      show_result (fun k -> String.concat " " (List.map show_tk [k.q_chs; k.q_shs; k.q_capp; k.q_sapp; k.q_cearly; k.q_searly]))
        (x_dev_quic_keys pipe_crypto (z_of_hex kl) (secrets_of secs) (hash_of h) (qver_of v))
  | "ku", [sk; siv; ck; civ; ssec; csec; h; kl] ->
      show_result (fun g -> String.concat " " (List.map hex_of_bytes_strict [g.g_skey; g.g_siv; g.g_ckey; g.g_civ; g.g_ssec; g.g_csec]))
        (x_key_update pipe_crypto { g_skey = bytes_of_hex sk; g_siv = bytes_of_hex siv; g_ckey = bytes_of_hex ck; g_civ = bytes_of_hex civ;
                                    g_ssec = bytes_of_hex ssec; g_csec = bytes_of_hex csec } (hash_of h) (z_of_hex kl))
  | "prf30", [sec; cr; sr; n; nk] -> show_result hex_of_bytes_strict (x_prf_ssl_30 pipe_crypto (bytes_of_hex sec) (bytes_of_hex cr) (bytes_of_hex sr) (z_of_hex n) (nk = "1"))
  | "prf10", [sec; cr; sr; lbl; n; nk] -> show_result hex_of_bytes_strict (x_prf_tls_10_11 pipe_crypto (bytes_of_hex sec) (bytes_of_hex cr) (bytes_of_hex sr) (bytes_of_hex lbl) (z_of_hex n) (nk = "1"))
  | "prf12", [sec; cr; sr; lbl; n; h] -> show_result hex_of_bytes_strict (x_prf_tls_12 pipe_crypto (bytes_of_hex sec) (bytes_of_hex cr) (bytes_of_hex sr) (bytes_of_hex lbl) (z_of_hex n) (hash_of h))
  | "makeinfo", [l; n] -> show_result hex_of_bytes_strict (x_make_info (bytes_of_hex l) (z_of_hex n))
  | "run_tls", [opts; keylog; items] ->
      show_result show_pkts (x_run_tls pipe_crypto (options_of opts) (secrets_of keylog) (items_of items))
  | "run", [opts; keylog; items] ->
      show_result show_pkts (x_run pipe_crypto (options_of opts) (secrets_of keylog) (items_of items))
  | "run_file", [opts; keylog; items] ->
      show_result (fun l -> hex_of_bytes_strict (x_write_file l)) (x_run pipe_crypto (options_of opts) (secrets_of keylog) (items_of items))
  | "run_tls_file", [opts; keylog; items] ->
      show_result (fun l -> hex_of_bytes_strict (x_write_file l)) (x_run_tls pipe_crypto (options_of opts) (secrets_of keylog) (items_of items))
  | "pcapng", [file] ->
      show_result (fun (ti, items) -> hex_of_z ti.ts_base ^ "," ^ hex_of_z ti.ts_exp ^ "," ^ hex_of_z ti.ts_offset ^ ";" ^
                     String.concat "|" (List.map (function RPkt (t, d) -> "P:" ^ hex_of_z t ^ ":" ^ hex_of_bytes_strict d | RDsb d -> "D:" ^ hex_of_bytes_strict d) items))
        (x_pcapng (bytes_of_hex file))
  | "readlegacy", [file] ->
      show_result (fun (nano, ps) -> (if nano then "1" else "0") ^ ";" ^
                     String.concat "|" (List.map (fun ((sec, sub), d) -> hex_of_z sec ^ ":" ^ hex_of_z sub ^ ":" ^ hex_of_bytes_strict d) ps))
        (x_read_legacy (bytes_of_hex file))
  | "legacyus", [nano; sec; sub] -> (match x_legacy_us (nano = "1") (z_of_hex sec) (z_of_hex sub) with Some v -> "Some " ^ hex_of_z v | None -> "None")
  | "timeus", [n; d; off] -> (match x_time_us (z_of_hex n) (z_of_hex d) (z_of_hex off) with Some v -> "Some " ^ hex_of_z v | None -> "None")
  | "keylog", [text] ->
      let lab = function LClientRandom -> "CLIENT_RANDOM" | LRsa -> "RSA" | LClientEarly -> "CLIENT_EARLY_TRAFFIC_SECRET" | LClientHs -> "CLIENT_HANDSHAKE_TRAFFIC_SECRET"
                       | LServerHs -> "SERVER_HANDSHAKE_TRAFFIC_SECRET" | LClientApp -> "CLIENT_TRAFFIC_SECRET_0" | LServerApp -> "SERVER_TRAFFIC_SECRET_0"
                       | LServerEarly -> "SERVER_EARLY_TRAFFIC_SECRET" | LOther -> "OTHER" in
      String.concat "," (List.map (fun k -> lab k.s_label ^ ":" ^ hex_of_bytes_strict k.s_random ^ ":" ^ (match k.s_value with Some v -> hex_of_bytes_strict v | None -> "!"))
                           (x_keylog (if text = "-" then [] else bytes_of_hex text)))
  | "cli", [toks] ->
      let tok_of t = if t = "P" then TP else if t = "M" then TM else if t = "F" then TFlag else TVal (bytes_of_hex (String.sub t 1 (String.length t - 1))) in
      show_result (fun ((ports, pm), keep) -> String.concat "," (List.map hex_of_z ports) ^ ";" ^
                                              String.concat "," (List.map (fun (a, b) -> hex_of_z a ^ "=" ^ hex_of_z b) pm) ^ ";" ^ (if keep then "1" else "0"))
        (x_cli (if toks = "-" then [] else List.map tok_of (split ',' toks)))
  | "ping", _ -> "pong"
  | _ -> "ERR unknown command " ^ cmd

let () =
  try
    while true do
      let line = input_line stdin in
      match String.split_on_char ' ' (String.trim line) with
      | [] | [""] -> ()
      | cmd :: args ->
        let r = (try handle cmd args with Failure m -> "ERR " ^ m | Not_found -> "ERR not_found" | Stack_overflow -> "ERR stack_overflow") in
        print_string ("R " ^ r ^ "\n"); flush stdout
    done
  with End_of_file -> ()
