#!/bin/sh
# regenerate _CoqProject (file list) and the Makefile; run from /verif/coq
cd "$(dirname "$0")"
{
  echo "-R Model TLX"; echo "-R Spec TLX"; echo "-R Gen TLX"; echo "-R Proofs TLX"; echo "-R Properties TLX"
  echo "-arg -w -arg -notation-overridden,-deprecated-hint-without-locality,-deprecated-instance-without-locality"
  find Model Spec Gen Proofs Properties -name '*.v' | LC_ALL=C sort
} > _CoqProject.new
if ! cmp -s _CoqProject.new _CoqProject; then mv _CoqProject.new _CoqProject; coq_makefile -f _CoqProject -o Makefile >/dev/null; else rm _CoqProject.new; [ -f Makefile ] || coq_makefile -f _CoqProject -o Makefile >/dev/null; fi
